// sidever: driver of the model-based verification checks.  sidever check <Cxx> [--tier quick|thorough] [--replay file]
package main

import (
	"flag"
	"fmt"
	"os"
	"strconv"

	"github.com/trustbloc/logutil-go/pkg/log"

	"sidever/internal/ev"
	"sidever/internal/props"
)

var checks = map[string]func(*ev.Ctx){
	"C01": props.C01,
	"C02": props.C02,
	"C03": props.C03,
	"C04": props.C04,
	"C05": props.C05,
	"C06": props.C06,
	"C07": props.C07,
	"C08": props.C08,
	"C09": props.C09,
	"C10": props.C10,
	"C11": props.C11,
	"C12": props.C12,
	"C13": props.C13,
	"C14": props.C14,
	"C15": props.C15,
	"C16": props.C16,
	"C17": props.C17,
	"C18": props.C18,
	"C19": props.C19,
	"C20": props.C20,
}

func main() {
	log.SetDefaultLevel(log.PANIC)
	if len(os.Args) >= 2 && os.Args[1] == "apply-child" {
		props.ApplyChild()
		return
	}
	if len(os.Args) >= 3 && os.Args[1] == "stress-child" {
		seed, _ := strconv.ParseInt(os.Args[2], 10, 64)
		props.StressChild(seed)
		return
	}
	if len(os.Args) < 3 || os.Args[1] != "check" {
		fmt.Fprintln(os.Stderr, "usage: sidever check <Cxx> [--tier quick|thorough] [--replay file]")
		os.Exit(2)
	}
	prop := os.Args[2]
	fs := flag.NewFlagSet("check", flag.ExitOnError)
	tier := fs.String("tier", envOr("VERIF_TIER", "quick"), "quick|thorough")
	replay := fs.String("replay", "", "replay file")
	_ = fs.Parse(os.Args[3:])
	seed, _ := strconv.ParseInt(envOr("VERIF_SEED", "0"), 10, 64)
	f, ok := checks[prop]
	if !ok {
		fmt.Fprintf(os.Stderr, "no check for %s\n", prop)
		os.Exit(2)
	}
	c := ev.New(prop, *tier, seed)
	c.Replay = *replay
	f(c)
	c.Finish("model_checking")
}

func envOr(k, d string) string {
	if v := os.Getenv(k); v != "" {
		return v
	}
	return d
}
