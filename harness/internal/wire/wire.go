// Package wire assembles REAL components of the library into a protocol.Version / protocol.Client and provides the
// in-memory environment (operation store, CAS, ledger, unpublished store) with fault gates. No library component is
// mocked: only the environment interfaces the library expects its user to provide.
package wire

import (
	"fmt"
	"sort"
	"sync"

	"github.com/trustbloc/sidetree-core-go/pkg/api/operation"
	"github.com/trustbloc/sidetree-core-go/pkg/api/protocol"
	"github.com/trustbloc/sidetree-core-go/pkg/versions/1_0/doccomposer"
	"github.com/trustbloc/sidetree-core-go/pkg/versions/1_0/operationapplier"
	"github.com/trustbloc/sidetree-core-go/pkg/versions/1_0/operationparser"
)

// Version is a plain implementation of protocol.Version.
type Version struct {
	P           protocol.Protocol
	Parser      *operationparser.Parser
	Applier     protocol.OperationApplier
	Composer    protocol.DocumentComposer
	Handler     protocol.OperationHandler
	Provider    protocol.OperationProvider
	TxnProc     protocol.TxnProcessor
	Validator   protocol.DocumentValidator
	Transformer protocol.DocumentTransformer
	Name        string
}

func (v *Version) Version() string                                   { return v.Name }
func (v *Version) Protocol() protocol.Protocol                       { return v.P }
func (v *Version) TransactionProcessor() protocol.TxnProcessor       { return v.TxnProc }
func (v *Version) OperationParser() protocol.OperationParser         { return v.Parser }
func (v *Version) OperationApplier() protocol.OperationApplier       { return v.Applier }
func (v *Version) OperationHandler() protocol.OperationHandler       { return v.Handler }
func (v *Version) OperationProvider() protocol.OperationProvider     { return v.Provider }
func (v *Version) DocumentComposer() protocol.DocumentComposer       { return v.Composer }
func (v *Version) DocumentValidator() protocol.DocumentValidator     { return v.Validator }
func (v *Version) DocumentTransformer() protocol.DocumentTransformer { return v.Transformer }

// AllSigAlgs / AllKeyAlgs enable every supported key type.
var (
	AllSigAlgs = []string{"EdDSA", "ES256", "ES384", "ES512", "ES256K"}
	AllKeyAlgs = []string{"Ed25519", "P-256", "P-384", "P-521", "secp256k1"}
)

// DefaultPatches is the harness protocol's enabled patch set (also-known-as actions are deliberately disabled so
// that a delta using them is "invalid" in the sense of the specification).
var DefaultPatches = []string{"add-public-keys", "remove-public-keys", "add-services", "remove-services", "ietf-json-patch", "replace"}

// Params returns the harness protocol parameters for a hash algorithm.
func Params(hash uint) protocol.Protocol {
	return protocol.Protocol{
		GenesisTime:                  0,
		MultihashAlgorithms:          []uint{hash},
		MaxOperationCount:            4,
		MaxOperationSize:             8000,
		MaxOperationHashLength:       100,
		MaxDeltaSize:                 4000,
		MaxCasURILength:              100,
		CompressionAlgorithm:         "GZIP",
		MaxChunkFileSize:             200000,
		MaxProvisionalIndexFileSize:  200000,
		MaxCoreIndexFileSize:         200000,
		MaxProofFileSize:             200000,
		SignatureAlgorithms:          AllSigAlgs,
		KeyAlgorithms:                AllKeyAlgs,
		Patches:                      DefaultPatches,
		MaxOperationTimeDelta:        2 * 60 * 60,
		NonceSize:                    16,
		MaxMemoryDecompressionFactor: 3,
	}
}

// NewResolutionVersion wires real parser, applier and composer for resolution-only use.
func NewResolutionVersion(p protocol.Protocol, opts ...operationparser.Option) *Version {
	parser := operationparser.New(p, opts...)
	dc := doccomposer.New()
	return &Version{P: p, Parser: parser, Composer: dc, Applier: operationapplier.New(p, parser, dc), Name: "1.0"}
}

// Client is a protocol.Client over versions sorted by genesis time.
type Client struct {
	Versions []protocol.Version
}

func (c *Client) Current() (protocol.Version, error) {
	if len(c.Versions) == 0 {
		return nil, fmt.Errorf("no versions")
	}
	return c.Versions[len(c.Versions)-1], nil
}

func (c *Client) Get(t uint64) (protocol.Version, error) {
	for i := len(c.Versions) - 1; i >= 0; i-- {
		if t >= c.Versions[i].Protocol().GenesisTime {
			return c.Versions[i], nil
		}
	}
	return nil, fmt.Errorf("protocol parameters are not defined for anchoring time: %d", t)
}

// SliceStore hands back a fixed slice (the order the "store" returns operations in is the slice's order).
type SliceStore struct {
	Ops []*operation.AnchoredOperation
}

func (s *SliceStore) Get(string) ([]*operation.AnchoredOperation, error) {
	if len(s.Ops) == 0 {
		return nil, fmt.Errorf("not found")
	}
	// the processor sorts in place; hand out a copy so that the caller's order is what every call sees
	out := make([]*operation.AnchoredOperation, len(s.Ops))
	copy(out, s.Ops)
	return out, nil
}

// OpStore is an in-memory operation store keyed by suffix with an optional Put fault gate.
type OpStore struct {
	mu       sync.Mutex
	ops      map[string][]*operation.AnchoredOperation
	PutErr   func(ops []*operation.AnchoredOperation) error
	PutCalls int
}

func NewOpStore() *OpStore { return &OpStore{ops: map[string][]*operation.AnchoredOperation{}} }

func (s *OpStore) Put(ops []*operation.AnchoredOperation) error {
	s.mu.Lock()
	defer s.mu.Unlock()
	s.PutCalls++
	if s.PutErr != nil {
		if err := s.PutErr(ops); err != nil {
			return err
		}
	}
	for _, op := range ops {
		s.ops[op.UniqueSuffix] = append(s.ops[op.UniqueSuffix], op)
	}
	return nil
}

func (s *OpStore) Get(suffix string) ([]*operation.AnchoredOperation, error) {
	s.mu.Lock()
	defer s.mu.Unlock()
	ops := s.ops[suffix]
	if len(ops) == 0 {
		return nil, fmt.Errorf("uniqueSuffix[%s] not found in the store", suffix)
	}
	out := make([]*operation.AnchoredOperation, len(ops))
	copy(out, ops)
	return out, nil
}

// All returns every stored operation, ordered by suffix then insertion.
func (s *OpStore) All() []*operation.AnchoredOperation {
	s.mu.Lock()
	defer s.mu.Unlock()
	var keys []string
	for k := range s.ops {
		keys = append(keys, k)
	}
	sort.Strings(keys)
	var out []*operation.AnchoredOperation
	for _, k := range keys {
		out = append(out, s.ops[k]...)
	}
	return out
}
