// Package ev holds the run context of one check: tier, seed, evidence accumulation, violation reporting
// (replay files, VIOLATION / KNOWN-FINDING lines) and exit-code discipline.
package ev

import (
	"encoding/json"
	"fmt"
	"os"
	"path/filepath"
	"sort"
	"strings"
	"sync"
	"time"
)

// Root is the /verif directory (overridable for tests).
var Root = func() string {
	if r := os.Getenv("VERIF_ROOT"); r != "" {
		return r
	}
	return "/verif"
}()

// Ctx is the context of one check run.
type Ctx struct {
	Prop   string
	Tier   string
	Seed   int64
	Start  time.Time
	Work   string // scratch directory, removed on exit
	Replay string // non-empty: replay this file instead of exploring

	mu         sync.Mutex
	violations []violation
	known      map[string]int
	findings   []Finding
	Cov        Coverage
	Assume     []string
	notes      []string
}

type violation struct {
	Class string
	Path  string
}

// Coverage mirrors the evidence schema (model_checking level keys plus the generic ones).
type Coverage struct {
	States                     int64                  `json:"states"`
	Transitions                int64                  `json:"transitions"`
	TracesValidatedAgainstImpl int64                  `json:"traces_validated_against_impl"`
	Evaluations                int64                  `json:"evaluations"`
	DistinctNontrivial         int64                  `json:"distinct_nontrivial"`
	Rule                       string                 `json:"rule"`
	Samples                    []interface{}          `json:"samples"`
	Exhaustive                 bool                   `json:"exhaustive"`
	CheckerCmd                 string                 `json:"checker_cmd"`
	Explanation                string                 `json:"explanation,omitempty"`
	Extra                      map[string]interface{} `json:"-"`
}

// Finding is an entry of /verif/known_findings.json.
type Finding struct {
	Property string `json:"property"`
	ID       string `json:"id"`
	Status   string `json:"status"` // "known" | "fixed"
	Commit   string `json:"commit,omitempty"`
	Match    string `json:"match"` // violation class (exact) this entry covers
	What     string `json:"what"`
}

// New creates the context.
func New(prop, tier string, seed int64) *Ctx {
	c := &Ctx{Prop: prop, Tier: tier, Seed: seed, Start: time.Now(), known: map[string]int{}}
	c.Cov.Extra = map[string]interface{}{}
	work := filepath.Join(Root, ".work")
	_ = os.MkdirAll(work, 0o755)
	d, err := os.MkdirTemp(work, prop+"-")
	if err != nil {
		Fatal("cannot create scratch dir: %v", err)
	}
	c.Work = d
	b, err := os.ReadFile(filepath.Join(Root, "known_findings.json"))
	if err == nil {
		var fs []Finding
		if err := json.Unmarshal(b, &fs); err != nil {
			Fatal("known_findings.json unreadable: %v", err)
		}
		c.findings = fs
	}
	return c
}

// Fatal reports a machinery failure: exit 2, never a violation.
func Fatal(format string, a ...interface{}) {
	fmt.Fprintf(os.Stderr, "MACHINERY-FAILURE: "+format+"\n", a...)
	os.Exit(2)
}

// Note adds a free-text note to the evidence.
func (c *Ctx) Note(format string, a ...interface{}) {
	c.mu.Lock()
	defer c.mu.Unlock()
	if len(c.notes) < 40 {
		c.notes = append(c.notes, fmt.Sprintf(format, a...))
	}
}

// AddSample stores a sample case (bounded).
func (c *Ctx) AddSample(s interface{}) {
	c.mu.Lock()
	defer c.mu.Unlock()
	if len(c.Cov.Samples) < 6 {
		c.Cov.Samples = append(c.Cov.Samples, s)
	}
}

// Violation records a violation of the property observed on REAL code. class identifies the specific failing
// input class (used to match known findings); replay is written to a file.
func (c *Ctx) Violation(class string, replay interface{}) {
	c.mu.Lock()
	defer c.mu.Unlock()
	for _, f := range c.findings {
		if f.Property == c.Prop && f.Status == "known" && f.Match == class {
			c.known[f.ID]++
			return
		}
	}
	n := 0
	for _, v := range c.violations {
		if v.Class == class {
			n++
		}
	}
	files := 0
	for _, v := range c.violations {
		if v.Path != "" {
			files++
		}
	}
	if n >= 3 || files >= 12 { // keep at most three replay files per class, twelve per run
		c.violations = append(c.violations, violation{class, ""})
		return
	}
	dir := filepath.Join(Root, "replay")
	_ = os.MkdirAll(dir, 0o755)
	name := fmt.Sprintf("%s-%s-%d.json", c.Prop, sanitize(class), n)
	path := filepath.Join(dir, name)
	b, _ := json.MarshalIndent(map[string]interface{}{"property": c.Prop, "class": class, "tier": c.Tier, "seed": c.Seed, "case": replay}, "", " ")
	_ = os.WriteFile(path, b, 0o644)
	c.violations = append(c.violations, violation{class, path})
}

func sanitize(s string) string {
	var b strings.Builder
	for _, r := range s {
		if r >= 'a' && r <= 'z' || r >= 'A' && r <= 'Z' || r >= '0' && r <= '9' || r == '-' || r == '_' {
			b.WriteRune(r)
		} else {
			b.WriteRune('_')
		}
	}
	if b.Len() > 60 {
		return b.String()[:60]
	}
	return b.String()
}

// NViolations returns the number of (unlisted) violations so far.
func (c *Ctx) NViolations() int {
	c.mu.Lock()
	defer c.mu.Unlock()
	return len(c.violations)
}

// Finish writes the evidence file, prints verdict lines and exits.
func (c *Ctx) Finish(level string) {
	defer os.RemoveAll(c.Work)
	c.mu.Lock()
	defer c.mu.Unlock()
	for _, f := range c.findings {
		if f.Property == c.Prop && f.Status == "known" {
			if c.known[f.ID] > 0 {
				fmt.Printf("KNOWN-FINDING: property=%s %s (%s; %d occurrence(s) this run)\n", c.Prop, f.ID, f.What, c.known[f.ID])
			} else {
				fmt.Printf("KNOWN-FINDING: property=%s %s (%s; not reproduced this run)\n", c.Prop, f.ID, f.What)
			}
		}
	}
	cov := map[string]interface{}{}
	b, _ := json.Marshal(c.Cov)
	_ = json.Unmarshal(b, &cov)
	for k, v := range c.Cov.Extra {
		cov[k] = v
	}
	if len(c.notes) > 0 {
		cov["notes"] = c.notes
	}
	if len(c.Cov.Samples) == 0 {
		cov["samples"] = []interface{}{map[string]interface{}{"note": "the run ended before its first sampling point; see the replay files / counts"}}
	}
	c.Assume = append(c.Assume, "TLC explored the stated configuration completely unless exhaustive=false",
		"the concretiser and the abstraction alpha (table lookups, self-checked) are trusted; verdicts come only from real-code behaviour")
	tier := c.Tier
	if tier != "quick" && tier != "thorough" {
		tier = "quick"
	}
	evd := map[string]interface{}{
		"property_id": c.Prop, "tier": tier, "seed": c.Seed, "level": level,
		"coverage": cov, "assumptions": c.Assume, "wall_s": time.Since(c.Start).Seconds(), "violations": len(c.violations),
	}
	if c.Replay == "" {
		out, _ := json.MarshalIndent(evd, "", " ")
		_ = os.MkdirAll(filepath.Join(Root, "evidence"), 0o755)
		if err := os.WriteFile(filepath.Join(Root, "evidence", c.Prop+".json"), out, 0o644); err != nil {
			fmt.Fprintf(os.Stderr, "cannot write evidence: %v\n", err)
			os.Exit(2)
		}
	}
	if len(c.violations) == 0 {
		fmt.Printf("OK property=%s tier=%s seed=%d states=%d replayed=%d nontrivial=%d wall=%.1fs\n", c.Prop, c.Tier, c.Seed,
			c.Cov.States, c.Cov.TracesValidatedAgainstImpl, c.Cov.DistinctNontrivial, time.Since(c.Start).Seconds())
		os.Exit(0)
	}
	classes := map[string]int{}
	for _, v := range c.violations {
		classes[v.Class]++
	}
	var keys []string
	for k := range classes {
		keys = append(keys, k)
	}
	sort.Strings(keys)
	for _, k := range keys {
		fmt.Printf("violation class %q: %d case(s)\n", k, classes[k])
	}
	for _, v := range c.violations {
		if v.Path != "" {
			fmt.Printf("VIOLATION property=%s replay=%s\n", c.Prop, v.Path)
		}
	}
	os.Exit(1)
}
