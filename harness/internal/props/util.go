package props

import (
	"sort"
	"strconv"
)

func itoa(i int) string { return strconv.Itoa(i) }

func sortedKeys(m map[string]bool) []string {
	out := make([]string, 0, len(m))
	for k := range m {
		out = append(out, k)
	}
	sort.Strings(out)
	return out
}

// permute calls f with every permutation of a (in place).
func permute(a []AnchOp, f func([]AnchOp)) {
	var rec func(int)
	rec = func(k int) {
		if k == len(a) {
			f(a)
			return
		}
		for i := k; i < len(a); i++ {
			a[k], a[i] = a[i], a[k]
			rec(k + 1)
			a[k], a[i] = a[i], a[k]
		}
	}
	rec(0)
}
