package props

import (
	"fmt"

	"sidever/internal/concr"
	"sidever/internal/ev"
	"sidever/internal/pipe"
)

// placeholders filled in by the pipeline / intake modules
func handlerRefusesDeactivated(c *ev.Ctx) {
	// C04 (c): behaviours in which the client keeps submitting after a deactivate; the real DocumentHandler (default
	// decorator) must refuse exactly when the specification's resolution of the DID is deactivated, leaving queue and
	// unpublished store untouched - checked by trace validation against Pipeline.tla.
	// a create request for a DID that has been deactivated is a new operation for it, too
	for _, unpub := range []bool{true, false} {
		p, err := pipe.New(unpub, KeyTypeForSeed(c.Seed))
		if err != nil {
			ev.Fatal("pipeline wiring: %v", err)
		}
		for _, st := range []pipe.Step{{A: "Submit", D: 1, K: "C"}, {A: "Flush"}} {
			if err := p.Exec(st, []int{1, 2}); err != nil {
				ev.Fatal("scenario: %v", err)
			}
		}
		p.ObserveMany([]string{"none"})
		for _, st := range []pipe.Step{{A: "Submit", D: 1, K: "D"}, {A: "Flush"}} {
			if err := p.Exec(st, []int{1, 2}); err != nil {
				ev.Fatal("scenario: %v", err)
			}
		}
		p.ObserveMany([]string{"none"})
		accepted, qlen, err := p.ResubmitCreate(1)
		if err != nil {
			ev.Fatal("scenario: %v", err)
		}
		c.Cov.Evaluations++
		if accepted || qlen != 0 {
			c.Violation("create-request-for-deactivated-did-accepted", map[string]interface{}{"unpublished_store": unpub, "accepted": accepted, "queue_length_afterwards": qlen,
				"scenario": "create, anchored, observed; deactivate, anchored, observed; the same create request submitted again"})
		}
		p.Close()
	}
	n := 60
	if c.Tier == "thorough" {
		n = 1500
	}
	after := func(h []pipe.Step) bool {
		dead := map[int]bool{}
		for _, s := range h {
			if s.A == "Submit" {
				if dead[s.D] {
					return true
				}
				if s.K == "D" {
					dead[s.D] = true
				}
			}
		}
		return false
	}
	for _, unpub := range []bool{true, false} {
		cfg := "MC_Pipeline_valid_unpub.cfg"
		if !unpub {
			cfg = "MC_Pipeline_valid_nounpub.cfg"
		}
		var sel [][]pipe.Step
		for _, h := range pipelineBehaviours(c, cfg, n*4, c.Seed+303) {
			if after(h) {
				sel = append(sel, h)
			}
		}
		if len(sel) > n {
			sel = sel[:n]
		}
		before := c.Cov.DistinctNontrivial
		runPipelineBehaviours(c, unpub, sel, after, "intake-after-deactivate-trace-rejected")
		c.Cov.Extra[fmt.Sprintf("handler_behaviours_with_submission_after_deactivate_unpub_%v", unpub)] = c.Cov.DistinctNontrivial - before
	}
}

// intakeRecommit: C12 (intake half) - the real parser rejects every update / recover whose next commitment is the
// commitment of the key it reveals (computed with the algorithm the next commitment names) and every create / recover
// whose update and recovery commitments are equal; the valid baselines are accepted. All five key types.
func intakeRecommit(c *ev.Ctx) {
	cases := runIntakeTLC(c)
	evalIntake(c, cases, concr.KeyTypes, func(cs *intakeCase) bool { return cs.Req.Next != "fresh" || cs.Ndev == 0 }, "recommit")
}
