package props

import (
	"fmt"

	"sidever/internal/concr"
	"sidever/internal/ev"
	"sidever/internal/pipe"
)

// placeholders filled in by the pipeline / intake modules
func handlerRefusesDeactivated(c *ev.Ctx) {
	// C04 (c): behaviours in which the client keeps submitting after a deactivate; the real DocumentHandler (default
	// decorator) must refuse exactly when the specification's resolution of the DID is deactivated, leaving queue and
	// unpublished store untouched - checked by trace validation against Pipeline.tla.
	n := 60
	if c.Tier == "thorough" {
		n = 1500
	}
	after := func(h []pipe.Step) bool {
		dead := map[int]bool{}
		for _, s := range h {
			if s.A == "Submit" {
				if dead[s.D] {
					return true
				}
				if s.K == "D" {
					dead[s.D] = true
				}
			}
		}
		return false
	}
	for _, unpub := range []bool{true, false} {
		cfg := "MC_Pipeline_valid_unpub.cfg"
		if !unpub {
			cfg = "MC_Pipeline_valid_nounpub.cfg"
		}
		var sel [][]pipe.Step
		for _, h := range pipelineBehaviours(c, cfg, n*4, c.Seed+303) {
			if after(h) {
				sel = append(sel, h)
			}
		}
		if len(sel) > n {
			sel = sel[:n]
		}
		before := c.Cov.DistinctNontrivial
		runPipelineBehaviours(c, unpub, sel, after, "intake-after-deactivate-trace-rejected")
		c.Cov.Extra[fmt.Sprintf("handler_behaviours_with_submission_after_deactivate_unpub_%v", unpub)] = c.Cov.DistinctNontrivial - before
	}
}

// intakeRecommit: C12 (intake half) - the real parser rejects every update / recover whose next commitment is the
// commitment of the key it reveals (computed with the algorithm the next commitment names) and every create / recover
// whose update and recovery commitments are equal; the valid baselines are accepted. All five key types.
func intakeRecommit(c *ev.Ctx) {
	cases := runIntakeTLC(c)
	evalIntake(c, cases, concr.KeyTypes, func(cs *intakeCase) bool { return cs.Req.Next != "fresh" || cs.Ndev == 0 }, "recommit")
}
