package props

import "sidever/internal/ev"

// placeholders filled in by the pipeline / intake modules
func handlerRefusesDeactivated(c *ev.Ctx) {}
func intakeRecommit(c *ev.Ctx)            {}
