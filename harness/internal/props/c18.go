package props

import (
	"bufio"
	"encoding/json"
	"fmt"
	"os"
	"os/exec"
	"reflect"
	"strings"
	"sync"
	"time"

	"github.com/trustbloc/sidetree-core-go/pkg/document"
	"github.com/trustbloc/sidetree-core-go/pkg/patch"
	"github.com/trustbloc/sidetree-core-go/pkg/versions/1_0/doccomposer"
	"github.com/trustbloc/sidetree-core-go/pkg/versions/1_0/model"
	"github.com/trustbloc/sidetree-core-go/pkg/versions/1_0/operationparser"

	"sidever/internal/concr"
	"sidever/internal/ev"
	"sidever/internal/tlc"
	"sidever/internal/wire"
)

type ruleCase struct {
	P struct {
		Kind        string `json:"kind"`
		Enabled     bool   `json:"enabled"`
		ID          string `json:"id"`
		Second      string `json:"second"`
		Shape       string `json:"shape"`
		Ktype       string `json:"ktype"`
		Purposes    string `json:"purposes"`
		Material    string `json:"material"`
		Extra       bool   `json:"extra"`
		TypeMissing bool   `json:"typeMissing"`
		Stype       string `json:"stype"`
		Endpoint    string `json:"endpoint"`
		Ids         string `json:"ids"`
		Uris        string `json:"uris"`
		Inner       string `json:"inner"`
	} `json:"p"`
	Valid bool `json:"valid"`
	Ndev  int  `json:"ndev"`
}

type jsonOp struct {
	Op    string `json:"op"`
	Path  string `json:"path"`
	From  string `json:"from"`
	Value string `json:"value"`
}

type jsonOpsMsg struct {
	Ops []struct {
		O     jsonOp `json:"o"`
		Valid bool   `json:"valid"`
	} `json:"ops"`
	First []jsonOp `json:"first"`
}

// badIDs realises the abstract class "badChar": every ASCII character outside [A-Za-z0-9_-] (control characters
// included) at the start, in the middle and at the end of an otherwise valid id, plus some non-ASCII letters.
func badIDs() []string {
	var out []string
	for ch := 0; ch < 128; ch++ {
		c := byte(ch)
		if c == '_' || c == '-' || (c >= '0' && c <= '9') || (c >= 'a' && c <= 'z') || (c >= 'A' && c <= 'Z') {
			continue
		}
		out = append(out, "a"+string(rune(c))+"b", string(rune(c))+"a", "a"+string(rune(c)))
	}
	for _, u := range []string{"\u00e9", "\u0430", "\u4e2d", "\uff41", "\u200b", "\U0001f600"} {
		out = append(out, "a"+u+"b", u)
	}
	return out
}

// nVariants: classes that stand for many concrete spellings are realised by this many instances each.
const nVariants = 4

func usesVariants(c *ruleCase) bool {
	switch c.P.Endpoint {
	case "badUri", "relative", "nonString", "arrNonString", "arrNested", "arrUriBad", "arrBadUri", "arrObjBad":
		return true
	}
	if c.P.Shape != "objects" && c.P.Shape != "" {
		return true
	}
	switch c.P.Inner {
	case "junkKey", "junkSvc", "keysNotArray", "svcsNotArray":
		return true
	}
	return false
}

var junkEntries = []interface{}{"junk", 7, nil, true}
var notArrays = []interface{}{"junk", map[string]interface{}{"id": "a"}, 7, true}
var badURIs = []string{"not a uri", "http://x/a b", "http://x/<>", "http://x/%zz"}
var relativeRefs = []string{"/etc/passwd", "*", "//host-without-scheme/x", "/\u00e9"}
var nonStrings = []interface{}{42, true, 1.5e300, false}

func usesBadChar(c *ruleCase) bool {
	return c.P.ID == "badChar" || c.P.Ids == "badChar" || c.P.Inner == "badKey"
}

func idOf(class, bad string) (string, bool) {
	switch class {
	case "len1":
		return "a", true
	case "len50":
		return strings.Repeat("k", 50), true
	case "len51":
		return strings.Repeat("k", 51), true
	case "empty":
		return "", true
	case "badChar":
		return bad, true
	}
	return "", false // missing
}

func keyEntry(c *ruleCase, id string, hasID bool) map[string]interface{} {
	e := map[string]interface{}{}
	if hasID {
		e["id"] = id
	}
	if !c.P.TypeMissing {
		e["type"] = c.P.Ktype
	}
	all := []interface{}{"authentication", "assertionMethod", "keyAgreement", "capabilityDelegation", "capabilityInvocation"}
	switch c.P.Purposes {
	case "empty":
		e["purposes"] = []interface{}{}
	case "auth":
		e["purposes"] = []interface{}{"authentication"}
	case "agreement":
		e["purposes"] = []interface{}{"keyAgreement"}
	case "authAndAgreement":
		e["purposes"] = []interface{}{"authentication", "keyAgreement"}
	case "allFive":
		e["purposes"] = all
	case "invalid":
		e["purposes"] = []interface{}{"signing"}
	case "six":
		e["purposes"] = append(append([]interface{}{}, all...), "authentication")
	}
	jwk := map[string]interface{}{"kty": "EC", "crv": "P-256", "x": "PUymIqdtF_qxaAqPABSw-C-owT1KYYQbsMKFM-L9fJA", "y": "nM84jDHCMOTGTh_ZdHq4dBBdo4Z5PkEOW9jA8z8IsGc"}
	switch c.P.Material {
	case "jwk":
		e["publicKeyJwk"] = jwk
	case "jwkNoX":
		e["publicKeyJwk"] = map[string]interface{}{"kty": "EC", "crv": "P-256"}
	case "b58":
		e["publicKeyBase58"] = "36d8RkFy2SdabnGzcZ3LcCSDA8NP5T4bsoADwuXtoN3B"
	case "both":
		e["publicKeyJwk"] = jwk
		e["publicKeyBase58"] = "36d8RkFy2SdabnGzcZ3LcCSDA8NP5T4bsoADwuXtoN3B"
	}
	if c.P.Extra {
		e["controller"] = "did:example:123"
	}
	return e
}

var variant int // set by the (sequential) instantiation loop

func svcEntry(c *ruleCase, id string, hasID bool) map[string]interface{} {
	e := map[string]interface{}{}
	if hasID {
		e["id"] = id
	}
	if !c.P.TypeMissing {
		e["type"] = map[string]string{"len1": "T", "len30": strings.Repeat("T", 30), "len31": strings.Repeat("T", 31)}[c.P.Stype]
	}
	good, bad := "https://e.example.com/x", badURIs[variant%len(badURIs)]
	rel, ns := relativeRefs[variant%len(relativeRefs)], nonStrings[variant%len(nonStrings)]
	switch c.P.Endpoint {
	case "uri":
		e["serviceEndpoint"] = good
	case "badUri":
		e["serviceEndpoint"] = bad
	case "emptyString":
		e["serviceEndpoint"] = ""
	case "arrUri":
		e["serviceEndpoint"] = []interface{}{good}
	case "arrUriBad":
		e["serviceEndpoint"] = []interface{}{good, bad}
	case "arrBadUri":
		e["serviceEndpoint"] = []interface{}{bad, good}
	case "arrObjBad":
		e["serviceEndpoint"] = []interface{}{map[string]interface{}{"o": 1}, bad}
	case "object":
		e["serviceEndpoint"] = map[string]interface{}{"origins": []interface{}{good}}
	case "relative":
		e["serviceEndpoint"] = []interface{}{rel, []interface{}{rel}, []interface{}{good, rel}, rel}[variant%4]
	case "nonString":
		e["serviceEndpoint"] = ns
	case "arrNonString":
		e["serviceEndpoint"] = [][]interface{}{{ns}, {nil}, {good, ns}, {ns, good}}[variant%4]
	case "arrNested":
		e["serviceEndpoint"] = [][]interface{}{{[]interface{}{"not a uri"}}, {good, []interface{}{"not a uri"}}, {[]interface{}{42}}, {[]interface{}{"/x"}, good}}[variant%4]
	}
	return e
}

// rulePatch concretises a PatchRules case; returns the patch JSON and its action name.
func rulePatch(c *ruleCase, bad string) (map[string]interface{}, string) {
	id, hasID := idOf(c.P.ID, bad)
	entries := func(mk func(*ruleCase, string, bool) map[string]interface{}) []interface{} {
		l := []interface{}{mk(c, id, hasID)}
		switch c.P.Second {
		case "distinct":
			l = append(l, mk(c, "second-1", true))
		case "dup":
			l = append(l, mk(c, id, hasID))
		}
		return l
	}
	// the shape of the entry list: a non-object entry would never be looked at by the entry rules
	shaped := func(l []interface{}) interface{} {
		junk := junkEntries[variant%len(junkEntries)]
		switch c.P.Shape {
		case "junkFirst":
			return append([]interface{}{junk}, l...)
		case "junkLast":
			return append(l, junk)
		case "nested":
			return []interface{}{[]interface{}{l}, []interface{}{[]interface{}{l}}, []interface{}{l, l[0]}, []interface{}{l[0], l}}[variant%4]
		case "notArray":
			return notArrays[variant%len(notArrays)]
		}
		return l
	}
	switch c.P.Kind {
	case "addKeys":
		return map[string]interface{}{"action": "add-public-keys", "publicKeys": shaped(entries(keyEntry))}, "add-public-keys"
	case "addSvcs":
		return map[string]interface{}{"action": "add-services", "services": shaped(entries(svcEntry))}, "add-services"
	case "removeKeys", "removeSvcs":
		ids := map[string][]interface{}{"ok": {"a", "b"}, "empty": {}, "badChar": {"a", bad}, "len51": {strings.Repeat("k", 51)}, "len50": {strings.Repeat("k", 50)}}[c.P.Ids]
		if c.P.Kind == "removeKeys" {
			return map[string]interface{}{"action": "remove-public-keys", "ids": ids}, "remove-public-keys"
		}
		return map[string]interface{}{"action": "remove-services", "ids": ids}, "remove-services"
	case "aka":
		uris := map[string][]interface{}{"ok": {"https://a.example.com", "https://b.example.com"}, "empty": {}, "dup": {"https://a.example.com", "https://a.example.com"},
			"unparseable": {"https://a.example.com/%zz"}}[c.P.Uris]
		return map[string]interface{}{"action": "add-also-known-as", "uris": uris}, "add-also-known-as"
	case "replace":
		base := *c
		base.P.Ktype, base.P.Purposes, base.P.Material, base.P.Stype, base.P.Endpoint = "JsonWebKey2020", "auth", "jwk", "len1", "uri"
		doc := map[string]interface{}{"publicKeys": []interface{}{keyEntry(&base, "k1", true)}, "services": []interface{}{svcEntry(&base, "s1", true)}}
		switch c.P.Inner {
		case "extraMember":
			doc["other"] = 1
		case "badKey":
			doc["publicKeys"] = []interface{}{keyEntry(&base, bad, true)}
		case "badSvc":
			b2 := base
			b2.P.Stype = "len31"
			doc["services"] = []interface{}{svcEntry(&b2, "s1", true)}
		case "dupKey":
			doc["publicKeys"] = []interface{}{keyEntry(&base, "k1", true), keyEntry(&base, "k1", true)}
		case "junkKey":
			doc["publicKeys"] = [][]interface{}{{junkEntries[variant%4], keyEntry(&base, "k1", true)}, {keyEntry(&base, "k1", true), junkEntries[variant%4]}}[variant/4%2]
		case "junkSvc":
			doc["services"] = [][]interface{}{{junkEntries[variant%4], svcEntry(&base, "s1", true)}, {svcEntry(&base, "s1", true), junkEntries[variant%4]}}[variant/4%2]
		case "nestedKeys":
			bad := keyEntry(&base, "bad id!!", true)
			bad["type"] = "NoSuchType"
			doc["publicKeys"] = []interface{}{[]interface{}{bad}}
		case "nestedSvcs":
			b2 := base
			b2.P.Stype, b2.P.Endpoint = "len31", "badUri"
			doc["services"] = []interface{}{[]interface{}{svcEntry(&b2, "bad id!!", true)}}
		case "keysNotArray":
			doc["publicKeys"] = notArrays[variant%4]
		case "svcsNotArray":
			doc["services"] = notArrays[variant%4]
		}
		return map[string]interface{}{"action": "replace", "document": doc}, "replace"
	}
	return nil, ""
}

func ruleClass(c *ruleCase) string {
	s := c.P.Kind
	add := func(n, v, ok string) {
		if v != ok {
			s += ":" + n + "=" + v
		}
	}
	if !c.P.Enabled {
		s += ":disabled"
	}
	add("id", c.P.ID, "len1")
	add("second", c.P.Second, "none")
	if c.P.Shape != "" {
		add("shape", c.P.Shape, "objects")
	}
	add("ktype", c.P.Ktype, "JsonWebKey2020")
	add("purposes", c.P.Purposes, "auth")
	add("material", c.P.Material, "jwk")
	if c.P.Extra {
		s += ":extraMember"
	}
	if c.P.TypeMissing {
		s += ":typeMissing"
	}
	add("stype", c.P.Stype, "len1")
	add("endpoint", c.P.Endpoint, "uri")
	add("ids", c.P.Ids, "ok")
	add("uris", c.P.Uris, "ok")
	add("inner", c.P.Inner, "ok")
	return s
}

var allPatchActions = []string{"add-public-keys", "remove-public-keys", "add-services", "remove-services", "ietf-json-patch", "replace", "add-also-known-as", "remove-also-known-as"}

func validateDeltaWith(p map[string]interface{}, enabled []string) (err error) {
	defer func() {
		if r := recover(); r != nil {
			err = fmt.Errorf("PANIC in validation: %v", r)
		}
	}()
	raw, _ := json.Marshal(p)
	pt, perr := patch.FromBytes(raw)
	if perr != nil {
		return perr
	}
	params := wire.Params(concr.SHA256)
	params.Patches = enabled
	keys, _ := concr.NewKeys(1, concr.SHA256, func(int) concr.KeyType { return concr.Ed25519 })
	return operationparser.New(params).ValidateDelta(&model.DeltaModel{UpdateCommitment: keys.C(1), Patches: []patch.Patch{pt}})
}

func opJSON(o jsonOp) map[string]interface{} {
	m := map[string]interface{}{"op": o.Op}
	switch o.Path {
	case "ABSENT":
	case "NONSTRING":
		m["path"] = 7
	case "NULL":
		m["path"] = nil
	default:
		m["path"] = o.Path
	}
	switch o.From {
	case "ABSENT":
	case "NONSTRING":
		m["from"] = 7
	case "NULL":
		m["from"] = nil
	default:
		m["from"] = o.From
	}
	switch o.Value {
	case "present":
		m["value"] = map[string]interface{}{"v": 1}
	case "null":
		m["value"] = nil
	}
	return m
}

var smallDocs = []string{
	`{}`,
	`{"publicKey":[{"id":"k1","type":"JsonWebKey2020","purposes":["authentication"],"publicKeyJwk":{"kty":"EC","crv":"P-256","x":"x","y":"y"}}],"service":[{"id":"s1","type":"T","serviceEndpoint":"https://e.example.com"}]}`,
	`{"publicKey":[{"id":"k1","type":"JsonWebKey2020","publicKeyJwk":{"kty":"EC","crv":"P-256","x":"x","y":"y"}}],"service":[{"id":"s1","type":"T","serviceEndpoint":"https://e.example.com"}],"other":{"deep":{"er":1}},"arr":[1,2,3],"nul":null,"a/b":{"n":1},"~1":{"k":"v"},"/0":[1]}`,
	`{"service":[{"id":"s1","type":"T","serviceEndpoint":"https://e.example.com"}],"other":"str","arr":[],"nul":null}`,
	`{"publicKey":[],"other":[{"x":null}],"arr":[[1],[2]]}`,
	`{"other":{"deep":null},"arr":[null],"alsoKnownAs":["https://a.example.com"]}`,
}

type applyJob struct {
	I     int             `json:"i"`
	Doc   json.RawMessage `json:"doc"`
	Patch json.RawMessage `json:"patch"`
}

type applyResult struct {
	Outcome string          `json:"outcome"` // ok | error | panic
	Doc     json.RawMessage `json:"doc,omitempty"`
	Msg     string          `json:"msg,omitempty"`
}

// ApplyChild is the crash-isolated worker: it applies one patch per input line to one document with the real composer.
func ApplyChild() {
	dc := doccomposer.New()
	in := bufio.NewScanner(os.Stdin)
	in.Buffer(make([]byte, 1<<20), 1<<26)
	out := bufio.NewWriter(os.Stdout)
	defer out.Flush()
	for in.Scan() {
		var j applyJob
		if json.Unmarshal(in.Bytes(), &j) != nil {
			continue
		}
		fmt.Fprintf(out, "S %d\n", j.I)
		out.Flush()
		res := applyResult{}
		func() {
			defer func() {
				if r := recover(); r != nil {
					res = applyResult{Outcome: "panic", Msg: fmt.Sprint(r)}
				}
			}()
			doc, err := document.FromBytes(j.Doc)
			if err != nil {
				res = applyResult{Outcome: "error", Msg: "doc: " + err.Error()}
				return
			}
			pt, err := patch.FromBytes(j.Patch)
			if err != nil {
				res = applyResult{Outcome: "error", Msg: "patch: " + err.Error()}
				return
			}
			got, err := dc.ApplyPatches(doc, []patch.Patch{pt})
			if err != nil {
				res = applyResult{Outcome: "error", Msg: err.Error()}
				return
			}
			b, _ := json.Marshal(got)
			res = applyResult{Outcome: "ok", Doc: b}
		}()
		b, _ := json.Marshal(res)
		fmt.Fprintf(out, "R %d %s\n", j.I, b)
		out.Flush()
	}
}

// runApplyJobs pushes jobs through child processes; a child that dies or hangs pins the blame on the job in flight.
func runApplyJobs(jobs []applyJob) map[int]applyResult {
	results := map[int]applyResult{}
	self, _ := os.Executable()
	next := 0
	for next < len(jobs) {
		cmd := exec.Command(self, "apply-child")
		stdin, _ := cmd.StdinPipe()
		stdout, _ := cmd.StdoutPipe()
		if err := cmd.Start(); err != nil {
			ev.Fatal("cannot start apply child: %v", err)
		}
		batch := jobs[next:]
		go func() {
			w := bufio.NewWriter(stdin)
			for _, j := range batch {
				b, _ := json.Marshal(j)
				w.Write(b)
				w.WriteByte('\n')
			}
			w.Flush()
			stdin.Close()
		}()
		lines := make(chan string, 1024)
		go func() {
			sc := bufio.NewScanner(stdout)
			sc.Buffer(make([]byte, 1<<20), 1<<26)
			for sc.Scan() {
				lines <- sc.Text()
			}
			close(lines)
		}()
		inflight := -1
		dead := false
		for !dead {
			select {
			case l, ok := <-lines:
				if !ok {
					dead = true
					break
				}
				var i int
				if strings.HasPrefix(l, "S ") {
					fmt.Sscanf(l, "S %d", &i)
					inflight = i
				} else if strings.HasPrefix(l, "R ") {
					sp := strings.SplitN(l, " ", 3)
					fmt.Sscanf(sp[1], "%d", &i)
					var r applyResult
					_ = json.Unmarshal([]byte(sp[2]), &r)
					results[i] = r
					inflight = -1
					next = indexAfter(jobs, i)
				}
			case <-time.After(20 * time.Second):
				_ = cmd.Process.Kill()
				if inflight >= 0 {
					results[inflight] = applyResult{Outcome: "hang", Msg: "no result within 20 s"}
					next = indexAfter(jobs, inflight)
				}
				dead = true
			}
		}
		_ = cmd.Wait()
		if inflight >= 0 {
			if _, ok := results[inflight]; !ok {
				results[inflight] = applyResult{Outcome: "crash", Msg: "child process died"}
				next = indexAfter(jobs, inflight)
			}
		} else if next < len(jobs) && len(results) == 0 {
			ev.Fatal("apply child produced nothing")
		}
		if inflight < 0 {
			break
		}
	}
	return results
}

func indexAfter(jobs []applyJob, i int) int {
	for k, j := range jobs {
		if j.I == i {
			return k + 1
		}
	}
	return len(jobs)
}

// C18: validated deltas obey the structural rules and cannot crash resolution.
func C18(c *ev.Ctx) {
	r, err := tlc.Run(tlc.Opts{SpecDir: specDir(), Module: "PatchRules", Config: "PatchRules_" + c.Tier + ".cfg", WorkDir: c.Work, Timeout: 20 * time.Minute})
	if err != nil {
		ev.Fatal("TLC PatchRules: %v", err)
	}
	if r.InvariantViolated != "" {
		ev.Fatal("PatchRules.tla invariant violated: %s", r.InvariantViolated)
	}
	c.Cov.States, c.Cov.Transitions, c.Cov.CheckerCmd = r.Distinct, r.Generated, r.Cmd
	cases := make([]ruleCase, len(r.Cases))
	for i, raw := range r.Cases {
		if err := json.Unmarshal(raw, &cases[i]); err != nil {
			ev.Fatal("case: %v", err)
		}
	}
	var mu sync.Mutex
	var accepted []applyJob
	acceptedMeta := map[int]string{}
	jobID := 0
	var nt, stricter int64
	bads := badIDs()
	var nBad, nVar int64
	type inst struct {
		cs  *ruleCase
		bad string
		v   int
	}
	var insts []inst
	for i := range cases {
		if usesBadChar(&cases[i]) {
			for _, b := range bads {
				insts = append(insts, inst{&cases[i], b, 0})
				nBad++
			}
		} else if usesVariants(&cases[i]) {
			for v := 0; v < 2*nVariants; v++ {
				insts = append(insts, inst{&cases[i], "", v})
				nVar++
			}
		} else {
			insts = append(insts, inst{&cases[i], "", 0})
		}
	}
	for i := range insts {
		cs := insts[i].cs
		variant = insts[i].v
		p, action := rulePatch(cs, insts[i].bad)
		enabled := allPatchActions
		if !cs.P.Enabled {
			enabled = nil
			for _, a := range allPatchActions {
				if a != action {
					enabled = append(enabled, a)
				}
			}
		}
		verr := validateDeltaWith(p, enabled)
		ok := verr == nil
		if cs.Ndev > 0 {
			nt++
		}
		raw, _ := json.Marshal(p)
		switch {
		case verr != nil && strings.HasPrefix(verr.Error(), "PANIC"):
			c.Violation("validator-panics:"+ruleClass(cs), map[string]interface{}{"case": cs.P, "patch": string(raw), "panic": verr.Error()})
		case ok && !cs.Valid:
			c.Violation("accepted-but-violates-rule:"+ruleClass(cs), map[string]interface{}{"case": cs.P, "patch": string(raw)})
		case !ok && cs.Valid && cs.Ndev == 0:
			c.Violation("valid-baseline-rejected:"+ruleClass(cs), map[string]interface{}{"case": cs.P, "patch": string(raw), "error": verr.Error()})
		case !ok && cs.Valid:
			stricter++
			c.Note("validator stricter than the stated rules for %s: %v", ruleClass(cs), verr)
		}
		if ok {
			for _, d := range smallDocs {
				jobID++
				accepted = append(accepted, applyJob{I: jobID, Doc: json.RawMessage(d), Patch: raw})
				acceptedMeta[jobID] = ruleClass(cs)
			}
		}
		if i%100 == 3 {
			c.AddSample(map[string]interface{}{"case": cs.P, "spec_valid": cs.Valid, "validator_accepts": ok})
		}
	}
	// JSON patch operation space
	var msg jsonOpsMsg
	if len(r.Tagged["JSONOPS"]) == 0 || json.Unmarshal(r.Tagged["JSONOPS"][0], &msg) != nil {
		ev.Fatal("no JSON operation space emitted")
	}
	type jp struct {
		ops   []jsonOp
		valid bool
	}
	var jps []jp
	for _, o := range msg.Ops {
		jps = append(jps, jp{[]jsonOp{o.O}, o.Valid})
	}
	firsts := msg.First
	if len(firsts) == 0 {
		// quick tier: at least the aliasing first operation (the library's copy shares the copied value)
		firsts = []jsonOp{{Op: "copy", Path: "/copied", From: "/other", Value: "ABSENT"}}
	}
	for _, f := range firsts {
		for _, o := range msg.Ops {
			jps = append(jps, jp{[]jsonOp{f, o.O}, o.Valid})
		}
	}
	jsonMeta := map[int][]jsonOp{}
	var jsonAccepted, jsonCases int64
	ParallelCases(len(jps), 30*time.Second, func(i int) {
		x := jps[i]
		var arr []interface{}
		for _, o := range x.ops {
			arr = append(arr, opJSON(o))
		}
		p := map[string]interface{}{"action": "ietf-json-patch", "patches": arr}
		verr := validateDeltaWith(p, allPatchActions)
		raw, _ := json.Marshal(p)
		mu.Lock()
		defer mu.Unlock()
		jsonCases++
		if verr != nil && strings.HasPrefix(verr.Error(), "PANIC") {
			c.Violation("validator-panics:json-patch", map[string]interface{}{"patch": string(raw), "panic": verr.Error()})
			return
		}
		if verr == nil {
			jsonAccepted++
			if !x.valid {
				last := x.ops[len(x.ops)-1]
				cls := "path"
				if last.From != "ABSENT" && (strings.HasPrefix(last.From, "/publicKey") || strings.HasPrefix(last.From, "/service") || last.From == "NONSTRING") {
					cls = "from"
				}
				c.Violation("json-patch-accepted-but-addresses-protected-section:"+cls+":"+last.Op, map[string]interface{}{"patch": string(raw)})
			}
			for _, d := range smallDocs {
				jobID++
				accepted = append(accepted, applyJob{I: jobID, Doc: json.RawMessage(d), Patch: raw})
				jsonMeta[jobID] = x.ops
			}
		}
	}, func(int) {})
	// apply every accepted patch to every small document in a crash-isolated child
	results := runApplyJobs(accepted)
	var applied, applyOK int64
	for _, j := range accepted {
		res, ok := results[j.I]
		if !ok {
			ev.Fatal("no result for apply job %d", j.I)
		}
		applied++
		kind := acceptedMeta[j.I]
		if ops, isJSON := jsonMeta[j.I]; isJSON {
			kind = "json-patch:" + ops[len(ops)-1].Op
		}
		switch res.Outcome {
		case "panic", "crash", "hang":
			c.Violation("accepted-delta-crashes-composer:"+res.Outcome+":"+kind, map[string]interface{}{"document": string(j.Doc), "patch": string(j.Patch), "message": res.Msg})
		case "ok":
			applyOK++
			if _, isJSON := jsonMeta[j.I]; isJSON {
				var before, after map[string]interface{}
				_ = json.Unmarshal(j.Doc, &before)
				_ = json.Unmarshal(res.Doc, &after)
				for _, sec := range []string{"publicKey", "service"} {
					if !reflect.DeepEqual(before[sec], after[sec]) {
						c.Violation("accepted-json-patch-changes-protected-section:"+sec+":"+kind, map[string]interface{}{"document": string(j.Doc), "patch": string(j.Patch), "result": string(res.Doc)})
					}
				}
			}
		}
	}
	c.Cov.TracesValidatedAgainstImpl = int64(len(insts)) + jsonCases + applied
	c.Cov.Extra["bad_character_id_instances"] = nBad
	c.Cov.Extra["variant_instances_of_endpoint_and_entry_shape_classes"] = nVar
	c.Cov.Evaluations = c.Cov.TracesValidatedAgainstImpl
	c.Cov.DistinctNontrivial = nt + jsonCases
	c.Cov.Exhaustive = true
	c.Cov.Extra["json_patch_cases"] = jsonCases
	c.Cov.Extra["json_patches_accepted"] = jsonAccepted
	c.Cov.Extra["accepted_patch_applications"] = applied
	c.Cov.Extra["applications_returning_a_document"] = applyOK
	c.Cov.Extra["valid_cases_rejected_by_validator"] = stricter
	c.Cov.Rule = "PatchRules.tla: baseline of each patch kind + every combination of <= MaxDev rule deviations (id class - the class badChar is realised as every ASCII character outside [A-Za-z0-9_-] at the start / middle / end of an id plus non-ASCII letters -, duplicate id, key type x purposes, key material, unknown member, missing type, service type length, endpoint forms (incl. scheme-less references, numbers / booleans, arrays holding them, non-URIs one array deeper; 8 concrete instances per class), entry-list shapes (a non-object entry first / last, entries one array deeper, a section that is no array; in add-* and replace patches), remove-id / URI list classes, replace document contents, action enabled); verdict: the real ValidateDelta must not accept a case Valid() rejects. JSON patches: all single RFC 6902 operations over 7 ops x 31 path classes (incl. RFC 6901 escapes of members named ~1 and a/b) x 13 from classes x 3 value classes (null members included), alone and preceded by the aliasing first operation {copy /other -> /copied} (thorough: by 5 state-setting first operations). Every accepted patch is applied by the real composer to 6 small documents in a crash-isolated child process: no panic / crash / hang, and an accepted JSON patch must leave the public-key and service sections untouched."
	c.Finish("model_checking")
}
