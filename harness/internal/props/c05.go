package props

import (
	"fmt"
	"math"
	"os"
	"os/exec"
	"strings"
	"sync"
	"time"

	"github.com/trustbloc/sidetree-core-go/pkg/api/operation"
	"github.com/trustbloc/sidetree-core-go/pkg/api/protocol"
	"github.com/trustbloc/sidetree-core-go/pkg/processor"
	"github.com/trustbloc/sidetree-core-go/pkg/versions/1_0/operationparser"

	"sidever/internal/concr"
	"sidever/internal/ev"
	"sidever/internal/tlc"
	"sidever/internal/wire"
)

type winCase struct {
	C struct {
		Ty    string `json:"ty"`
		From  int    `json:"from"`
		Until int    `json:"until"`
		T     int    `json:"t"`
		Delta int    `json:"delta"`
		Decoy int    `json:"decoy"`
	} `json:"c"`
	Out struct {
		View          View   `json:"view"`
		Class         string `json:"class"`
		ValidatorArgs []int  `json:"validatorArgs"`
	} `json:"out"`
	Edge bool `json:"edge"`
}

type recValidator struct {
	mu    sync.Mutex
	calls [][2]int64
}

func (r *recValidator) Validate(from, until int64) error {
	r.mu.Lock()
	r.calls = append(r.calls, [2]int64{from, until})
	r.mu.Unlock()
	return nil
}

const winUnit = 100 // one abstract time unit = 100 s

const infDelta = 1000000 // abstract time delta standing for the largest configurable one

// anchorTime concretises an abstract anchoring time; 2000000 stands for a transaction time beyond the signed 64-bit range.
func anchorTime(t int) uint64 {
	if t >= 2000000 {
		return 1 << 63
	}
	return uint64(concr.BaseTime + t*winUnit)
}

func winSecs(x int) int64 {
	if x == 0 {
		return 0
	}
	if x < 0 { // a negative anchorFrom
		return int64(x * winUnit)
	}
	return int64(concr.BaseTime + x*winUnit)
}

// decoyParams varies protocol parameters that must NOT influence the window.
func decoyParams(p protocol.Protocol, decoy int) protocol.Protocol {
	if decoy&1 == 1 {
		p.MaxDeltaSize = 4200
		p.MaxOperationSize = 8600
		p.MaxOperationCount = 7
	}
	if decoy&2 == 2 {
		p.NonceSize = 20
		p.MaxOperationHashLength = 120
		p.MaxCasURILength = 150
		p.MaxMemoryDecompressionFactor = 5
	}
	return p
}

// C05: the real effect of an operation with a declared window, and the arguments intake hands to the time
// validator, equal the specification's for every (type, from, until, anchoring time, delta, decoy setting).
func C05(c *ev.Ctx) {
	r, err := tlc.Run(tlc.Opts{SpecDir: specDir(), Module: "Window", Config: "Window_" + c.Tier + ".cfg", WorkDir: c.Work, Timeout: 20 * time.Minute})
	if err != nil {
		ev.Fatal("TLC Window: %v", err)
	}
	if r.InvariantViolated != "" {
		ev.Fatal("specification invariant violated in Window: %s\n%s", r.InvariantViolated, r.Output)
	}
	c.Cov.States, c.Cov.Transitions, c.Cov.CheckerCmd = r.Distinct, r.Generated, r.Cmd
	cases := make([]winCase, len(r.Cases))
	for i, raw := range r.Cases {
		if err := tlc.Decode(raw, &cases[i]); err != nil {
			ev.Fatal("case: %v", err)
		}
		if cases[i].Out.View.Doc == nil {
			cases[i].Out.View.Doc = []int{}
		}
	}
	kt := KeyTypeForSeed(c.Seed)
	keys, err := concr.NewKeys(9, concr.SHA256, func(int) concr.KeyType { return kt })
	if err != nil {
		ev.Fatal("keys: %v", err)
	}
	createSh := concr.Shape{Ty: "C", Nuc: 4, Nrc: 1, Dl: "ok", Win: "none", P: 10, Sfx: "ok", Sig: "ok"}
	b, err := concr.NewBuilder(keys, createSh)
	if err != nil {
		ev.Fatal("builder: %v", err)
	}
	createReq, _ := b.Request(createSh)
	shapes := map[string]concr.Shape{
		"U": {Ty: "U", Rk: 4, Sig: "ok", Nuc: 5, Dl: "ok", P: 20, Sfx: "ok"},
		"R": {Ty: "R", Rk: 1, Sig: "ok", Nuc: 5, Nrc: 2, Dl: "ok", P: 20, Sfx: "ok"},
		"D": {Ty: "D", Rk: 1, Sig: "ok", Sfx: "ok"},
	}
	// one request per (type, from, until)
	reqs := map[string][]byte{}
	for i := range cases {
		cs := &cases[i]
		k := fmt.Sprintf("%s/%d/%d", cs.C.Ty, cs.C.From, cs.C.Until)
		if _, ok := reqs[k]; ok {
			continue
		}
		b.WinOverride = &[2]int64{winSecs(cs.C.From), winSecs(cs.C.Until)}
		req, err := b.Request(shapes[cs.C.Ty])
		if err != nil {
			ev.Fatal("request: %v", err)
		}
		reqs[k] = req
	}
	type env struct {
		pc  protocol.Client
		par *operationparser.Parser
		rec *recValidator
	}
	envs := map[string]*env{}
	var envMu sync.Mutex
	getEnv := func(delta, decoy int) *env {
		envMu.Lock()
		defer envMu.Unlock()
		k := fmt.Sprintf("%d/%d", delta, decoy)
		if e, ok := envs[k]; ok {
			return e
		}
		p := decoyParams(wire.Params(concr.SHA256), decoy)
		p.MaxOperationTimeDelta = uint64(delta * winUnit)
		if delta == infDelta { // "never expires": the default window end must saturate, not wrap around
			p.MaxOperationTimeDelta = math.MaxUint64
		}
		rec := &recValidator{}
		e := &env{pc: &wire.Client{Versions: []protocol.Version{wire.NewResolutionVersion(p)}},
			par: operationparser.New(p, operationparser.WithAnchorTimeValidator(rec)), rec: rec}
		envs[k] = e
		return e
	}
	var nt int64
	var mu sync.Mutex
	ParallelCases(len(cases), 30*time.Second, func(i int) {
		cs := &cases[i]
		en := getEnv(cs.C.Delta, cs.C.Decoy)
		req := reqs[fmt.Sprintf("%s/%d/%d", cs.C.Ty, cs.C.From, cs.C.Until)]
		store := &wire.SliceStore{Ops: []*operation.AnchoredOperation{
			{Type: operation.TypeCreate, UniqueSuffix: b.Suffix, OperationRequest: createReq, TransactionTime: concr.BaseTime - 5, TransactionNumber: 0, CanonicalReference: "ref-c"},
			{Type: concr.OpType(cs.C.Ty), UniqueSuffix: b.Suffix, OperationRequest: req, TransactionTime: anchorTime(cs.C.T), TransactionNumber: 1, CanonicalReference: "ref-o"},
		}}
		rm, rerr := processor.New("verif", store, en.pc).Resolve(b.Suffix)
		got := View{Doc: []int{}}
		if rerr == nil {
			got = View{Exists: true, Deact: rm.Deactivated, Doc: DocTokens(rm.Doc), Uc: keys.Abs(rm.UpdateCommitment), Rc: keys.Abs(rm.RecoveryCommitment)}
		}
		if !got.Equal(cs.Out.View) {
			c.Violation(fmt.Sprintf("window-effect:%s:expected-%s", cs.C.Ty, cs.Out.Class), map[string]interface{}{"case": cs.C, "expected": cs.Out, "observed": got,
				"anchorFrom": winSecs(cs.C.From), "anchorUntil": winSecs(cs.C.Until), "anchoring_time": anchorTime(cs.C.T),
				"maxOperationTimeDelta": cs.C.Delta * winUnit, "request": string(req)})
		}
		// intake: the time validator must receive (from, effective until)
		local := &recValidator{}
		par := operationparser.New(en.par.Protocol, operationparser.WithAnchorTimeValidator(local))
		if _, perr := par.Parse("did:sidetree", req); perr != nil {
			c.Violation("intake-rejects-valid-windowed-request:"+cs.C.Ty, map[string]interface{}{"case": cs.C, "error": perr.Error(), "request": string(req)})
		} else {
			want := [2]int64{winSecs(cs.Out.ValidatorArgs[0]), winSecs(cs.Out.ValidatorArgs[1])}
			if cs.C.From < 0 && cs.C.Until == 0 { // the default end of a negative anchorFrom, in seconds
				want[1] = winSecs(cs.C.From) + int64(cs.C.Delta*winUnit)
			}
			if cs.C.Delta == infDelta && cs.C.From != 0 && cs.C.Until == 0 {
				want[1] = math.MaxInt64
				if cs.C.From < 0 { // nothing to saturate: the (largest) delta added to a negative bound
					want[1] = math.MaxInt64 + winSecs(cs.C.From)
				}
			}
			if len(local.calls) != 1 || local.calls[0] != want {
				c.Violation("time-validator-arguments:"+cs.C.Ty, map[string]interface{}{"case": cs.C, "expected": want, "observed": local.calls,
					"maxOperationTimeDelta": cs.C.Delta * winUnit, "request": string(req)})
			}
		}
		if cs.Edge {
			mu.Lock()
			nt++
			mu.Unlock()
		}
		if i%700 == 13 {
			c.AddSample(map[string]interface{}{"case": cs.C, "expected": cs.Out, "real": got})
		}
	}, func(int) {})
	if c.Tier == "thorough" {
		c.Cov.Extra["apalache_unbounded_window_arithmetic"] = apalacheWindow(c)
	}
	c.Cov.TracesValidatedAgainstImpl = int64(len(cases))
	c.Cov.Evaluations = int64(len(cases))
	c.Cov.DistinctNontrivial = nt
	c.Cov.Exhaustive = true
	c.Cov.Rule = "full product type x anchorFrom x anchorUntil x anchoring time x maxOperationTimeDelta x decoy parameter settings (MaxDeltaSize, MaxOperationSize, MaxOperationCount, NonceSize, MaxOperationHashLength, ...); TLC checks WindowEffect and OnlyDelta on the specification and emits the expected state and time-validator arguments; each case: real create + windowed operation resolved by the real processor, and the real parser (intake mode) with a recording time validator. Non-trivial: anchoring time within +-1 unit of a window edge."
	c.Finish("model_checking")
}

// apalacheWindow is a NON-GATING extra: Apalache checks, for unbounded integers, that the implementation-shaped window
// test equals the declarative InWindow (spec/WindowArith.tla). Its outcome is recorded in the evidence only.
func apalacheWindow(c *ev.Ctx) string {
	dir, err := os.MkdirTemp(c.Work, "apalache-")
	if err != nil {
		return "skipped: " + err.Error()
	}
	src, err := os.ReadFile(specDir() + "/WindowArith.tla")
	if err != nil {
		return "skipped: " + err.Error()
	}
	_ = os.WriteFile(dir+"/WindowArith.tla", src, 0o644)
	cmd := exec.Command("timeout", "180", "apalache-mc", "check", "--inv=Equiv", "--length=1", "--out-dir="+dir+"/out", "WindowArith.tla")
	cmd.Dir = dir
	out, _ := cmd.CombinedOutput()
	switch {
	case strings.Contains(string(out), "The outcome is: NoError"):
		return "NoError (ImplOk <=> InWindow for all non-negative integers from, until, t, delta)"
	case strings.Contains(string(out), "The outcome is: Error"):
		return "Apalache reports a counterexample for the SPECIFICATION's two window forms (design-level; not a verdict about the code)"
	}
	return "inconclusive (timeout or tool error)"
}
