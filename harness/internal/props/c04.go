package props

import (
	"encoding/json"
	"sort"
	"sync"
	"time"

	"sidever/internal/concr"
	"sidever/internal/ev"
)

type logEntry struct {
	Chain string `json:"chain"`
	C     int    `json:"c"`
	Ty    string `json:"ty"`
	T     int    `json:"t"`
	N     int    `json:"n"`
	Pub   bool   `json:"pub"`
	P     int    `json:"p"`
	Nc    int    `json:"nc"`
}

// sortEarlier orders operations: published first, then (t, n).
func sortEarlier(ops []AnchOp) []AnchOp {
	out := append([]AnchOp{}, ops...)
	sort.Slice(out, func(i, j int) bool {
		a, b := out[i], out[j]
		if a.Pub != b.Pub {
			return a.Pub
		}
		if a.T != b.T {
			return a.T < b.T
		}
		return a.N < b.N
	})
	return out
}

type realRes struct {
	V         View
	VersionID string
}

// C04: deactivation is terminal and a recover supersedes everything before it - evaluated on REAL results:
// (a) for every store S whose latest operation o (anchoring order; unpublished after published) is removed to give
// P: if the real result of P is deactivated by a PUBLISHED deactivate, the real result of S is still deactivated
// with empty document and no commitments; (b) in the real document of S, the first entry is the last applied
// recover's own content and every further entry belongs to an update that is unpublished or anchored strictly
// after that recover; (c) the document handler with its default decorator refuses operations on a deactivated DID.
func C04(c *ev.Ctx) {
	run := runResolutionTLC(c, "MC_C04", tierCfg(c, "MC_C04"), 40*time.Minute)
	e := mustEngine(run.Alpha, KeyTypeForSeed(c.Seed), concr.SHA256)
	cases := run.Cases
	reals := make([]realRes, len(cases))
	index := make(map[string]int, len(cases))
	for i := range cases {
		index[Key(cases[i].Ops)] = i
	}
	ParallelCases(len(cases), 30*time.Second, func(i int) {
		v, rm, _ := e.Resolve(cases[i].Ops)
		reals[i].V = v
		if rm != nil {
			reals[i].VersionID = rm.VersionID
		}
	}, hangReporter(c, func(i int) interface{} { return e.Describe(cases[i].Ops) }))
	var mu sync.Mutex
	var nt, extDeact, recChecked int64
	ParallelCases(len(cases), 30*time.Second, func(i int) {
		cs := &cases[i]
		got := reals[i].V
		if !got.Equal(cs.Res) {
			c.Violation(classify("resolve-differs-from-spec", e, cs.Ops, cs.Res, got), map[string]interface{}{"store": e.Describe(cs.Ops), "expected": cs.Res, "observed": got})
			return
		}
		if len(cs.Ops) == 0 {
			return
		}
		sorted := sortEarlier(cs.Ops)
		last := sorted[len(sorted)-1]
		prev := sorted[:len(sorted)-1]
		pi, ok := index[Key(prev)]
		if !ok {
			ev.Fatal("predecessor store not among the enumerated states")
		}
		pr := reals[pi]
		if pr.V.Exists && pr.V.Deact && pr.VersionID != "" {
			mu.Lock()
			extDeact++
			mu.Unlock()
			if !(got.Exists && got.Deact && len(got.Doc) == 0 && got.Uc == 0 && got.Rc == 0) {
				c.Violation("deactivation-not-terminal:"+e.Alpha[last.S-1].Ty, map[string]interface{}{"deactivated_store": e.Describe(prev), "extension": e.Describe([]AnchOp{last}),
					"before": pr.V, "after": got})
			}
		}
		// (b) recover supersedes
		var log []logEntry
		_ = json.Unmarshal(cs.Log, &log)
		var rec *logEntry
		for k := range log {
			if log[k].Ty == "R" {
				rec = &log[k]
			}
		}
		if rec != nil && got.Exists && !got.Deact {
			mu.Lock()
			recChecked++
			mu.Unlock()
			for k, tok := range got.Doc {
				if k == 0 && tok == rec.P {
					continue
				}
				okTok := false
				for _, a := range cs.Ops {
					sh := e.Alpha[a.S-1]
					if sh.Ty == "U" && sh.P == tok && (!a.Pub || a.T > rec.T || (a.T == rec.T && a.N > rec.N)) {
						okTok = true
					}
				}
				if !okTok {
					c.Violation("content-from-before-recover", map[string]interface{}{"store": e.Describe(cs.Ops), "recover_at": []int{rec.T, rec.N},
						"document_tokens": got.Doc, "offending_token": tok})
				}
			}
		}
		if cs.Na > 0 {
			mu.Lock()
			nt++
			mu.Unlock()
		}
		if i%20000 == 5 {
			c.AddSample(map[string]interface{}{"ops": cs.Ops, "real": got, "predecessor_real": pr.V})
		}
	}, func(int) {})
	// the same stores on a ledger that supplies no canonical references (the field is optional): what the operation store
	// returns is published all the same, so the results are the same
	eN := e.WithoutRefs()
	var noRefs int64
	ParallelCases(len(cases), 30*time.Second, func(i int) {
		cs := &cases[i]
		got, _, _ := eN.Resolve(cs.Ops)
		mu.Lock()
		noRefs++
		mu.Unlock()
		if !got.Equal(cs.Res) {
			c.Violation(classify("without-canonical-references:resolve-differs-from-spec", e, cs.Ops, cs.Res, got), map[string]interface{}{"store": e.Describe(cs.Ops), "expected": cs.Res, "observed": got,
				"note": "no operation carries a canonical reference; published operations come from the operation store, unpublished ones from the unpublished-operation store"})
		}
	}, hangReporter(c, func(i int) interface{} { return e.Describe(cases[i].Ops) }))
	c.Cov.TracesValidatedAgainstImpl = int64(len(cases)) + noRefs
	c.Cov.Evaluations = int64(len(cases)) + noRefs
	c.Cov.DistinctNontrivial = nt
	c.Cov.Extra["stores_resolved_without_canonical_references"] = noRefs
	c.Cov.Extra["extensions_of_published_deactivated_state"] = extDeact
	c.Cov.Extra["stores_with_applied_recover_checked"] = recChecked
	c.Cov.Exhaustive = true
	c.Cov.Rule = "every store of <= MaxOps published/unpublished operations over an alphabet with old-key operations, recovers re-committing to already revealed update keys and two deactivates; every (store, store + one later operation) pair is one extension. Non-trivial: an operation is ordered after the last applied deactivate/recover."
	handlerRefusesDeactivated(c)
	c.Finish("model_checking")
}
