package props

import (
	"encoding/json"
	"fmt"
	"math/rand"
	"os"
	"path/filepath"
	"strings"
	"time"

	"github.com/trustbloc/sidetree-core-go/pkg/api/operation"
	"github.com/trustbloc/sidetree-core-go/pkg/api/txn"
	"github.com/trustbloc/sidetree-core-go/pkg/versions/1_0/txnprocessor"

	"sidever/internal/ev"
	"sidever/internal/pipe"
	"sidever/internal/tlc"
	"sidever/internal/wire"
)

type pipeCase struct {
	Hist []pipe.Step `json:"hist"`
}

// pipelineBehaviours asks TLC (simulation of Pipeline.tla with the history variable on) for behaviours.
func pipelineBehaviours(c *ev.Ctx, cfg string, num int, seed int64) [][]pipe.Step {
	r, err := tlc.Run(tlc.Opts{SpecDir: specDir(), Module: "MC_Pipeline", Config: cfg, WorkDir: c.Work, Workers: 1, Timeout: 20 * time.Minute,
		Simulate: "num=" + itoa(num), Depth: 40, Seed: seed})
	if err != nil {
		ev.Fatal("TLC %s: %v", cfg, err)
	}
	if r.InvariantViolated != "" {
		ev.Fatal("Pipeline.tla invariant violated during simulation: %s\n%s", r.InvariantViolated, r.Output)
	}
	var out [][]pipe.Step
	seen := map[string]bool{}
	for _, raw := range r.Cases {
		if seen[string(raw)] {
			continue
		}
		seen[string(raw)] = true
		var pc pipeCase
		if err := json.Unmarshal(raw, &pc); err != nil {
			ev.Fatal("behaviour: %v", err)
		}
		out = append(out, pc.Hist)
	}
	return out
}

// pipelineDesign model-checks the pipeline design exhaustively (bounded).
func pipelineDesign(c *ev.Ctx) *tlc.Result {
	r, err := tlc.Run(tlc.Opts{SpecDir: specDir(), Module: "MC_Pipeline", Config: "MC_Pipeline_mc.cfg", WorkDir: c.Work, Timeout: 20 * time.Minute})
	if err != nil {
		ev.Fatal("TLC MC_Pipeline_mc: %v", err)
	}
	if r.InvariantViolated != "" {
		ev.Fatal("Pipeline.tla violates %s (design-level)\n%s", r.InvariantViolated, r.Output)
	}
	c.Cov.States += r.Distinct
	c.Cov.Transitions += r.Generated
	c.Cov.CheckerCmd = r.Cmd
	return r
}

// runPipelineBehaviours executes behaviours on the real pipeline and has TLC validate the recorded traces.
// filter selects which behaviours count as non-trivial for the property at hand.
func runPipelineBehaviours(c *ev.Ctx, unpubOn bool, behaviours [][]pipe.Step, nontrivial func([]pipe.Step) bool, violationClass string) {
	cfg := "PipelineTrace.cfg"
	if !unpubOn {
		cfg = "PipelineTraceNoUnpub.cfg"
	}
	runPipelineBehavioursCfg(c, unpubOn, behaviours, nontrivial, violationClass, []string{cfg}, nil)
}

// runPipelineBehavioursCfg executes the behaviours on the real pipeline once and validates the recorded traces against
// each of the given trace configurations in turn.  fixedClass[i] != "" gives the exact violation class of a rejection
// under cfgs[i] (instead of violationClass + ":" + the rejected event).
func runPipelineBehavioursCfg(c *ev.Ctx, unpubOn bool, behaviours [][]pipe.Step, nontrivial func([]pipe.Step) bool, violationClass string, cfgs []string, fixedClass []string) {
	var all strings.Builder
	var ends []int
	total := 0
	nt := 0
	var inflated, inflatedResolved int64
	defer func() {
		prevR, _ := c.Cov.Extra["of_which_resolved_after_being_stored"].(int64)
		c.Cov.Extra["of_which_resolved_after_being_stored"] = prevR + inflatedResolved
		prev, _ := c.Cov.Extra["updates_exceeding_the_size_limit_once_reserialised"].(int64)
		c.Cov.Extra["updates_exceeding_the_size_limit_once_reserialised"] = prev + inflated
	}()
	for bi, h := range behaviours {
		p, err := pipe.New(unpubOn, KeyTypeForSeed(c.Seed))
		if err != nil {
			ev.Fatal("pipeline wiring: %v", err)
		}
		p.ViaREST = bi%2 == 1                             // every other behaviour goes through the real REST handlers
		p.ForeignNS = foreignNamespaceEntries && bi%4 < 2 // half of the behaviours, REST and direct alike
		for i := 0; i < len(h); i++ {
			if h[i].A == "Observe" {
				j := i
				var fs []string
				for j < len(h) && h[j].A == "Observe" {
					fs = append(fs, h[j].F)
					j++
				}
				p.ObserveMany(fs)
				i = j - 1
				continue
			}
			if err := p.Exec(h[i], []int{1, 2}); err != nil {
				ev.Fatal("behaviour execution: %v", err)
			}
		}
		p.Close()
		inflated += int64(p.Inflated)
		// how many of them were stored by the observer and then resolved
		for _, id := range p.InflatedIDs {
			stored := false
			for _, e := range p.Events {
				if e["ev"] == "Observe" {
					if st, ok := e["store"].([]map[string]interface{}); ok {
						for _, o := range st {
							if o["id"] == id {
								stored = true
							}
						}
					}
				}
				if stored && e["ev"] == "ResolveAll" {
					inflatedResolved++
					break
				}
			}
		}
		all.WriteString(p.NDJSON())
		all.WriteString(`{"ev":"Reset"}` + "\n")
		total += len(p.Events) + 1
		ends = append(ends, total)
		if nontrivial(h) {
			nt++
		}
		if bi < 2 {
			c.AddSample(map[string]interface{}{"kind": "Pipeline.tla behaviour executed on the real pipeline", "unpublished_store": unpubOn, "behaviour": h, "events": p.Events})
		}
	}
	for ci, cfg := range cfgs {
		validate := func(nd string) (*tlc.Result, bool) {
			r, err := tlc.Run(tlc.Opts{SpecDir: specDir(), Module: "PipelineTrace", Config: cfg, WorkDir: c.Work, Workers: 1, Timeout: 30 * time.Minute,
				ExtraFiles: map[string]string{"pipeline_trace.ndjson": nd}})
			if err != nil {
				if r != nil && (strings.Contains(r.Output, "TraceAccepted") || strings.Contains(r.Output, "ostcondition")) {
					return r, false
				}
				_ = os.WriteFile(filepath.Join(ev.Root, ".work", "failed_pipeline_trace.ndjson"), []byte(nd), 0o644)
				ev.Fatal("TLC pipeline trace validation (trace kept in .work/failed_pipeline_trace.ndjson): %v", err)
			}
			return r, r.InvariantViolated == ""
		}
		res, ok := validate(all.String())
		c.Cov.States += res.Distinct
		c.Cov.Transitions += res.Generated
		c.Cov.TracesValidatedAgainstImpl += int64(len(behaviours))
		c.Cov.Evaluations += int64(total)
		c.Cov.DistinctNontrivial += int64(nt)
		if !ok {
			lines := strings.SplitAfter(all.String(), "\n")
			lo, hi := 0, len(ends)-1
			for lo < hi {
				mid := (lo + hi) / 2
				if _, ok := validate(strings.Join(lines[:ends[mid]], "")); ok {
					lo = mid + 1
				} else {
					hi = mid
				}
			}
			start := 0
			if lo > 0 {
				start = ends[lo-1]
			}
			// find the first rejected event of that behaviour: longest accepted prefix
			tr := lines[start:ends[lo]]
			bad := len(tr) - 1
			for k := 1; k <= len(tr); k++ {
				if _, ok := validate(strings.Join(tr[:k], "")); !ok {
					bad = k - 1
					break
				}
			}
			evName := "end"
			var e map[string]interface{}
			if bad < len(tr) && json.Unmarshal([]byte(tr[bad]), &e) == nil {
				evName, _ = e["ev"].(string)
			}
			class := violationClass + ":" + evName
			if ci < len(fixedClass) && fixedClass[ci] != "" {
				class = fixedClass[ci]
			}
			c.Violation(class, map[string]interface{}{"behaviour": behaviours[lo], "trace": tr, "first_rejected_event_index": bad, "first_rejected_event": e, "trace_configuration": cfg,
				"tlc": lastN(res.Output, 15), "note": "the real pipeline's reply / projected state after this event is not what Pipeline.tla allows"})
		}
	}
}

func hasFaultOrTwoTxns(h []pipe.Step) bool {
	fl := 0
	for _, s := range h {
		switch s.A {
		case "SubmitAddFails", "FlushFails", "Garbage", "Dup":
			return true
		case "Observe":
			if s.F != "none" {
				return true
			}
		case "Flush":
			fl++
		}
	}
	return fl >= 2
}

// C15: transactions store one stamped operation per DID, all-or-nothing; refused intake leaves no trace.
// foreignNamespaceEntries: in half of the behaviours realise the Garbage ledger entries as transactions of a foreign namespace (C15 only: the
// other checks keep the unreadable-anchor realisation their seeded changes were evaluated with).
var foreignNamespaceEntries bool

func C15(c *ev.Ctx) {
	foreignNamespaceEntries = true
	design := pipelineDesign(c)
	stampInIsolation(c, design.Tagged["STAMP"])
	n := 120
	if c.Tier == "thorough" {
		n = 3000
	}
	rng := rand.New(rand.NewSource(c.Seed + 101))
	for _, unpub := range []bool{true, false} {
		cfg := "MC_Pipeline_gen_unpub.cfg"
		if !unpub {
			cfg = "MC_Pipeline_gen_nounpub.cfg"
		}
		bs := pipelineBehaviours(c, cfg, n, rng.Int63n(1<<30))
		runPipelineBehaviours(c, unpub, bs, hasFaultOrTwoTxns, "pipeline-trace-rejected")
	}
	c.Cov.Rule = "TLC simulates Pipeline.tla (2 DIDs, <= 6 client submissions of create/update/recover/deactivate, queue-add failures, batch-write failures, garbage (unreadable anchor / foreign namespace) and duplicate-carrying ledger entries, unreadable / unstorable transactions, protocol upgrade, with and without unpublished store); each behaviour is executed on the fully wired real pipeline, every other one through the real REST handlers (consecutive Observe steps are delivered to the real Observer as one notification) and the recorded trace - replies, queue, unpublished store, every stored operation with time/number/version/canonical+equivalent reference stamps, Put calls per transaction, resolution views - is validated by TLC against the specification. Non-trivial: >= 1 fault or >= 2 transactions."
	c.Finish("model_checking")
}

type fixedProvider struct {
	ops []*operation.AnchoredOperation
}

func (f fixedProvider) GetTxnOperations(*txn.SidetreeTxn) ([]*operation.AnchoredOperation, error) {
	return f.ops, nil
}

// stampInIsolation: the real TxnProcessor, fed by a provider stub (an environment interface), must stamp every
// stored operation with exactly the transaction's time, number, protocol version and canonical / equivalent
// references - for every combination of present / absent reference fields and stale values on the operation.
func stampInIsolation(c *ev.Ctx, tagged []json.RawMessage) {
	if len(tagged) == 0 {
		ev.Fatal("no STAMP cases emitted")
	}
	var cases []struct {
		C struct {
			Canon bool   `json:"canon"`
			Neq   int    `json:"neq"`
			Stale bool   `json:"stale"`
			T     uint64 `json:"t"`
			N     uint64 `json:"n"`
			Ver   uint64 `json:"ver"`
		} `json:"c"`
		Out struct {
			Ref string `json:"ref"`
			Neq int    `json:"neq"`
			T   uint64 `json:"t"`
			N   uint64 `json:"n"`
			Ver uint64 `json:"ver"`
		} `json:"out"`
	}
	if err := json.Unmarshal(tagged[0], &cases); err != nil {
		ev.Fatal("STAMP cases: %v", err)
	}
	for _, cs := range cases {
		op := &operation.AnchoredOperation{Type: operation.TypeUpdate, UniqueSuffix: "suffix-1", OperationRequest: []byte(`{}`)}
		if cs.C.Stale {
			op.CanonicalReference, op.EquivalentReferences = "stale", []string{"stale-eq"}
			op.TransactionTime, op.TransactionNumber, op.ProtocolVersion = 99, 99, 99
		}
		t := txn.SidetreeTxn{TransactionTime: cs.C.T, TransactionNumber: cs.C.N, ProtocolVersion: cs.C.Ver, AnchorString: "1.x", Namespace: "did:sidetree"}
		if cs.C.Canon {
			t.CanonicalReference = "txn-canonical"
		}
		for i := 0; i < cs.C.Neq; i++ {
			t.EquivalentReferences = append(t.EquivalentReferences, fmt.Sprintf("txn-eq-%d", i))
		}
		store := wire.NewOpStore()
		tp := txnprocessor.New(&txnprocessor.Providers{OpStore: store, OperationProtocolProvider: fixedProvider{[]*operation.AnchoredOperation{op}}})
		_, err := tp.Process(t)
		c.Cov.Evaluations++
		stored := store.All()
		ok := err == nil && len(stored) == 1 && stored[0].CanonicalReference == cs.Out.Ref && len(stored[0].EquivalentReferences) == cs.Out.Neq &&
			stored[0].TransactionTime == cs.Out.T && stored[0].TransactionNumber == cs.Out.N && stored[0].ProtocolVersion == cs.Out.Ver
		if ok {
			for i, e := range stored[0].EquivalentReferences {
				if e != fmt.Sprintf("txn-eq-%d", i) {
					ok = false
				}
			}
		}
		if !ok {
			var got interface{}
			if len(stored) > 0 {
				got = stored[0]
			}
			c.Violation(fmt.Sprintf("stamp-differs-from-transaction:canon=%v:neq=%d:stale=%v", cs.C.Canon, cs.C.Neq, cs.C.Stale), map[string]interface{}{"transaction": t, "stored": got, "expected": cs.Out, "error": fmt.Sprint(err)})
		}
	}
}
