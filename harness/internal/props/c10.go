package props

import (
	"encoding/json"
	"fmt"
	"github.com/trustbloc/sidetree-core-go/pkg/hashing"
	"math/rand"
	"sync"
	"time"

	"github.com/trustbloc/sidetree-core-go/pkg/versions/1_0/operationparser"

	"sidever/internal/concr"
	"sidever/internal/ev"
	"sidever/internal/tlc"
	"sidever/internal/wire"
)

type intakeCase struct {
	Req    concr.IntakeReq `json:"req"`
	Accept bool            `json:"accept"`
	Ndev   int             `json:"ndev"`
}

func runIntakeTLC(c *ev.Ctx) []intakeCase {
	r, err := tlc.Run(tlc.Opts{SpecDir: specDir(), Module: "Intake", Config: "Intake_" + c.Tier + ".cfg", WorkDir: c.Work, Timeout: 20 * time.Minute})
	if err != nil {
		ev.Fatal("TLC Intake: %v", err)
	}
	if r.InvariantViolated != "" {
		ev.Fatal("Intake.tla invariant violated: %s\n%s", r.InvariantViolated, r.Output)
	}
	c.Cov.States += r.Distinct
	c.Cov.Transitions += r.Generated
	c.Cov.CheckerCmd = r.Cmd
	cases := make([]intakeCase, len(r.Cases))
	for i, raw := range r.Cases {
		if err := json.Unmarshal(raw, &cases[i]); err != nil {
			ev.Fatal("intake case: %v", err)
		}
	}
	return cases
}

func intakeClass(r concr.IntakeReq) string {
	s := r.Ty
	add := func(name, v, ok string) {
		if v != ok {
			s += ":" + name + "=" + v
		}
	}
	add("opSize", r.OpSize, "small")
	add("deltaSize", r.DeltaSize, "small")
	add("hashLen", r.HashLen, "small")
	if r.HashAlg.Class != "allowed" {
		s += ":hash-" + r.HashAlg.Class + "-" + r.HashAlg.Field
	}
	add("alg", r.Alg, "allowed")
	if r.HdrExtra {
		s += ":hdrExtra"
	}
	add("crv", r.Crv, "allowed")
	add("nonce", r.Nonce, "absent")
	add("patch", r.Patch, "enabled")
	add("reveal", r.Reveal, "match")
	add("next", r.Next, "fresh")
	add("missing", r.Missing, "none")
	add("dsfx", r.Dsfx, "match")
	add("cdh", r.Cdh, "match")
	return s
}

// evalIntake replays intake cases on the real Parser.Parse; sel filters the cases.
func evalIntake(c *ev.Ctx, cases []intakeCase, kts []concr.KeyType, sel func(*intakeCase) bool, prefix string) {
	var mu sync.Mutex
	var n, nt int64
	for _, kt := range kts {
		kt := kt
		ParallelCases(len(cases), 30*time.Second, func(i int) {
			cs := &cases[i]
			if !sel(cs) {
				return
			}
			req, params, err := concr.BuildIntake(cs.Req, kt, wire.Params(concr.SHA256), int(c.Seed)+i)
			if err != nil {
				ev.Fatal("concretise %+v: %v", cs.Req, err)
			}
			var perr error
			func() {
				defer func() {
					if r := recover(); r != nil {
						perr = fmt.Errorf("PANIC: %v", r)
						c.Violation(prefix+"-parser-panic:"+intakeClass(cs.Req), map[string]interface{}{"case": cs.Req, "request": string(req), "panic": fmt.Sprint(r)})
					}
				}()
				_, perr = operationparser.New(params).Parse("did:sidetree", req)
			}()
			got := perr == nil
			mu.Lock()
			n++
			if cs.Ndev > 0 {
				nt++
			}
			mu.Unlock()
			if got != cs.Accept {
				verdict := "accepted-but-must-reject"
				if !got {
					verdict = "rejected-but-must-accept"
				}
				e := ""
				if perr != nil {
					e = perr.Error()
				}
				c.Violation(prefix+"-"+verdict+":"+intakeClass(cs.Req), map[string]interface{}{"case": cs.Req, "key_type": kt.String(), "request": string(req), "protocol": params,
					"spec_accepts": cs.Accept, "parser_error": e})
			}
			if i%300 == 5 {
				c.AddSample(map[string]interface{}{"case": cs.Req, "spec_accepts": cs.Accept, "parser_accepts": got, "request_bytes": len(req)})
			}
		}, func(int) {})
	}
	c.Cov.TracesValidatedAgainstImpl += n
	c.Cov.Evaluations += n
	c.Cov.DistinctNontrivial += nt
}

// C10: the real intake verdict equals Intake!Accept on the baseline of each operation type and every combination of
// up to MaxDev rule deviations, each limit realised through its own protocol parameter; plus the postcondition
// channel: no parser entry point panics on mutated / arbitrary bytes.
func C10(c *ev.Ctx) {
	cases := runIntakeTLC(c)
	kts := []concr.KeyType{KeyTypeForSeed(c.Seed)}
	if c.Tier == "thorough" {
		kts = concr.KeyTypes
	}
	evalIntake(c, cases, kts, func(*intakeCase) bool { return true }, "intake")
	parserRobustness(c, cases)
	c.Cov.Exhaustive = true
	c.Cov.Rule = "TLC enumerates the valid baseline of each operation type and every combination of <= MaxDev single-rule deviations of Intake.tla (size classes small/max/over for operation size, canonical delta size, hash length - realised by setting each protocol parameter to exactly the request's size or one less; hash algorithm / malformation per hash field; signature algorithm, extra header, curve, nonce size, patch action, reveal value, re-commitment, missing members, signed suffix, create delta hash); each case is built as real bytes + real protocol configuration and given to the real Parser.Parse; verdict must equal Accept. Postcondition channel: structural mutations, truncations and random bytes through Parse, ParseOperation(batch), GetRevealValue, GetCommitment, ParseDID must return (error or value), never panic. Non-trivial: >= 1 deviation."
	c.Finish("model_checking")
}

// parserRobustness: arbitrary bytes never panic any parser entry point.
func parserRobustness(c *ev.Ctx, cases []intakeCase) {
	rng := rand.New(rand.NewSource(c.Seed + 77))
	params := wire.Params(concr.SHA256)
	parser := operationparser.New(params)
	var inputs [][]byte
	kt := KeyTypeForSeed(c.Seed)
	for _, ty := range []string{"C", "U", "R", "D"} {
		var base concr.IntakeReq
		for _, cs := range cases {
			if cs.Req.Ty == ty && cs.Ndev == 0 {
				base = cs.Req
			}
		}
		req, _, err := concr.BuildIntake(base, kt, params, 0)
		if err != nil {
			ev.Fatal("baseline: %v", err)
		}
		inputs = append(inputs, structuralMutations(req)...)
		step := 1
		if c.Tier != "thorough" {
			step = 7
		}
		for cut := 0; cut < len(req); cut += step {
			inputs = append(inputs, append([]byte{}, req[:cut]...))
		}
		for k := 0; k < 200; k++ {
			m := append([]byte{}, req...)
			for j := 0; j < 1+rng.Intn(3); j++ {
				m[rng.Intn(len(m))] = byte(rng.Intn(256))
			}
			inputs = append(inputs, m)
		}
	}
	inputs = append(inputs, deepDeltaMutations(concr.SHA256)...)
	for k := 0; k < 300; k++ {
		b := make([]byte, rng.Intn(200))
		rng.Read(b)
		inputs = append(inputs, b)
	}
	inputs = append(inputs, []byte(`null`), []byte(`{}`), []byte(`[]`), []byte(`{"type":"update"}`), []byte(`{"type":"recover","didSuffix":"x","signedData":"a.b.c","revealValue":"EiA"}`),
		[]byte(`{"type":"create","suffixData":null,"delta":null}`), []byte(`{"type":"deactivate","didSuffix":1}`))
	var panics int64
	entry := []struct {
		name string
		f    func(b []byte)
	}{
		{"Parse", func(b []byte) { _, _ = parser.Parse("did:sidetree", b) }},
		{"ParseOperation-batch", func(b []byte) { _, _ = parser.ParseOperation("did:sidetree", b, true) }},
		{"GetRevealValue", func(b []byte) { _, _ = parser.GetRevealValue(b) }},
		{"GetCommitment", func(b []byte) { _, _ = parser.GetCommitment(b) }},
		{"ParseDID", func(b []byte) { _, _, _ = parser.ParseDID("did:sidetree", "did:sidetree:"+string(b)) }},
	}
	for _, in := range inputs {
		for _, e := range entry {
			func() {
				defer func() {
					if r := recover(); r != nil {
						panics++
						var probe map[string]interface{}
						shape := "non-json"
						if json.Unmarshal(in, &probe) == nil {
							shape = fmt.Sprintf("type=%v,keys=%d", probe["type"], len(probe))
							if _, ok := probe["delta"]; !ok {
								shape += ",no-delta"
							}
						}
						c.Violation("parser-entry-point-panics:"+e.name+":"+shape, map[string]interface{}{"entry_point": e.name, "input": string(in), "panic": fmt.Sprint(r)})
					}
				}()
				e.f(in)
			}()
		}
	}
	c.Cov.Evaluations += int64(len(inputs) * len(entry))
	c.Cov.Extra["robustness_inputs"] = len(inputs)
	c.Cov.Extra["robustness_calls"] = len(inputs) * len(entry)
}

// deepDeltaMutations: create requests whose delta carries one patch of every kind; every node of the delta (at any
// depth) is dropped / replaced by null, a number, a string, an empty array, an empty object, a boolean; the suffix data's
// delta hash is recomputed so that the mutated delta reaches validation.
func deepDeltaMutations(hash uint) [][]byte {
	delta := map[string]interface{}{
		"updateCommitment": "EiDKIkwqO69IPG3pOlHkdb86nYt0aNxSHZu2r-bhEznjdA",
		"patches": []interface{}{
			map[string]interface{}{"action": "ietf-json-patch", "patches": []interface{}{map[string]interface{}{"op": "add", "path": "/x", "value": map[string]interface{}{"a": 1}}, map[string]interface{}{"op": "copy", "from": "/x", "path": "/y"}}},
			map[string]interface{}{"action": "add-public-keys", "publicKeys": []interface{}{map[string]interface{}{"id": "k1", "type": "JsonWebKey2020", "purposes": []interface{}{"authentication"},
				"publicKeyJwk": map[string]interface{}{"kty": "EC", "crv": "P-256", "x": "PUymIqdtF_qxaAqPABSw-C-owT1KYYQbsMKFM-L9fJA", "y": "nM84jDHCMOTGTh_ZdHq4dBBdo4Z5PkEOW9jA8z8IsGc"}}}},
			map[string]interface{}{"action": "add-services", "services": []interface{}{map[string]interface{}{"id": "s1", "type": "T", "serviceEndpoint": []interface{}{"https://e.example.com", map[string]interface{}{"o": 1}}}}},
			map[string]interface{}{"action": "remove-public-keys", "ids": []interface{}{"k9"}},
			map[string]interface{}{"action": "remove-services", "ids": []interface{}{"s9"}},
			map[string]interface{}{"action": "add-also-known-as", "uris": []interface{}{"https://a.example.com"}},
			map[string]interface{}{"action": "remove-also-known-as", "uris": []interface{}{"https://b.example.com"}},
			map[string]interface{}{"action": "replace", "document": map[string]interface{}{"publicKeys": []interface{}{}, "services": []interface{}{}}},
		},
	}
	raw, _ := json.Marshal(delta)
	var out [][]byte
	emit := func(d interface{}) {
		dh, err := hashing.CalculateModelMultihash(d, hash)
		if err != nil {
			dh = "EiA"
		}
		req := map[string]interface{}{"type": "create", "delta": d,
			"suffixData": map[string]interface{}{"deltaHash": dh, "recoveryCommitment": "EiBfOZdMtU6OBw8Pk879QtZ-2J-9FbbjSZyoaA_bqD4zhA"}}
		b, _ := json.Marshal(req)
		out = append(out, b)
	}
	repl := []interface{}{nil, 7, "x", []interface{}{}, map[string]interface{}{}, true}
	// enumerate node positions by a path of keys / indices
	var paths [][]interface{}
	var walk func(v interface{}, at []interface{})
	walk = func(v interface{}, at []interface{}) {
		if len(at) > 0 {
			paths = append(paths, append([]interface{}{}, at...))
		}
		switch t := v.(type) {
		case map[string]interface{}:
			for k, x := range t {
				walk(x, append(at, k))
			}
		case []interface{}:
			for i, x := range t {
				walk(x, append(at, i))
			}
		}
	}
	var root interface{}
	_ = json.Unmarshal(raw, &root)
	walk(root, nil)
	set := func(v interface{}, at []interface{}, r interface{}, drop bool) {
		for _, k := range at[:len(at)-1] {
			switch t := v.(type) {
			case map[string]interface{}:
				v = t[k.(string)]
			case []interface{}:
				v = t[k.(int)]
			}
		}
		last := at[len(at)-1]
		switch t := v.(type) {
		case map[string]interface{}:
			if drop {
				delete(t, last.(string))
			} else {
				t[last.(string)] = r
			}
		case []interface{}:
			t[last.(int)] = r
		}
	}
	for _, at := range paths {
		for _, r := range repl {
			var d interface{}
			_ = json.Unmarshal(raw, &d)
			set(d, at, r, false)
			emit(d)
		}
		if _, isKey := at[len(at)-1].(string); isKey {
			var d interface{}
			_ = json.Unmarshal(raw, &d)
			set(d, at, nil, true)
			emit(d)
		}
	}
	return out
}

// structuralMutations: every member dropped / nulled / retyped / duplicated at the top level and one level down.
func structuralMutations(req []byte) [][]byte {
	var m map[string]interface{}
	if json.Unmarshal(req, &m) != nil {
		return nil
	}
	var out [][]byte
	emit := func(x map[string]interface{}) {
		b, _ := json.Marshal(x)
		out = append(out, b)
	}
	clone := func() map[string]interface{} {
		var c map[string]interface{}
		_ = json.Unmarshal(req, &c)
		return c
	}
	repl := []interface{}{nil, 7, "x", []interface{}{}, map[string]interface{}{}, true, ""}
	for k := range m {
		c := clone()
		delete(c, k)
		emit(c)
		for _, r := range repl {
			c := clone()
			c[k] = r
			emit(c)
		}
		if sub, ok := m[k].(map[string]interface{}); ok {
			for k2 := range sub {
				c := clone()
				delete(c[k].(map[string]interface{}), k2)
				emit(c)
				for _, r := range repl {
					c := clone()
					c[k].(map[string]interface{})[k2] = r
					emit(c)
				}
			}
		}
	}
	return out
}
