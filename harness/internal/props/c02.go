package props

import (
	"errors"
	"sort"
	"sync/atomic"
	"time"

	"github.com/trustbloc/sidetree-core-go/pkg/api/operation"
	"github.com/trustbloc/sidetree-core-go/pkg/document"
	"github.com/trustbloc/sidetree-core-go/pkg/processor"

	"sidever/internal/concr"
	"sidever/internal/ev"
)

// C02: for every enumerated store and EVERY order in which the operation store (and the unpublished store) may
// return its operations, the real result is the same and equals the specification's (earliest valid wins,
// published before unpublished, earliest create defines the DID).
func C02(c *ev.Ctx) {
	var replayed, orders, nt int64
	// second configuration: competitors of which the EARLIER one commits back to a commitment its chain has already
	// consumed (it is no valid candidate; the later, valid one wins) - published operations only, up to four of them
	for _, cfg := range []string{tierCfg(c, "MC_C02"), "MC_C02_reuse_" + c.Tier + ".cfg"} {
		c02Config(c, cfg, &replayed, &orders, &nt)
	}
	c.Cov.TracesValidatedAgainstImpl = orders
	c.Cov.Evaluations = orders
	c.Cov.DistinctNontrivial = nt
	c.Cov.Exhaustive = true
	c.Cov.Extra["stores"] = replayed
	c.Cov.Rule = "every store of <= MaxOps operations (published or unpublished) over competing valid updates/recovers per commitment, duplicate creates and a deactivate, at coordinates with non-monotone transaction numbers (second configuration: <= 4 published operations over chains in which the earlier of two competitors commits back to an already consumed commitment); for each store every permutation of the store's return order is replayed through the real processor; verdict: all orders give the same view and operation lists, equal to the specification's earliest-wins result; in addition every split of the set into operations served by the stores and operations supplied through the AdditionalOperations resolution option (published ones optionally left in the store as well) must give the same result; and three consecutive resolutions over a store that hands out its internal slice (the second one with an additional operation) must leave the store as it was; and an unparsable create request anchored before every operation of the store must change nothing. Non-trivial: >= 2 candidates for one commitment, >= 2 creates, or published+unpublished mixed."
	c.Assume = append(c.Assume, "the store order is modelled by the order of the slices handed to the processor by the published and unpublished stores")
	c.Finish("model_checking")
}

func c02Config(c *ev.Ctx, cfg string, replayedP, ordersP, ntP *int64) {
	run := runResolutionTLC(c, "MC_C02", cfg, 40*time.Minute)
	kt := KeyTypeForSeed(c.Seed)
	e := mustEngine(run.Alpha, kt, concr.SHA256)
	cases := run.Cases
	var replayed, orders, nt int64
	ParallelCases(len(cases), 60*time.Second, func(i int) {
		cs := &cases[i]
		atomic.AddInt64(&replayed, 1)
		if cs.Na > 0 {
			atomic.AddInt64(&nt, 1)
		}
		var first View
		var firstPub, firstUnpub string
		k := 0
		bad := false
		permute(append([]AnchOp{}, cs.Ops...), func(p []AnchOp) {
			if bad {
				return
			}
			got, rm, _ := e.Resolve(p)
			atomic.AddInt64(&orders, 1)
			pubs, unpubs := "", ""
			if rm != nil {
				pubs, unpubs = refList(rm.PublishedOperations), refList(rm.UnpublishedOperations)
			}
			if k == 0 {
				first, firstPub, firstUnpub = got, pubs, unpubs
			}
			k++
			switch {
			case !got.Equal(first):
				bad = true
				c.Violation("result-depends-on-store-order", map[string]interface{}{"store": e.Describe(cs.Ops), "order": append([]AnchOp{}, p...),
					"result_this_order": got, "result_first_order": first, "spec": cs.Res})
			case !got.Equal(cs.Res):
				bad = true
				c.Violation(classify("winner-differs-from-spec", e, cs.Ops, cs.Res, got), map[string]interface{}{"store": e.Describe(cs.Ops),
					"order": append([]AnchOp{}, p...), "observed": got, "expected": cs.Res})
			case pubs != firstPub || unpubs != firstUnpub:
				bad = true
				c.Violation("operation-lists-depend-on-store-order", map[string]interface{}{"store": e.Describe(cs.Ops),
					"order": append([]AnchOp{}, p...), "published": pubs, "published_first_order": firstPub, "unpublished": unpubs, "unpublished_first_order": firstUnpub})
			}
		})
		// the same set of operations, partly supplied through the AdditionalOperations resolution option: every split
		if !bad && len(cs.Ops) > 0 {
			for mask := 1; mask < 1<<uint(len(cs.Ops)); mask++ {
				extra := make([]bool, len(cs.Ops))
				for b := range cs.Ops {
					extra[b] = mask&(1<<uint(b)) != 0
				}
				for _, dup := range []bool{false, true} {
					got, _, _ := e.ResolveSplit(cs.Ops, extra, dup)
					atomic.AddInt64(&orders, 1)
					if !got.Equal(cs.Res) {
						c.Violation(classify("additional-operations-change-result", e, cs.Ops, cs.Res, got), map[string]interface{}{"store": e.Describe(cs.Ops),
							"supplied_as_additional": extra, "also_left_in_store": dup, "observed": got, "expected": cs.Res})
						bad = true
						break
					}
				}
				if bad {
					break
				}
			}
		}
		// "the earliest anchored create of a DID is the one that defines it" - the earliest VALID one: a create request that
		// cannot even be parsed (anchored before everything else, stored under the DID's suffix) is no operation of the
		// alphabet and contributes nothing; the scan has to go on to the next create
		if !bad && i%3 == 0 && len(cs.Ops) > 0 {
			for _, junk := range []string{`{"type":"create","suffixData":"garbage"}`, `not json`, `{"type":"create"}`} {
				badCreate := &operation.AnchoredOperation{Type: operation.TypeCreate, UniqueSuffix: e.Suffix, OperationRequest: []byte(junk),
					TransactionTime: uint64(concr.BaseTime), TransactionNumber: 0, CanonicalReference: "ref-unparsable-create"}
				got, _, _ := e.ResolveWithExtra(cs.Ops, []*operation.AnchoredOperation{badCreate})
				atomic.AddInt64(&orders, 1)
				if !got.Equal(cs.Res) {
					c.Violation(classify("unparsable-earlier-create-changes-result", e, cs.Ops, cs.Res, got), map[string]interface{}{"store": e.Describe(cs.Ops),
						"additional_create_request": junk, "anchored_at": "before every operation of the store", "observed": got, "expected": cs.Res})
					bad = true
					break
				}
			}
		}
		// a store that hands out its INTERNAL slice (as the library's own mock store does): a resolution - in particular
		// one with additional operations - must not change what the next resolution sees
		if !bad && i%5 == 0 {
			var pubs []AnchOp
			for _, a := range cs.Ops {
				if a.Pub {
					pubs = append(pubs, a)
				}
			}
			if len(pubs) >= 2 && len(pubs) == len(cs.Ops) {
				// the operation handed over as additional one is anchored BEFORE some operation of the store
				sort.Slice(pubs, func(a, b int) bool { return pubs[a].T < pubs[b].T || (pubs[a].T == pubs[b].T && pubs[a].N < pubs[b].N) })
				pick := (len(pubs) - 1) / 2
				last := pubs[pick]
				rest := append(append([]AnchOp{}, pubs[:pick]...), pubs[pick+1:]...)
				want1, _, _ := e.Resolve(rest)
				shared := &sharedStore{ops: make([]*operation.AnchoredOperation, 0, len(pubs)+2)}
				for _, a := range rest {
					shared.ops = append(shared.ops, e.Anchored(a))
				}
				proc := processor.New("verif", shared, e.PC)
				r1 := e.Alpha_(proc.Resolve(e.Suffix))
				r2 := e.Alpha_(proc.Resolve(e.Suffix, document.WithAdditionalOperations([]*operation.AnchoredOperation{e.Anchored(last)})))
				r3 := e.Alpha_(proc.Resolve(e.Suffix))
				atomic.AddInt64(&orders, 3)
				switch {
				case !r1.Equal(want1) || !r2.Equal(cs.Res):
					c.Violation("shared-store-resolution-differs", map[string]interface{}{"store": e.Describe(rest), "additional": e.Describe([]AnchOp{last}), "first": r1, "with_additional": r2, "expected_first": want1, "expected_with_additional": cs.Res})
				case !r3.Equal(want1):
					c.Violation("resolution-changes-the-operation-store", map[string]interface{}{"store": e.Describe(rest), "additional_operation_of_the_second_call": e.Describe([]AnchOp{last}),
						"first_call": r1, "third_call_same_store_no_options": r3, "note": "the store returns its internal slice; the second call appended to it and sorted it in place"})
				}
			}
		}
		if i%5000 == 3 {
			c.AddSample(map[string]interface{}{"ops": cs.Ops, "orders_tried": k, "real": first, "spec": cs.Res})
		}
	}, hangReporter(c, func(i int) interface{} { return e.Describe(cases[i].Ops) }))
	*replayedP += replayed
	*ordersP += orders
	*ntP += nt
}

// sharedStore hands out its internal slice (spare capacity included), like the library's mock operation store.
type sharedStore struct {
	ops []*operation.AnchoredOperation
}

func (s *sharedStore) Get(string) ([]*operation.AnchoredOperation, error) {
	if len(s.ops) == 0 {
		return nil, errors.New("not found")
	}
	return s.ops, nil
}

func refList(ops []*operation.AnchoredOperation) string {
	s := ""
	for _, o := range ops {
		s += o.CanonicalReference + "@" + itoa(int(o.TransactionTime)) + "." + itoa(int(o.TransactionNumber)) + ";"
	}
	return s
}
