package props

import (
	"encoding/json"
	"fmt"
	"reflect"
	"strings"
	"sync"
	"time"
	"unicode/utf16"

	"github.com/trustbloc/sidetree-core-go/pkg/canonicalizer"

	"sidever/internal/ev"
	"sidever/internal/tlc"
)

type jcsCase struct {
	C struct {
		Kind  string `json:"kind"`
		Set   []int  `json:"set"`
		Lit   string `json:"lit"`
		Ds    []int  `json:"ds"`
		N     int    `json:"n"`
		Neg   bool   `json:"neg"`
		Class string `json:"class"`
	} `json:"c"`
	Out struct {
		Order []int  `json:"order"`
		Text  string `json:"text"`
	} `json:"out"`
}

// the same alphabet as Jcs.tla!Units
var jcsUnits = [][]uint16{{}, {97}, {97, 97}, {98}, {34}, {92}, {47}, {0}, {31}, {127}, {128}, {246}, {8364}, {64307}, {55357, 56832}, {65}, {49}, {10}, {97, 0}, {65533}, {65535}, {55295}, {57344}}

func unitsString(u []uint16) string { return string(utf16.Decode(u)) }

// canonSpelling is the RFC 8785 serialisation of a string (written from the RFC, not from the code under test).
func canonSpelling(s string) string {
	var b strings.Builder
	b.WriteByte('"')
	for _, r := range s {
		switch r {
		case '"':
			b.WriteString(`\"`)
		case '\\':
			b.WriteString(`\\`)
		case '\b':
			b.WriteString(`\b`)
		case '\t':
			b.WriteString(`\t`)
		case '\n':
			b.WriteString(`\n`)
		case '\f':
			b.WriteString(`\f`)
		case '\r':
			b.WriteString(`\r`)
		default:
			if r < 0x20 {
				fmt.Fprintf(&b, `\u%04x`, r)
			} else {
				b.WriteRune(r)
			}
		}
	}
	b.WriteByte('"')
	return b.String()
}

// spellings of a string as JSON string literals (all denote the same value).
func stringSpellings(u []uint16) []string {
	s := unitsString(u)
	out := []string{canonSpelling(s)}
	var up, lo strings.Builder
	up.WriteByte('"')
	lo.WriteByte('"')
	for _, x := range u {
		fmt.Fprintf(&up, `\u%04X`, x)
		fmt.Fprintf(&lo, `\u%04x`, x)
	}
	up.WriteByte('"')
	lo.WriteByte('"')
	out = append(out, up.String(), lo.String())
	if s == "/" {
		out = append(out, `"\/"`)
	}
	return out
}

func jcs(input string) (string, error) {
	var out []byte
	var err error
	func() {
		defer func() {
			if r := recover(); r != nil {
				err = fmt.Errorf("PANIC: %v", r)
			}
		}()
		out, err = canonicalizer.MarshalCanonical([]byte(input))
	}()
	return string(out), err
}

func permutationsInt(a []int) [][]int {
	if len(a) <= 1 {
		return [][]int{append([]int{}, a...)}
	}
	var out [][]int
	for i := range a {
		rest := append(append([]int{}, a[:i]...), a[i+1:]...)
		for _, p := range permutationsInt(rest) {
			out = append(out, append([]int{a[i]}, p...))
		}
	}
	return out
}

var appendixB = [][2]string{ // RFC 8785 Appendix B (value spelled as a decimal literal -> expected serialisation) and re-spellings
	{"0", "0"}, {"-0", "0"}, {"-0.0", "0"}, {"0.0", "0"}, {"0e0", "0"}, {"-0e5", "0"},
	{"5e-324", "5e-324"}, {"-5e-324", "-5e-324"}, {"4.9406564584124654e-324", "5e-324"},
	{"1.7976931348623157e+308", "1.7976931348623157e+308"}, {"-1.7976931348623157e308", "-1.7976931348623157e+308"},
	{"9007199254740992", "9007199254740992"}, {"-9007199254740992", "-9007199254740992"}, {"9.007199254740992E15", "9007199254740992"},
	{"295147905179352830000", "295147905179352830000"},
	{"9.999999999999997e22", "9.999999999999997e+22"}, {"1e23", "1e+23"}, {"1.0000000000000001e23", "1.0000000000000001e+23"},
	{"999999999999999700000", "999999999999999700000"}, {"999999999999999900000", "999999999999999900000"},
	{"1e21", "1e+21"}, {"1000000000000000000000", "1e+21"}, {"10e20", "1e+21"},
	{"9.999999999999997e-7", "9.999999999999997e-7"}, {"0.000001", "0.000001"}, {"1e-6", "0.000001"}, {"0.1e-5", "0.000001"}, {"0.0000001", "1e-7"},
	{"333333333.3333332", "333333333.3333332"}, {"333333333.33333325", "333333333.33333325"}, {"333333333.3333333", "333333333.3333333"},
	{"333333333.3333334", "333333333.3333334"}, {"333333333.33333343", "333333333.33333343"},
	{"-0.0000033333333333333333", "-0.0000033333333333333333"}, {"1424953923781206.2", "1424953923781206.2"},
	{"4.50", "4.5"}, {"2e-3", "0.002"}, {"1E30", "1e+30"}, {"1e+30", "1e+30"}, {"100", "100"}, {"1.5e2", "150"}, {"123456789012345680000", "123456789012345680000"},
}

func malformedJSON(class string) []string {
	switch class {
	case "duplicateMember":
		return []string{`{"a":1,"a":2}`, `{"a":1,"b":2,"a":1}`, `[{"x":{"k":1,"k":1}}]`}
	case "duplicateMemberViaEscape":
		return []string{`{"a":1,"a":2}`, `{"\/":1,"/":2}`}
	case "unterminatedString":
		return []string{`{"a":"b}`, `["abc]`, `{"a`}
	case "unterminatedObject":
		return []string{`{"a":1`, `{"a":{"b":1}`, `{`}
	case "unterminatedArray":
		return []string{`[1,2`, `[[1]`, `[`}
	case "invalidEscape":
		return []string{`["\x41"]`, `["\a"]`, `{"\q":1}`}
	case "shortUnicodeEscape":
		return []string{`["\u12"]`, `["\u123g"]`, `["\u"]`}
	case "loneHighSurrogate":
		return []string{`["\uD83D"]`, `["\uD83Dx"]`, `{"\uD800":1}`}
	case "loneLowSurrogate":
		return []string{`["\uDE00"]`, `["x\uDC00"]`}
	case "reversedSurrogates":
		return []string{`["\uDE00\uD83D"]`, `{"\uDC00\uD800":1}`}
	case "highHighSurrogates":
		return []string{`["\uD83D\uD83D"]`, `["\uD800\uD800"]`}
	case "highThenNonSurrogateEscape":
		return []string{`["\uD83DA"]`, `["\uD83D\n"]`}
	case "rawControlCharacter":
		return []string{"[\"a\x01b\"]", "{\"a\x1f\":1}", "[\"\x00\"]"}
	case "controlCharacterBetweenTokens":
		// every control character that is not JSON whitespace (and DEL), at every token boundary
		var out []string
		for ch := 0; ch <= 0x7f; ch++ {
			if ch == 0x09 || ch == 0x0a || ch == 0x0d || (ch >= 0x20 && ch != 0x7f) {
				continue
			}
			x := string(rune(ch))
			out = append(out, x+`[1]`, `[`+x+`1]`, `[1`+x+`]`, `[1]`+x, `[1`+x+`,2]`, `[1,`+x+`2]`, `{`+x+`"a":1}`, `{"a"`+x+`:1}`, `{"a":`+x+`1}`, `{"a":1`+x+`}`, `[`+x+`]`, `{`+x+`}`)
		}
		return out
	case "rawNewline":
		return []string{"[\"a\nb\"]", "[\"a\tb\"]"}
	case "trailingContent":
		return []string{`{} x`, `{}{}`, `[] ,`, `[1] 2`, `{"a":1}]`}
	case "trailingComma":
		return []string{`[1,]`, `{"a":1,}`}
	case "leadingComma":
		return []string{`[,1]`, `{,"a":1}`}
	case "missingColon":
		return []string{`{"a" 1}`, `{"a"}`}
	case "bareWord":
		return []string{`[tru]`, `[nul]`, `[NaN]`, `{a:1}`, `[Infinity]`}
	case "emptyInput":
		return []string{``, `   `}
	case "malformedNumber":
		var out []string
		for _, n := range []string{"0x1p4", "0X1.8P1", "0x10", "1_0", "1e1_0", "0x_1p0", "+1", "01", "-00", "-01", "00", ".5", "5.", "1.e5", "-.5", "1e", "1e+", "-", "--1", "1.2.3", "1e5.5", "0b11", "0o7", "1E+-2", "Inf", "-Infinity", "1f"} {
			out = append(out, `{"a":`+n+`}`, `[`+n+`]`, `[1,`+n+`,2]`)
		}
		return out
	}
	return nil
}

func numbersEqual(a, b string) bool {
	var x, y interface{}
	if json.Unmarshal([]byte(a), &x) != nil || json.Unmarshal([]byte(b), &y) != nil {
		return false
	}
	return reflect.DeepEqual(x, y)
}

// C07: canonical JSON is the RFC 8785 form.
func C07(c *ev.Ctx) {
	r, err := tlc.Run(tlc.Opts{SpecDir: specDir(), Module: "Jcs", Config: "Jcs_" + c.Tier + ".cfg", WorkDir: c.Work, Timeout: 20 * time.Minute})
	if err != nil {
		ev.Fatal("TLC Jcs: %v", err)
	}
	if r.InvariantViolated != "" {
		ev.Fatal("Jcs.tla invariant violated: %s", r.InvariantViolated)
	}
	c.Cov.States, c.Cov.Transitions, c.Cov.CheckerCmd = r.Distinct, r.Generated, r.Cmd
	cases := make([]jcsCase, len(r.Cases))
	for i, raw := range r.Cases {
		if err := json.Unmarshal(raw, &cases[i]); err != nil {
			ev.Fatal("case: %v", err)
		}
	}
	var mu sync.Mutex
	var evals, nt int64
	check := func(class, input, want string) {
		got, err := jcs(input)
		mu.Lock()
		evals++
		mu.Unlock()
		switch {
		case err != nil && strings.HasPrefix(err.Error(), "PANIC"):
			c.Violation("jcs:panic:"+class, map[string]string{"input": input, "panic": err.Error()})
		case want == "error":
			if err == nil {
				c.Violation("jcs:malformed-input-accepted:"+class, map[string]string{"input": input, "output": got})
			}
		case err != nil:
			c.Violation("jcs:well-formed-input-rejected:"+class, map[string]string{"input": input, "error": err.Error()})
		case got != want:
			c.Violation("jcs:not-canonical:"+class, map[string]string{"input": input, "expected": want, "observed": got})
		default:
			if again, err2 := jcs(got); err2 != nil || again != got {
				c.Violation("jcs:not-a-fixed-point:"+class, map[string]string{"input": input, "canonical": got, "canonical_of_canonical": again})
			}
			if !numbersEqual(input, got) {
				c.Violation("jcs:output-parses-to-another-value:"+class, map[string]string{"input": input, "output": got})
			}
		}
	}
	ParallelCases(len(cases), 120*time.Second, func(i int) {
		cs := &cases[i]
		switch cs.C.Kind {
		case "keys":
			// expected canonical object: names in out.order, value = name id
			var parts []string
			for _, id := range cs.Out.Order {
				parts = append(parts, canonSpelling(unitsString(jcsUnits[id-1]))+":"+fmt.Sprint(id))
			}
			want := "{" + strings.Join(parts, ",") + "}"
			perms := permutationsInt(cs.C.Set)
			if len(perms) > 6 {
				perms = append(perms[:3], perms[len(perms)-3:]...)
			}
			for pi, perm := range perms {
				for sp := 0; sp < 3; sp++ {
					var members []string
					for _, id := range perm {
						spl := stringSpellings(jcsUnits[id-1])
						members = append(members, spl[(sp+pi)%len(spl)]+[]string{":", " : ", ":\n\t"}[sp]+fmt.Sprint(id))
					}
					obj := "{" + strings.Join(members, []string{",", " , ", ",\r\n"}[sp]) + "}"
					check("member-order", obj, want)
					if sp == 0 && pi == 0 {
						check("member-order-nested", "[ "+obj+" , { \"k\" : "+obj+" } ]", "["+want+",{\"k\":"+want+"}]")
					}
				}
			}
			mu.Lock()
			nt++
			mu.Unlock()
		case "number":
			want := "[" + cs.Out.Text + "]"
			check("number-layout", "["+cs.C.Lit+"]", want)
			// re-spellings of the same value
			sign := ""
			if cs.C.Neg {
				sign = "-"
			}
			ds := ""
			for _, d := range cs.C.Ds {
				ds += fmt.Sprint(d)
			}
			e := cs.C.N - len(cs.C.Ds)
			check("number-layout-respelled", "[ "+sign+ds+".0E"+fmt.Sprintf("%+d", e)+" ]", want)
			check("number-layout-respelled", "["+sign+ds+"0e"+fmt.Sprint(e-1)+"]", want)
			if e >= 0 && e <= 25 {
				check("number-layout-respelled", "["+sign+ds+strings.Repeat("0", e)+"]", want)
			}
			if e < 0 && e >= -30 {
				pad := strings.Repeat("0", 31) + ds
				k := len(pad) + e
				check("number-layout-respelled", "["+sign+strings.TrimLeft(pad[:k], "0")+"0."[boolInt(strings.TrimLeft(pad[:k], "0") != ""):]+pad[k:]+"]", want)
			}
			mu.Lock()
			nt++
			mu.Unlock()
		case "malformed":
			for _, in := range malformedJSON(cs.C.Class) {
				check(cs.C.Class, in, "error")
			}
			mu.Lock()
			nt++
			mu.Unlock()
		}
		if i%1500 == 77 {
			c.AddSample(map[string]interface{}{"case": cs.C, "expected": cs.Out})
		}
	}, func(int) {})
	// string values and Appendix B vectors
	for id, u := range jcsUnits {
		want := canonSpelling(unitsString(u))
		for _, sp := range stringSpellings(u) {
			check(fmt.Sprintf("string-spelling:name%d", id+1), "["+sp+"]", "["+want+"]")
			check(fmt.Sprintf("string-spelling:name%d", id+1), `{"k":`+sp+`}`, `{"k":`+want+`}`)
		}
	}
	// every BMP code unit on its own: escaped (upper / lower case hex) and raw spelling give the same minimal form;
	// a lone surrogate is rejected; plus every code unit paired with a low surrogate behind a high one
	for cu := 0; cu <= 0xFFFF; cu++ {
		u := []uint16{uint16(cu)}
		if cu >= 0xD800 && cu <= 0xDFFF {
			check("bmp-sweep:lone-surrogate", fmt.Sprintf(`["\u%04x"]`, cu), "error")
			continue
		}
		want := "[" + canonSpelling(unitsString(u)) + "]"
		check("bmp-sweep:escaped", fmt.Sprintf(`["\u%04x"]`, cu), want)
		if cu%16 == 13 || cu >= 0xFF00 || cu < 0x100 {
			check("bmp-sweep:escaped-upper", fmt.Sprintf(`["\u%04X"]`, cu), want)
			name := canonSpelling(unitsString(u))
			switch {
			case cu == 'a':
				check("bmp-sweep:member-name", fmt.Sprintf(`{"\u%04x":1,"a":2}`, cu), "error")
			case cu < 'a':
				check("bmp-sweep:member-name", fmt.Sprintf(`{"a":2,"\u%04x":1}`, cu), `{`+name+`:1,"a":2}`)
			default:
				check("bmp-sweep:member-name", fmt.Sprintf(`{"\u%04x":1,"a":2}`, cu), `{"a":2,`+name+`:1}`)
			}
		}
		if cu >= 0x20 && cu != '"' && cu != '\\' {
			check("bmp-sweep:raw", `["`+unitsString(u)+`"]`, want)
		}
	}
	for _, v := range appendixB {
		check("appendix-b:"+v[0], "["+v[0]+"]", "["+v[1]+"]")
		check("appendix-b:"+v[0], `{"n": `+v[0]+` }`, `{"n":`+v[1]+`}`)
	}
	// struct path: MarshalCanonical(value) = MarshalCanonical(json.Marshal(value))
	type inner struct {
		B string  `json:"b"`
		A float64 `json:"a"`
	}
	val := map[string]interface{}{"z": []interface{}{1.5, "x/y", nil, true}, "a": inner{B: "€\u0001", A: 1e21}, "€": 1}
	viaValue, err1 := canonicalizer.MarshalCanonical(val)
	rawVal, _ := json.Marshal(val)
	viaBytes, err2 := canonicalizer.MarshalCanonical(rawVal)
	evals++
	if err1 != nil || err2 != nil || string(viaValue) != string(viaBytes) || string(viaValue) != `{"a":{"a":1e+21,"b":"€\u0001"},"z":[1.5,"x/y",null,true],"€":1}` {
		c.Violation("jcs:value-path-differs-from-bytes-path", map[string]string{"via_value": string(viaValue), "via_bytes": string(viaBytes)})
	}
	c.Cov.TracesValidatedAgainstImpl = evals
	c.Cov.Evaluations = evals
	c.Cov.DistinctNontrivial = nt
	c.Cov.Exhaustive = true
	c.Cov.Rule = "Jcs.tla: (keys) every set of 2..MaxKeys member names over a 23-name alphabet (empty, prefixes, quote, backslash, slash, U+0000, U+001F, U+007F, U+0080, BMP, U+FB33 vs U+1F600, U+FFFD, U+FFFF, U+D7FF, U+E000) sorted by UTF-16 code units; each realised in several input orders x name spellings (literal, \\uXXXX upper/lower, short escapes) x whitespace, also nested; (number) ECMAScript layout for every digit string of <= MaxDigits digits x 37 decimal exponents x sign, each with re-spellings (E+, trailing .0, shifted exponent, plain decimal expansion); (malformed) 21 rejection classes (one of them: each of the 30 non-whitespace control characters at each of 12 token boundaries). Plus every alphabet string as a value in every spelling, the RFC 8785 Appendix B vectors with re-spellings, fixed-point and parse-equality on every accepted input, value path vs bytes path. NOT covered: digit generation for arbitrary doubles (see DESIGN 9)."
	c.Assume = append(c.Assume, "shortest round-trip digit generation of IEEE-754 doubles is arithmetic and outside the specification; it is exercised only through the Appendix B vectors and <= 3-digit values")
	c.Finish("model_checking")
}

func boolInt(b bool) int {
	if b {
		return 1
	}
	return 0
}
