package props

import (
	"time"

	"sidever/internal/concr"
	"sidever/internal/ev"
)

// C12: commitment chains cannot loop (resolution half) and intake rejects re-commitment to the revealed key (intake half).
func C12(c *ev.Ctx) {
	run := runResolutionTLC(c, "MC_C12", tierCfg(c, "MC_C12"), 40*time.Minute)
	e := mustEngine(run.Alpha, KeyTypeForSeed(c.Seed), concr.SHA256)
	compareWithSpec(c, e, run.Cases, "cyclic-chain-differs-from-spec", func(cs *ResCase) bool { return cs.Na > 0 })
	c.Cov.Exhaustive = true
	c.Cov.Rule = "every store of <= MaxOps operations over an alphabet of self-loops, 2-cycles and 3-cycles in the update and the recovery chain (TLC invariants ConsumeOnce, NoRevisit, LogBounded on the specification); each replayed on the real processor under a non-termination watchdog and compared with the specification's chain prefix. Non-trivial: the store contains an operation whose next commitment is its own or one consumed earlier."
	intakeRecommit(c)
	c.Finish("model_checking")
}
