package props

import (
	"time"

	"sidever/internal/concr"
	"sidever/internal/ev"
)

// C03: the real resolution result equals the specification's Resolve on every enumerated history.
func C03(c *ev.Ctx) {
	run := runResolutionTLC(c, "MC_C03", tierCfg(c, "MC_C03"), 40*time.Minute)
	kts := []concr.KeyType{KeyTypeForSeed(c.Seed)}
	hashes := []uint{concr.SHA256}
	if c.Tier == "thorough" {
		kts = []concr.KeyType{concr.P256, concr.Ed25519}
		hashes = []uint{concr.SHA256, concr.SHA512}
	}
	for i, kt := range kts {
		e := mustEngine(run.Alpha, kt, hashes[i%len(hashes)])
		compareWithSpec(c, e, run.Cases, "resolve-differs-from-spec", func(cs *ResCase) bool { return cs.Na >= 2 })
	}
	c.Cov.Exhaustive = true
	c.Cov.Rule = "TLC enumerates every store of <= MaxOps anchored operations over the C03 alphabet (valid, forked, failing/invalid/mismatched delta, out-of-window, replayed, cyclic commitments; all four types) at every assignment of distinct coordinates; each distinct state is one case, replayed through the real OperationProcessor with real keys/JWS and compared field by field with the specification's Resolve. Non-trivial: the specification applies >= 2 operations."
	c.Assume = append(c.Assume, "concretiser self-checks passed (every well-formed shape parses in batch mode and reveals the intended key)",
		"alpha: commitment strings map back to abstract key ids by table lookup; unknown strings map to -1 and never equal an expected value",
		"TLC explored the configuration completely (exhaustive within the stated bounds)")
	c.Finish("model_checking")
}
