package props

import (
	"encoding/json"
	"math/rand"
	"strings"
	"time"

	"sidever/internal/concr"
	"sidever/internal/ev"
	"sidever/internal/tlc"
)

// C03: the real resolution result equals the specification's Resolve on every enumerated history.
func C03(c *ev.Ctx) {
	run := runResolutionTLC(c, "MC_C03", tierCfg(c, "MC_C03"), 40*time.Minute)
	kts := []concr.KeyType{KeyTypeForSeed(c.Seed)}
	hashes := []uint{concr.SHA256}
	if c.Tier == "thorough" {
		kts = []concr.KeyType{concr.P256, concr.Ed25519}
		hashes = []uint{concr.SHA256, concr.SHA512}
	}
	for i, kt := range kts {
		e := mustEngine(run.Alpha, kt, hashes[i%len(hashes)])
		compareWithSpec(c, e, run.Cases, "resolve-differs-from-spec", func(cs *ResCase) bool { return cs.Na >= 2 })
	}
	// DIDs whose create takes effect through a partial-failure branch
	for _, variant := range []string{"MC_C03_failcreate", "MC_C03_invalidcreate"} {
		r2 := runResolutionTLC(c, "MC_C03", tierCfg(c, variant), 40*time.Minute)
		e := mustEngine(r2.Alpha, kts[0], hashes[0])
		compareWithSpec(c, e, r2.Cases, "resolve-differs-from-spec", func(cs *ResCase) bool { return cs.Na >= 2 })
	}
	longRandomHistories(c, run.Alpha, mustEngine(run.Alpha, KeyTypeForSeed(c.Seed+1), concr.SHA256))
	c.Cov.Exhaustive = true
	c.Cov.Rule = "TLC enumerates every store of <= MaxOps anchored operations over the C03 alphabet (valid, forked, failing/invalid/mismatched delta, out-of-window, replayed, cyclic commitments; all four types) at every assignment of distinct coordinates; each distinct state is one case, replayed through the real OperationProcessor with real keys/JWS and compared field by field with the specification's Resolve; two further configurations do the same for a DID whose create has non-applicable patches / an invalid delta (published and unpublished operations). Non-trivial: the specification applies >= 2 operations. In addition (direction B) seeded random histories of 5-14 operations (published and unpublished, up to 30 coordinates) are resolved by the real processor and the recorded (store, view) pairs are validated by TLC against ResolveRef (MC_C03Trace)."
	c.Assume = append(c.Assume, "concretiser self-checks passed (every well-formed shape parses in batch mode and reveals the intended key)",
		"alpha: commitment strings map back to abstract key ids by table lookup; unknown strings map to -1 and never equal an expected value",
		"TLC explored the configuration completely (exhaustive within the stated bounds)")
	c.Finish("model_checking")
}

// longRandomHistories: direction B - histories longer than the exhaustive bound.
func longRandomHistories(c *ev.Ctx, alpha []concr.Shape, e *Engine) {
	n := 400
	if c.Tier == "thorough" {
		n = 20000
	}
	rng := rand.New(rand.NewSource(c.Seed*31 + 5))
	var b strings.Builder
	type rec struct {
		Ops  []AnchOp `json:"ops"`
		View View     `json:"view"`
	}
	var recs []rec
	for i := 0; i < n; i++ {
		k := 5 + rng.Intn(10)
		used := map[[2]int]bool{}
		var ops []AnchOp
		// bias towards histories that go somewhere: start with the base create most of the time
		if rng.Intn(10) > 0 {
			ops = append(ops, AnchOp{S: 1, T: 1, N: 0, Pub: true})
			used[[2]int{1, 0}] = true
		}
		for len(ops) < k {
			t, nn := 1+rng.Intn(10), rng.Intn(3)
			if used[[2]int{t, nn}] {
				continue
			}
			used[[2]int{t, nn}] = true
			ops = append(ops, AnchOp{S: 1 + rng.Intn(len(alpha)), T: t, N: nn, Pub: rng.Intn(6) > 0})
		}
		got, _, _ := e.Resolve(ops)
		recs = append(recs, rec{ops, got})
		j, _ := json.Marshal(rec{ops, got})
		b.Write(j)
		b.WriteByte('\n')
	}
	validate := func(nd string) (*tlc.Result, bool) {
		r, err := tlc.Run(tlc.Opts{SpecDir: specDir(), Module: "MC_C03Trace", Config: "MC_C03Trace_" + c.Tier + ".cfg", WorkDir: c.Work, Workers: 1, Timeout: 30 * time.Minute,
			ExtraFiles: map[string]string{"resolution_trace.ndjson": nd}})
		if err != nil {
			if r != nil && (strings.Contains(r.Output, "TraceAccepted") || strings.Contains(r.Output, "ostcondition")) {
				return r, false
			}
			ev.Fatal("TLC resolution trace validation: %v", err)
		}
		return r, r.InvariantViolated == ""
	}
	res, ok := validate(b.String())
	c.Cov.States += res.Distinct
	c.Cov.Transitions += res.Generated
	c.Cov.TracesValidatedAgainstImpl += int64(n)
	c.Cov.Evaluations += int64(n)
	c.Cov.Extra["long_random_histories"] = n
	if !ok {
		lines := strings.SplitAfter(b.String(), "\n")
		lo, hi := 0, len(recs)-1
		for lo < hi {
			mid := (lo + hi) / 2
			if _, ok := validate(strings.Join(lines[:mid+1], "")); ok {
				lo = mid + 1
			} else {
				hi = mid
			}
		}
		c.Violation("long-history-differs-from-spec", map[string]interface{}{"store": e.Describe(recs[lo].Ops), "observed": recs[lo].View,
			"note": "the real resolution result of this history is not View(ResolveRef(store)); TLC rejected the trace at this event"})
	}
	if len(recs) > 0 {
		c.AddSample(map[string]interface{}{"kind": "long random history", "ops": recs[0].Ops, "real": recs[0].View})
	}
}
