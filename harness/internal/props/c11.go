package props

import (
	"crypto/rand"
	"encoding/base64"
	"encoding/json"
	"fmt"
	"reflect"
	"sync"
	"time"

	"github.com/trustbloc/sidetree-core-go/pkg/api/operation"
	"github.com/trustbloc/sidetree-core-go/pkg/api/protocol"
	"github.com/trustbloc/sidetree-core-go/pkg/canonicalizer"
	"github.com/trustbloc/sidetree-core-go/pkg/commitment"
	"github.com/trustbloc/sidetree-core-go/pkg/document"
	"github.com/trustbloc/sidetree-core-go/pkg/hashing"
	"github.com/trustbloc/sidetree-core-go/pkg/jws"
	"github.com/trustbloc/sidetree-core-go/pkg/patch"
	"github.com/trustbloc/sidetree-core-go/pkg/processor"
	"github.com/trustbloc/sidetree-core-go/pkg/versions/1_0/client"
	"github.com/trustbloc/sidetree-core-go/pkg/versions/1_0/model"
	"github.com/trustbloc/sidetree-core-go/pkg/versions/1_0/operationparser"

	"sidever/internal/concr"
	"sidever/internal/ev"
	"sidever/internal/tlc"
	"sidever/internal/wire"
)

type clientCase struct {
	C struct {
		Ty      string `json:"ty"`
		Kt      int    `json:"kt"`
		Hash    uint   `json:"hash"`
		Win     string `json:"win"`
		Patches string `json:"patches"`
		Origin  string `json:"origin"`
		Nonce   string `json:"nonce"`
	} `json:"c"`
	Out struct {
		Accept bool `json:"accept"`
		View   View `json:"view"`
	} `json:"out"`
}

// KeyTokens abstracts a document by its public-key ids only.
func KeyTokens(doc document.Document) []int {
	out := []int{}
	for _, t := range DocTokens(doc) {
		if t != -7 {
			out = append(out, t)
		}
	}
	return out
}

// recordingClock is a server-time validator: it records the window it is handed and judges it against its clock.
type recordingClock struct {
	now  int64
	seen [][2]int64
}

func (r *recordingClock) Validate(from, until int64) error {
	r.seen = append(r.seen, [2]int64{from, until})
	if from > r.now {
		return operationparser.ErrOperationEarly
	}
	if r.now > until && (from != 0 || until != 0) {
		return operationparser.ErrOperationExpired
	}
	return nil
}

func jsonEqual(a, b interface{}) bool {
	x, err1 := canonicalizer.MarshalCanonical(a)
	y, err2 := canonicalizer.MarshalCanonical(b)
	return err1 == nil && err2 == nil && string(x) == string(y)
}

// C11: every request built by the client library from valid inputs is accepted by a parser enabling its algorithm,
// parses back to the inputs, and - anchored inside its window on a DID whose commitment matches - has the effect the
// SidetreeCore state machine predicts.
func C11(c *ev.Ctx) {
	r, err := tlc.Run(tlc.Opts{SpecDir: specDir(), Module: "ClientReq", Config: "ClientReq_" + c.Tier + ".cfg", WorkDir: c.Work, Timeout: 10 * time.Minute})
	if err != nil {
		ev.Fatal("TLC ClientReq: %v", err)
	}
	if r.InvariantViolated != "" {
		ev.Fatal("ClientReq.tla invariant violated: %s", r.InvariantViolated)
	}
	c.Cov.States, c.Cov.Transitions, c.Cov.CheckerCmd = r.Distinct, r.Generated, r.Cmd
	cases := make([]clientCase, len(r.Cases))
	for i, raw := range r.Cases {
		if err := json.Unmarshal(raw, &cases[i]); err != nil {
			ev.Fatal("case: %v", err)
		}
		if cases[i].Out.View.Doc == nil {
			cases[i].Out.View.Doc = []int{}
		}
	}
	combos := map[string]bool{}
	var mu sync.Mutex
	ParallelCases(len(cases), 60*time.Second, func(i int) {
		cs := &cases[i]
		cls, detail := runClientCase(cs)
		mu.Lock()
		combos[fmt.Sprintf("%s/%d/%d", cs.C.Ty, cs.C.Kt, cs.C.Hash)] = true
		mu.Unlock()
		if cls != "" {
			c.Violation("client-request:"+cls+":"+cs.C.Ty+":"+concr.KeyTypes[cs.C.Kt].String(), map[string]interface{}{"case": cs.C, "detail": detail, "expected_view": cs.Out.View})
		}
		if i%150 == 3 {
			c.AddSample(map[string]interface{}{"case": cs.C, "expected_view": cs.Out.View, "result": "ok"})
		}
	}, func(int) {})
	c.Cov.TracesValidatedAgainstImpl = int64(len(cases))
	c.Cov.Evaluations = int64(len(cases))
	c.Cov.DistinctNontrivial = int64(len(combos))
	c.Cov.Exhaustive = true
	c.Cov.Rule = "full product of builder inputs: operation type x 5 key types / signature algorithms x SHA-256/SHA-512 x window (none, anchorFrom only, from+until, anchored exactly at the first / last second of the declared or default window) x patch list class (one patch, two patches, opaque document / JSON patch, opaque document with null / empty service and alias sections / removals of absent ids) x anchor origin (none, string, object) x signing-key nonce; each request is built by the real client library, parsed by a real parser whose protocol enables exactly that algorithm, compared field by field with the inputs, then anchored inside its window and resolved by the real processor; the result must equal the SidetreeCore state change computed by TLC and carry the anchor origin the create / recover supplied (the DID's previous one after an update). Non-trivial count: distinct (type, key type, hash) combinations."
	c.Finish("model_checking")
}

func runClientCase(cs *clientCase) (string, interface{}) {
	kt := concr.KeyTypes[cs.C.Kt]
	hash := cs.C.Hash
	keys, err := concr.NewKeys(9, hash, func(int) concr.KeyType { return kt })
	if err != nil {
		return "harness", err.Error()
	}
	jwkOf := func(id int) (*jws.JWK, string, string) {
		k := keys.ByID[id]
		if cs.C.Nonce != "N" {
			return k.JWK, k.C, k.RV
		}
		j := *k.JWK
		nb := make([]byte, 16)
		_, _ = rand.Read(nb)
		j.Nonce = base64.RawURLEncoding.EncodeToString(nb)
		cm, _ := commitment.GetCommitment(&j, hash)
		rv, _ := commitment.GetRevealValue(&j, hash)
		return &j, cm, rv
	}
	params := wire.Params(hash)
	params.SignatureAlgorithms = []string{kt.Alg()}
	params.KeyAlgorithms = []string{kt.String()}
	params.MultihashAlgorithms = []uint{hash}
	// intake runs with a server clock that stands at the intended anchoring time T: the request is inside its window, so
	// the validator must be handed a window that contains T - and exactly the caller's (anchorUntil defaulting to
	// anchorFrom + the maximum operation time delta)
	clock := &recordingClock{}
	parser := operationparser.New(params, operationparser.WithAnchorTimeValidator(clock))
	// the DID the operation acts on: created with recovery key 1 and update key 4 (possibly nonce-carrying JWKs)
	rkJWK, rkC, rkRV := jwkOf(1)
	ukJWK, ukC, ukRV := jwkOf(4)
	baseDelta := &model.DeltaModel{UpdateCommitment: ukC, Patches: concr.DeltaPatches("ok", 10)}
	bdh, _ := hashing.CalculateModelMultihash(baseDelta, hash)
	const baseOrigin = "https://base-origin.example.com"
	baseSD := &model.SuffixDataModel{DeltaHash: bdh, RecoveryCommitment: rkC, AnchorOrigin: baseOrigin}
	suffix, _ := hashing.CalculateModelMultihash(baseSD, hash)
	baseCreate, _ := canonicalizer.MarshalCanonical(&model.CreateRequest{Operation: operation.TypeCreate, SuffixData: baseSD, Delta: baseDelta})

	const T = concr.BaseTime + 500
	var from, until int64
	switch cs.C.Win {
	case "from":
		from = T - 100
	case "fromUntil":
		from, until = T-100, T+1000
	case "untilExact": // anchored in the last second of the window
		from, until = T-100, T
	case "fromExact": // anchored in the first second of the window
		from, until = T, T+1000
	case "fromOnlyEdge": // only anchorFrom declared; anchored in the last second of the default window
		from = T - int64(params.MaxOperationTimeDelta)
	}
	var patches []patch.Patch
	opaque := ""
	svc, _ := patch.NewAddServiceEndpointsPatch(`[{"id":"svc1","type":"LinkedDomains","serviceEndpoint":"https://example.com/x"}]`)
	switch cs.C.Patches {
	case "one":
		patches = concr.DeltaPatches("ok", 20)
	case "two":
		patches = append(concr.DeltaPatches("ok", 20), svc)
	case "opaque":
		if cs.C.Ty == "U" {
			jp, _ := patch.NewJSONPatch(`[{"op":"add","path":"/extra","value":{"a":[1,2,3]}},{"op":"add","path":"/serviceCount","value":2},{"op":"add","path":"/publicKeys","value":"none"}]`)
			patches = append(concr.DeltaPatches("ok", 20), jp)
		} else {
			// besides keys and services: members whose names need JSON-pointer escaping, and members whose names merely
			// start like a protected section
			opaque = fmt.Sprintf(`{"publicKey":%s,"service":[{"id":"svc1","type":"LinkedDomains","serviceEndpoint":"https://example.com/x"}],"https://schema.org/name":"Alice","a~1b":1,"serviceCount":2,"publicKeys":"none"}`, concr.KeyPatchJSON(20))
		}
	case "opaqueSparse":
		// an opaque document (as resolution itself reports one after removals / a replace) whose service and alias
		// sections are present but null or empty; an update carries removals of absent ids instead
		if cs.C.Ty == "U" {
			rs, _ := patch.NewRemoveServiceEndpointsPatch(`["absent"]`)
			rk, _ := patch.NewRemovePublicKeysPatch(`["absent"]`)
			patches = append(concr.DeltaPatches("ok", 20), rs, rk)
		} else {
			v := cs.C.Kt + len(cs.C.Win) + len(cs.C.Origin) + int(cs.C.Hash)
			opaque = fmt.Sprintf(`{"publicKey":%s,"service":%s,"alsoKnownAs":%s,"created":"2020-01-01"}`, concr.KeyPatchJSON(20), []string{"null", "[]"}[v%2], []string{"[]", "null"}[v/2%2])
		}
	}
	var origin interface{}
	switch cs.C.Origin {
	case "string":
		origin = "https://origin.example.com"
	case "object":
		origin = map[string]interface{}{"domain": "example.com", "weight": float64(3)}
	}
	nextUC, nextRC := keys.C(5), keys.C(2)
	var req []byte
	var opSuffix = suffix
	switch cs.C.Ty {
	case "C":
		req, err = client.NewCreateRequest(&client.CreateRequestInfo{OpaqueDocument: opaque, Patches: patches, RecoveryCommitment: nextRC, UpdateCommitment: nextUC,
			AnchorOrigin: origin, MultihashCode: hash})
	case "U":
		req, err = client.NewUpdateRequest(&client.UpdateRequestInfo{DidSuffix: suffix, Patches: patches, UpdateCommitment: nextUC, UpdateKey: ukJWK, MultihashCode: hash,
			Signer: keys.ByID[4].Signer, RevealValue: ukRV, AnchorFrom: from, AnchorUntil: until})
	case "R":
		req, err = client.NewRecoverRequest(&client.RecoverRequestInfo{DidSuffix: suffix, RecoveryKey: rkJWK, OpaqueDocument: opaque, Patches: patches, RecoveryCommitment: nextRC,
			UpdateCommitment: nextUC, AnchorOrigin: origin, AnchorFrom: from, AnchorUntil: until, MultihashCode: hash, Signer: keys.ByID[1].Signer, RevealValue: rkRV})
	case "D":
		req, err = client.NewDeactivateRequest(&client.DeactivateRequestInfo{DidSuffix: suffix, RecoveryKey: rkJWK, Signer: keys.ByID[1].Signer, RevealValue: rkRV,
			AnchorFrom: from, AnchorUntil: until})
	}
	if err != nil {
		return "builder-rejects-valid-input", err.Error()
	}
	clock.now = T
	if _, err := parser.Parse("did:sidetree", req); err != nil {
		return "not-accepted", map[string]interface{}{"error": err.Error(), "request": string(req), "server_time": T, "window_handed_to_the_server_clock": clock.seen}
	}
	if cs.C.Ty != "C" && (from != 0 || until != 0) {
		wantUntil := until
		if wantUntil == 0 {
			wantUntil = from + int64(params.MaxOperationTimeDelta)
		}
		if len(clock.seen) == 0 || clock.seen[0] != [2]int64{from, wantUntil} {
			return "window-handed-to-the-server-clock-differs", map[string]interface{}{"handed_over": clock.seen, "supplied_from": from, "effective_until": wantUntil, "request": string(req)}
		}
	}
	op, err := parser.ParseOperation("did:sidetree", req, false)
	if err != nil {
		return "not-accepted", err.Error()
	}
	// parse-back
	wantPatches := patches
	if opaque != "" {
		wantPatches, _ = patch.PatchesFromDocument(opaque)
	}
	bad := func(what string, got, want interface{}) (string, interface{}) {
		return "parses-back-differently:" + what, map[string]interface{}{"got": got, "want": want, "request": string(req)}
	}
	if op.Type != concr.OpType(cs.C.Ty) {
		return bad("type", op.Type, cs.C.Ty)
	}
	if cs.C.Ty != "D" {
		if op.Delta == nil || op.Delta.UpdateCommitment != nextUC {
			return bad("update-commitment", op.Delta, nextUC)
		}
		if !jsonEqual(op.Delta.Patches, wantPatches) {
			return bad("patches", op.Delta.Patches, wantPatches)
		}
	}
	switch cs.C.Ty {
	case "C":
		if op.SuffixData == nil || op.SuffixData.RecoveryCommitment != nextRC || !reflect.DeepEqual(op.SuffixData.AnchorOrigin, origin) {
			return bad("suffix-data", op.SuffixData, []interface{}{nextRC, origin})
		}
		want, _ := hashing.CalculateModelMultihash(op.SuffixData, hash)
		if op.UniqueSuffix != want {
			return bad("suffix", op.UniqueSuffix, want)
		}
		dh, _ := hashing.CalculateModelMultihash(&model.DeltaModel{UpdateCommitment: nextUC, Patches: wantPatches}, hash)
		if op.SuffixData.DeltaHash != dh {
			return bad("delta-hash", op.SuffixData.DeltaHash, dh)
		}
		opSuffix = op.UniqueSuffix
	case "U":
		sd, err := parser.ParseSignedDataForUpdate(op.SignedData)
		if err != nil {
			return bad("signed-data", err.Error(), nil)
		}
		if op.UniqueSuffix != suffix || op.RevealValue != ukRV || !reflect.DeepEqual(sd.UpdateKey, ukJWK) || sd.AnchorFrom != from || sd.AnchorUntil != until {
			return bad("update-fields", []interface{}{op.UniqueSuffix, op.RevealValue, sd}, []interface{}{suffix, ukRV, ukJWK, from, until})
		}
	case "R":
		sd, err := parser.ParseSignedDataForRecover(op.SignedData)
		if err != nil {
			return bad("signed-data", err.Error(), nil)
		}
		if op.UniqueSuffix != suffix || op.RevealValue != rkRV || !reflect.DeepEqual(sd.RecoveryKey, rkJWK) || sd.AnchorFrom != from || sd.AnchorUntil != until ||
			sd.RecoveryCommitment != nextRC || !reflect.DeepEqual(sd.AnchorOrigin, origin) {
			return bad("recover-fields", []interface{}{op.UniqueSuffix, op.RevealValue, sd}, []interface{}{suffix, rkRV, rkJWK, from, until, nextRC, origin})
		}
	case "D":
		sd, err := parser.ParseSignedDataForDeactivate(op.SignedData)
		if err != nil {
			return bad("signed-data", err.Error(), nil)
		}
		if op.UniqueSuffix != suffix || op.RevealValue != rkRV || !reflect.DeepEqual(sd.RecoveryKey, rkJWK) || sd.AnchorFrom != from || sd.AnchorUntil != until || sd.DidSuffix != suffix {
			return bad("deactivate-fields", []interface{}{op.UniqueSuffix, op.RevealValue, sd}, []interface{}{suffix, rkRV, rkJWK, from, until})
		}
	}
	// effect
	pc := &wire.Client{Versions: []protocol.Version{wire.NewResolutionVersion(params)}}
	store := &wire.SliceStore{}
	if cs.C.Ty != "C" {
		store.Ops = append(store.Ops, &operation.AnchoredOperation{Type: operation.TypeCreate, UniqueSuffix: suffix, OperationRequest: baseCreate,
			TransactionTime: concr.BaseTime, TransactionNumber: 0, CanonicalReference: "ref-c"})
	}
	store.Ops = append(store.Ops, &operation.AnchoredOperation{Type: concr.OpType(cs.C.Ty), UniqueSuffix: opSuffix, OperationRequest: req,
		TransactionTime: T, TransactionNumber: 1, CanonicalReference: "ref-o"})
	rm, rerr := processor.New("verif", store, pc).Resolve(opSuffix)
	abs := func(cm string) int { // alpha, extended by the nonce-carrying variants of keys 1 and 4
		switch cm {
		case rkC:
			return 1
		case ukC:
			return 4
		}
		return keys.Abs(cm)
	}
	got := View{Doc: []int{}}
	if rerr == nil {
		got = View{Exists: true, Deact: rm.Deactivated, Doc: KeyTokens(rm.Doc), Uc: abs(rm.UpdateCommitment), Rc: abs(rm.RecoveryCommitment)}
	}
	if !got.Equal(cs.Out.View) {
		return "effect-differs-from-spec", map[string]interface{}{"observed": got, "request": string(req)}
	}
	// opaque members must arrive in the resolved document
	if rerr == nil && cs.C.Patches == "opaque" && cs.C.Ty != "D" {
		want := map[string]interface{}{"serviceCount": float64(2), "publicKeys": "none"}
		if cs.C.Ty != "U" {
			want["https://schema.org/name"], want["a~1b"] = "Alice", float64(1)
		}
		for k, v := range want {
			if !reflect.DeepEqual(rm.Doc[k], v) {
				return "effect-opaque-member-lost", map[string]interface{}{"member": k, "expected": v, "observed": rm.Doc[k], "request": string(req)}
			}
		}
	}
	// the anchor origin is part of the state a create / recover sets (an update leaves the DID's origin alone)
	if rerr == nil {
		var wantOrigin interface{} = baseOrigin
		if cs.C.Ty == "C" || cs.C.Ty == "R" {
			wantOrigin = origin
		}
		if cs.C.Ty != "D" && !reflect.DeepEqual(rm.AnchorOrigin, wantOrigin) {
			return "effect-anchor-origin", map[string]interface{}{"observed": rm.AnchorOrigin, "expected": wantOrigin, "request": string(req)}
		}
	}
	return "", nil
}
