package props

import (
	"encoding/base64"
	"encoding/json"
	"fmt"
	"math/big"
	"reflect"
	"sidever/internal/pipe"
	"strings"
	"sync"
	"time"

	"github.com/trustbloc/sidetree-core-go/pkg/api/protocol"
	"github.com/trustbloc/sidetree-core-go/pkg/dochandler"
	"github.com/trustbloc/sidetree-core-go/pkg/document"
	"github.com/trustbloc/sidetree-core-go/pkg/versions/1_0/doctransformer/didtransformer"

	"sidever/internal/ev"
	"sidever/internal/tlc"
)

type projKey struct {
	Type     string   `json:"type"`
	Purposes []string `json:"purposes"`
	Material string   `json:"material"`
}

type projCase struct {
	C struct {
		Keys        []projKey `json:"keys"`
		Nsvc        int       `json:"nsvc"`
		Naka        int       `json:"naka"`
		Base        bool      `json:"base"`
		MethodCtx   bool      `json:"methodCtx"`
		Published   bool      `json:"published"`
		Deactivated bool      `json:"deactivated"`
		Commitments string    `json:"commitments"` // both | none | rcOnly (e.g. after a create with a bad delta) | ucOnly
		Origin      bool      `json:"origin"`
		VersionID   bool      `json:"versionId"`
		UpdatedTime string    `json:"updatedTime"`
	} `json:"c"`
	Out projOut `json:"out"`
}

type projVM struct {
	ID         string `json:"id"`
	Type       string `json:"type"`
	Controller string `json:"controller"`
	Material   string `json:"material"`
}

type projMeta struct {
	Published             bool `json:"published"`
	Deactivated           bool `json:"deactivated"`
	HasUpdateCommitment   bool `json:"hasUpdateCommitment"`
	HasRecoveryCommitment bool `json:"hasRecoveryCommitment"`
	HasAnchorOrigin       bool `json:"hasAnchorOrigin"`
	HasCanonicalID        bool `json:"hasCanonicalId"`
	HasEquivalentID       bool `json:"hasEquivalentId"`
	HasCreated            bool `json:"hasCreated"`
	HasVersionID          bool `json:"hasVersionId"`
	HasUpdated            bool `json:"hasUpdated"`
}

type projOut struct {
	ID                 string     `json:"id"`
	Context            []string   `json:"context"`
	VM                 []projVM   `json:"vm"`
	Rels               [][]string `json:"rels"`
	Services           []string   `json:"services"`
	Aka                int        `json:"aka"`
	HasPublicKeyMember bool       `json:"hasPublicKeyMember"`
	Meta               projMeta   `json:"meta"`
	Problems           []string   `json:"problems,omitempty"`
}

const b58Alphabet = "123456789ABCDEFGHJKLMNPQRSTUVWXYZabcdefghijkmnopqrstuvwxyz"

// base58 encodes independently of the library's dependency.
func base58(b []byte) string {
	x := new(big.Int).SetBytes(b)
	mod := new(big.Int)
	radix := big.NewInt(58)
	var out []byte
	for x.Sign() > 0 {
		x.DivMod(x, radix, mod)
		out = append(out, b58Alphabet[mod.Int64()])
	}
	for _, v := range b {
		if v != 0 {
			break
		}
		out = append(out, '1')
	}
	for i, j := 0, len(out)-1; i < j; i, j = i+1, j-1 {
		out[i], out[j] = out[j], out[i]
	}
	return string(out)
}

const (
	projDID    = "did:sidetree:EiAprojection"
	projSuffix = "EiAprojection"
	projB58    = "36d8RkFy2SdabnGzcZ3LcCSDA8NP5T4bsoADwuXtoN3B"
)

var edBytes = func() []byte {
	b := make([]byte, 32)
	for i := range b {
		b[i] = byte(7*i + 3)
	}
	b[0] = 0 // a leading zero byte exercises base58's leading-'1' rule
	return b
}()

func jwkFor(ty string) map[string]interface{} {
	if strings.HasPrefix(ty, "Ed25519") || strings.HasPrefix(ty, "X25519") {
		return map[string]interface{}{"kty": "OKP", "crv": "Ed25519", "x": base64.RawURLEncoding.EncodeToString(edBytes)}
	}
	return map[string]interface{}{"kty": "EC", "crv": "P-256", "x": "PUymIqdtF_qxaAqPABSw-C-owT1KYYQbsMKFM-L9fJA", "y": "nM84jDHCMOTGTh_ZdHq4dBBdo4Z5PkEOW9jA8z8IsGc"}
}

// anchor origins are opaque JSON values: the flag "origin" is realised as each of these
var originVariants = []interface{}{"https://origin.example.com", []interface{}{"https://a.example.com", "https://b.example.com"},
	map[string]interface{}{"domain": "example.com", "weight": float64(3)}, float64(7), "", true}

func runProjection(cs *projCase) (projOut, error) {
	if !cs.C.Origin {
		return runProjectionWith(cs, nil)
	}
	var out projOut
	var err error
	for _, o := range originVariants {
		out, err = runProjectionWith(cs, o)
		if err != nil || !out.Meta.HasAnchorOrigin || len(out.Problems) > 0 {
			return out, err
		}
	}
	return out, err
}

func runProjectionWith(cs *projCase, origin interface{}) (projOut, error) {
	doc := map[string]interface{}{}
	var keys []interface{}
	for i, k := range cs.C.Keys {
		e := map[string]interface{}{"id": fmt.Sprintf("key%d", i+1), "type": k.Type}
		if len(k.Purposes) > 0 {
			ps := make([]interface{}, len(k.Purposes))
			for j, p := range k.Purposes {
				ps[j] = p
			}
			// a purpose listed twice names the relationship once - wherever the repetition stands: right after the first
			// occurrence with the further purposes behind it (single keys and every second key), or at the end (the first
			// of several keys)
			if (i%2 == 1 || len(cs.C.Keys) == 1) && len(ps) < 5 {
				ps = append([]interface{}{ps[0]}, ps...)
			} else if len(ps) < 5 {
				ps = append(ps, ps[0])
			}
			e["purposes"] = ps
		}
		if k.Material == "jwk" {
			e["publicKeyJwk"] = jwkFor(k.Type)
		} else {
			e["publicKeyBase58"] = projB58
		}
		keys = append(keys, e)
	}
	if len(keys) > 0 {
		doc["publicKey"] = keys
	}
	var svcs []interface{}
	for i := 1; i <= cs.C.Nsvc; i++ {
		sv := map[string]interface{}{"id": fmt.Sprintf("svc%d", i), "type": "LinkedDomains", "serviceEndpoint": fmt.Sprintf("https://svc.example.com/%d", i),
			"priority": float64(i), "extra": map[string]interface{}{"a": float64(1)}}
		if i == 2 {
			// a sparse entry: no type member, one further member - "its remaining members" does not depend on how many
			// of the standard members an entry has
			sv = map[string]interface{}{"id": "svc2", "serviceEndpoint": "https://svc.example.com/2", "priority": float64(2)}
		}
		svcs = append(svcs, sv)
	}
	if len(svcs) > 0 {
		doc["service"] = svcs
	}
	var akas []interface{}
	for i := 1; i <= cs.C.Naka; i++ {
		akas = append(akas, fmt.Sprintf("https://aka.example.com/%d", i))
	}
	if len(akas) > 0 {
		doc["alsoKnownAs"] = akas
	}
	rawDoc, _ := json.Marshal(doc)
	internal, err := document.FromBytes(rawDoc)
	if err != nil {
		return projOut{}, err
	}
	rm := &protocol.ResolutionModel{Doc: internal, CreatedTime: 1700000000, Deactivated: cs.C.Deactivated}
	if cs.C.Commitments == "both" || cs.C.Commitments == "ucOnly" {
		rm.UpdateCommitment = "uc-commitment"
	}
	if cs.C.Commitments == "both" || cs.C.Commitments == "rcOnly" {
		rm.RecoveryCommitment = "rc-commitment"
	}
	if cs.C.Origin {
		rm.AnchorOrigin = origin
	}
	if cs.C.VersionID {
		rm.VersionID = "ref-version"
	}
	updated := int64(1700000500)
	switch cs.C.UpdatedTime {
	case "later":
		rm.UpdatedTime = 1700000500
	case "same": // an update anchored in the same block as the create
		rm.UpdatedTime = 1700000000
		updated = 1700000000
	}
	var info protocol.TransformationInfo
	if cs.C.Published {
		rm.CanonicalReference = "canon"
		rm.EquivalentReferences = []string{"eq1"}
		info = dochandler.GetTransformationInfoForPublished("did:sidetree", projDID, projSuffix, rm)
	} else {
		info = dochandler.GetTransformationInfoForUnpublished("did:sidetree", "", "", projSuffix, "")
	}
	opts := []didtransformer.Option{didtransformer.WithBase(cs.C.Base)}
	if cs.C.MethodCtx {
		opts = append(opts, didtransformer.WithMethodContext([]string{"https://method.example.com/ctx/v1"}))
	}
	rr, err := didtransformer.New(opts...).TransformDocument(rm, info)
	if err != nil {
		return projOut{}, err
	}
	// alpha
	raw, _ := json.Marshal(rr)
	var full struct {
		Doc  map[string]interface{} `json:"didDocument"`
		Meta map[string]interface{} `json:"didDocumentMetadata"`
	}
	if err := json.Unmarshal(raw, &full); err != nil {
		return projOut{}, err
	}
	sub := func(s interface{}) string {
		str, _ := s.(string)
		return strings.ReplaceAll(str, projDID, "DID")
	}
	out := projOut{ID: sub(full.Doc["id"]), Context: []string{}, VM: []projVM{}, Rels: [][]string{}, Services: []string{}}
	if ctx, ok := full.Doc["@context"].([]interface{}); ok {
		for _, x := range ctx {
			switch v := x.(type) {
			case string:
				out.Context = append(out.Context, v)
			case map[string]interface{}:
				out.Context = append(out.Context, "@base="+sub(v["@base"]))
			}
		}
	}
	if vms, ok := full.Doc["verificationMethod"].([]interface{}); ok {
		for i, x := range vms {
			vm, _ := x.(map[string]interface{})
			e := projVM{ID: sub(vm["id"]), Type: fmt.Sprint(vm["type"]), Controller: sub(vm["controller"])}
			var mats []string
			in := cs.C.Keys[minInt(i, len(cs.C.Keys)-1)]
			if j, ok := vm["publicKeyJwk"]; ok {
				if reflect.DeepEqual(j, jwkFor(in.Type)) {
					mats = append(mats, "jwk-unchanged")
				} else {
					mats = append(mats, "jwk-ALTERED")
				}
			}
			if b, ok := vm["publicKeyBase58"].(string); ok {
				switch b {
				case projB58:
					mats = append(mats, "base58-unchanged")
				case base58(edBytes):
					mats = append(mats, "base58-of-jwk-bytes")
				default:
					mats = append(mats, "base58-WRONG")
				}
			}
			if m, ok := vm["publicKeyMultibase"].(string); ok {
				if m == "z"+base58(edBytes) {
					mats = append(mats, "multibase-of-jwk-bytes")
				} else {
					mats = append(mats, "multibase-WRONG")
				}
			}
			e.Material = strings.Join(mats, "+")
			for k := range vm {
				switch k {
				case "id", "type", "controller", "publicKeyJwk", "publicKeyBase58", "publicKeyMultibase":
				default:
					out.Problems = append(out.Problems, "verification method carries member "+k)
				}
			}
			out.VM = append(out.VM, e)
		}
	}
	for _, name := range []string{"authentication", "assertionMethod", "keyAgreement", "capabilityDelegation", "capabilityInvocation"} {
		l := []string{}
		if arr, ok := full.Doc[name].([]interface{}); ok {
			for _, x := range arr {
				l = append(l, sub(x))
			}
		}
		out.Rels = append(out.Rels, l)
	}
	if arr, ok := full.Doc["service"].([]interface{}); ok {
		for i, x := range arr {
			s, _ := x.(map[string]interface{})
			out.Services = append(out.Services, sub(s["id"]))
			want := svcs[minInt(i, len(svcs)-1)].(map[string]interface{})
			for k, v := range want {
				if k != "id" && !reflect.DeepEqual(s[k], v) {
					out.Problems = append(out.Problems, fmt.Sprintf("service member %s not carried over", k))
				}
			}
		}
	}
	if arr, ok := full.Doc["alsoKnownAs"].([]interface{}); ok {
		out.Aka = len(arr)
		if !reflect.DeepEqual(arr, akas) {
			out.Problems = append(out.Problems, "alsoKnownAs altered")
		}
	}
	_, out.HasPublicKeyMember = full.Doc["publicKey"]
	// metadata
	method, _ := full.Meta["method"].(map[string]interface{})
	eq := func(m map[string]interface{}, k string, want interface{}) bool {
		v, ok := m[k]
		if !ok {
			return false
		}
		if !reflect.DeepEqual(v, want) {
			out.Problems = append(out.Problems, fmt.Sprintf("metadata %s = %v, expected %v", k, v, want))
		}
		return true
	}
	if p, ok := method["published"].(bool); ok {
		out.Meta.Published = p
	} else {
		out.Problems = append(out.Problems, "method.published missing")
	}
	if d, ok := full.Meta["deactivated"].(bool); ok {
		out.Meta.Deactivated = d
	}
	out.Meta.HasUpdateCommitment = eq(method, "updateCommitment", "uc-commitment")
	out.Meta.HasRecoveryCommitment = eq(method, "recoveryCommitment", "rc-commitment")
	out.Meta.HasAnchorOrigin = eq(method, "anchorOrigin", origin)
	out.Meta.HasCanonicalID = eq(full.Meta, "canonicalId", "did:sidetree:canon:"+projSuffix)
	out.Meta.HasEquivalentID = eq(full.Meta, "equivalentId", []interface{}{"did:sidetree:canon:" + projSuffix, "did:sidetree:eq1:" + projSuffix})
	out.Meta.HasCreated = eq(full.Meta, "created", time.Unix(1700000000, 0).UTC().Format(time.RFC3339))
	out.Meta.HasVersionID = eq(full.Meta, "versionId", "ref-version")
	out.Meta.HasUpdated = eq(full.Meta, "updated", time.Unix(updated, 0).UTC().Format(time.RFC3339))
	return out, nil
}

func minInt(a, b int) int {
	if a < b {
		return a
	}
	if b < 0 {
		return 0
	}
	return b
}

// C19: the external DID document and metadata equal Projection!Project for every enumerated case.
// aliasProjection: a DID resolved through the document handler under a namespace alias - while its create is only in
// the unpublished-operation store, and after anchoring - is projected with that very DID as document id, controller and
// prefix of every verification method and service id.
func aliasProjection(c *ev.Ctx) {
	for _, unpub := range []bool{true, false} {
		p, err := pipe.New(unpub, KeyTypeForSeed(c.Seed))
		if err != nil {
			ev.Fatal("pipeline: %v", err)
		}
		steps := []pipe.Step{{A: "Submit", D: 1, K: "C"}}
		if err := p.Exec(steps[0], []int{1}); err != nil {
			ev.Fatal("create: %v", err)
		}
		check := func(stage string) {
			for _, ns := range []string{pipe.NS, pipe.Alias} {
				did := ns + ":" + p.Suffix(1)
				rr, rerr := p.Handler().ResolveDocument(did)
				c.Cov.Evaluations++
				if rerr != nil {
					if stage == "unpublished" && !unpub {
						continue // nothing to resolve yet
					}
					c.Violation("projection:alias:resolution-fails:"+stage, map[string]interface{}{"did": did, "error": rerr.Error()})
					continue
				}
				raw, _ := json.Marshal(rr.Document)
				var doc map[string]interface{}
				_ = json.Unmarshal(raw, &doc)
				problems := []string{}
				if doc["id"] != did {
					problems = append(problems, fmt.Sprintf("document id %v", doc["id"]))
				}
				vms, _ := doc["verificationMethod"].([]interface{})
				for _, v := range vms {
					m, _ := v.(map[string]interface{})
					id, _ := m["id"].(string)
					if !strings.HasPrefix(id, did+"#") || m["controller"] != did {
						problems = append(problems, fmt.Sprintf("verification method id %v controller %v", m["id"], m["controller"]))
					}
				}
				if len(vms) == 0 {
					problems = append(problems, "no verification method")
				}
				if len(problems) > 0 {
					c.Violation("projection:alias:ids-do-not-carry-the-resolved-did:"+stage, map[string]interface{}{"resolved_did": did, "problems": problems, "document": string(raw),
						"unpublished_store": unpub})
				}
			}
		}
		check("unpublished")
		if err := p.Exec(pipe.Step{A: "Flush"}, []int{1}); err != nil {
			ev.Fatal("flush: %v", err)
		}
		p.ObserveMany([]string{"none"})
		check("published")
		p.Close()
	}
}

func C19(c *ev.Ctx) {
	var cases []projCase
	for _, part := range []string{"keys", "keypairs", "services", "metadata"} {
		r, err := tlc.Run(tlc.Opts{SpecDir: specDir(), Module: "Projection", Config: "Projection_" + part + "_" + c.Tier + ".cfg", WorkDir: c.Work, Timeout: 20 * time.Minute})
		if err != nil {
			ev.Fatal("TLC Projection %s: %v", part, err)
		}
		if r.InvariantViolated != "" {
			ev.Fatal("Projection.tla invariant violated: %s", r.InvariantViolated)
		}
		c.Cov.States += r.Distinct
		c.Cov.Transitions += r.Generated
		c.Cov.CheckerCmd = r.Cmd
		for _, raw := range r.Cases {
			var pc projCase
			if err := json.Unmarshal(raw, &pc); err != nil {
				ev.Fatal("case: %v", err)
			}
			cases = append(cases, pc)
		}
	}
	var mu sync.Mutex
	var nt int64
	ParallelCases(len(cases), 30*time.Second, func(i int) {
		cs := &cases[i]
		want := cs.Out
		if want.Context == nil {
			want.Context = []string{}
		}
		if want.VM == nil {
			want.VM = []projVM{}
		}
		if want.Services == nil {
			want.Services = []string{}
		}
		for j := range want.Rels {
			if want.Rels[j] == nil {
				want.Rels[j] = []string{}
			}
		}
		got, err := runProjection(cs)
		class := ""
		switch {
		case err != nil:
			class = "transform-error"
		case len(got.Problems) > 0:
			class = "content-altered"
		case !reflect.DeepEqual(got.VM, want.VM):
			class = "verification-methods"
		case !reflect.DeepEqual(got.Rels, want.Rels):
			class = "relationships"
		case !reflect.DeepEqual(got.Context, want.Context):
			class = "contexts"
		case !reflect.DeepEqual(got.Services, want.Services):
			class = "services"
		case got.Meta != want.Meta:
			class = "metadata"
		case got.ID != want.ID || got.Aka != want.Aka || got.HasPublicKeyMember:
			class = "document-members"
		}
		if class != "" {
			e := ""
			if err != nil {
				e = err.Error()
			}
			c.Violation("projection:"+class, map[string]interface{}{"case": cs.C, "expected": want, "observed": got, "error": e})
		}
		mu.Lock()
		if len(cs.C.Keys) > 0 {
			nt++
		}
		mu.Unlock()
		if i%100 == 11 {
			c.AddSample(map[string]interface{}{"case": cs.C, "expected": want})
		}
	}, func(int) {})
	c.Cov.TracesValidatedAgainstImpl = int64(len(cases))
	c.Cov.Evaluations = int64(len(cases))
	c.Cov.DistinctNontrivial = nt
	c.Cov.Exhaustive = true
	// keys that delta validation accepts although their JWK is not an Ed25519 key: "for every resolved state" includes
	// states holding such a key, and the document must still be produced (with the same key material)
	for _, ty := range []string{"Ed25519VerificationKey2018", "Ed25519VerificationKey2020"} {
		for name, jwk := range map[string]string{
			"ec-jwk":  `{"kty":"EC","crv":"P-256","x":"PUymIqdtF_qxaAqPABSw-C-owT1KYYQbsMKFM-L9fJA","y":"nM84jDHCMOTGTh_ZdHq4dBBdo4Z5PkEOW9jA8z8IsGc"}`,
			"short-x": `{"kty":"OKP","crv":"Ed25519","x":"AQID"}`,
		} {
			raw := fmt.Sprintf(`{"publicKey":[{"id":"key1","type":%q,"purposes":["authentication"],"publicKeyJwk":%s}]}`, ty, jwk)
			internal, err := document.FromBytes([]byte(raw))
			if err != nil {
				ev.Fatal("document: %v", err)
			}
			rm := &protocol.ResolutionModel{Doc: internal, CreatedTime: 1700000000}
			info := dochandler.GetTransformationInfoForUnpublished("did:sidetree", "", "", projSuffix, "")
			c.Cov.Evaluations++
			if _, terr := didtransformer.New().TransformDocument(rm, info); terr != nil {
				c.Violation("projection:ed25519-typed-key-with-other-jwk-cannot-be-transformed", map[string]interface{}{"key_type": ty, "jwk": name, "document": raw, "error": terr.Error(),
					"note": "patch validation accepts this key (it only requires kty, crv and x to be present), so the state is reachable; resolution of the DID then fails"})
			}
		}
	}
	aliasProjection(c)
	c.Cov.Rule = "three sub-products enumerated by TLC: (keys) every sequence of <= MaxKeys internal keys over 6 key types x 5 purpose sets x {JWK, base58} x base context x method context; (services) 0-2 services x 0-2 aliases x options; (metadata) options x published x deactivated x commitments x anchor origin (realised as string, list, object, number, empty string, boolean) x version id x updated time; the real DID transformer output (with the real transformation-info helpers of the document handler) is abstracted and compared with Project(c): verification methods (id form, type, controller, material re-encoding checked against an independent base58), the five relationship sections, contexts and their order, service ids and carried-over members, aliases, absence of the internal publicKey member, every metadata field and its value. Non-trivial: >= 1 key."
	c.Finish("model_checking")
}
