package props

import (
	"encoding/json"
	"fmt"
	"reflect"
	"strings"
	"sync"
	"time"

	"github.com/trustbloc/sidetree-core-go/pkg/api/operation"
	"github.com/trustbloc/sidetree-core-go/pkg/api/txn"

	"sidever/internal/bf"
	"sidever/internal/ev"
	"sidever/internal/tlc"
)

func runBatchFilesTLC(c *ev.Ctx, cfg string) []bf.Case {
	r, err := tlc.Run(tlc.Opts{SpecDir: specDir(), Module: "BatchFiles", Config: cfg, WorkDir: c.Work, Timeout: 30 * time.Minute})
	if err != nil {
		ev.Fatal("TLC %s: %v", cfg, err)
	}
	if r.InvariantViolated != "" {
		ev.Fatal("BatchFiles.tla invariant violated (%s): %s\n%s", cfg, r.InvariantViolated, r.Output)
	}
	c.Cov.States += r.Distinct
	c.Cov.Transitions += r.Generated
	c.Cov.CheckerCmd = r.Cmd
	cases := make([]bf.Case, len(r.Cases))
	for i, raw := range r.Cases {
		if err := json.Unmarshal(raw, &cases[i]); err != nil {
			ev.Fatal("case: %v", err)
		}
	}
	return cases
}

func batchClass(b []bf.Op) string {
	s := ""
	for _, o := range b {
		s += o.Ty
		if o.Exp {
			s += "x"
		}
	}
	return s
}

func idsOfQueued(all []*operation.QueuedOperation, sub []*operation.QueuedOperation) []int {
	out := []int{}
	for _, s := range sub {
		for i, a := range all {
			if a == s {
				out = append(out, i+1)
			}
		}
	}
	return out
}

// C13: batch files written by the real handler for every enumerated batch read back through the real provider as
// exactly the specification's Expected(batch); the anchor count equals the number read; every queued operation is
// accounted for exactly once as included / deferred / expired.
func C13(c *ev.Ctx) {
	cases := runBatchFilesTLC(c, "BatchFiles_C13_"+c.Tier+".cfg")
	pool, err := bf.NewPool(3, KeyTypeForSeed(c.Seed), 4)
	if err != nil {
		ev.Fatal("pool: %v", err)
	}
	var mu sync.Mutex
	var nt int64
	ParallelCases(len(cases), 60*time.Second, func(i int) {
		cs := &cases[i]
		rig := bf.NewRig(bf.Params())
		q := pool.Queued(cs.Batch)
		info, err := rig.Handler.PrepareTxnFiles(q)
		cls := batchClass(cs.Batch)
		fail := func(what string, detail interface{}) {
			c.Violation("batch-roundtrip:"+what+":"+cls, map[string]interface{}{"batch": cs.Batch, "detail": detail, "expected_ops": cs.Ops})
		}
		if err != nil {
			fail("handler-error", err.Error())
			return
		}
		// accounting
		def, exp := idsOfQueued(q, info.AdditionalOperations), idsOfQueued(q, info.ExpiredOperations)
		if fmt.Sprint(def) != fmt.Sprint(cs.Def) || fmt.Sprint(exp) != fmt.Sprint(cs.Exp) {
			fail("accounting", map[string]interface{}{"deferred": def, "expired": exp, "spec_deferred": cs.Def, "spec_expired": cs.Exp})
			return
		}
		cnt := strings.SplitN(info.AnchorString, ".", 2)[0]
		if cnt != fmt.Sprint(len(cs.Inc)) {
			fail("anchor-count", map[string]interface{}{"anchor": info.AnchorString, "included": cs.Inc})
			return
		}
		ops, rerr := rig.Provider.GetTxnOperations(&txn.SidetreeTxn{AnchorString: info.AnchorString, Namespace: "did:sidetree"})
		if cs.Verdict == "error" {
			if rerr == nil {
				fail("read-accepts-but-spec-rejects", len(ops))
			}
			return
		}
		if rerr != nil {
			fail("read-error", rerr.Error())
			return
		}
		if len(ops) != len(cs.Ops) {
			fail("read-count", len(ops))
			return
		}
		for k, want := range cs.Ops {
			got := ops[k]
			sub := q[want.ID-1]
			switch {
			case got.Type != sub.Type:
				fail("type-or-order", map[string]interface{}{"position": k, "got": got.Type, "want": sub.Type})
				return
			case got.UniqueSuffix != pool.Suffix(want.Sfx):
				fail("suffix", map[string]interface{}{"position": k, "got": got.UniqueSuffix})
				return
			case !jsonEqualBytes(got.OperationRequest, sub.OperationRequest):
				fail("request-not-json-equal", map[string]interface{}{"position": k, "got": string(got.OperationRequest), "submitted": string(sub.OperationRequest)})
				return
			}
			if want.Ty == "C" || want.Ty == "R" {
				if !reflect.DeepEqual(got.AnchorOrigin, bf.AnchorOrigin(sub.OperationRequest)) || got.AnchorOrigin == nil {
					fail("anchor-origin", map[string]interface{}{"position": k, "got": got.AnchorOrigin, "want": bf.AnchorOrigin(sub.OperationRequest)})
					return
				}
			}
		}
		if i%5 == 0 && len(cs.Inc) >= 2 {
			tightLimits(c, rig, q, info.AnchorString, cls, cs.Batch)
		}
		mu.Lock()
		if multiType(cs.Batch) {
			nt++
		}
		mu.Unlock()
		if i%3000 == 17 {
			c.AddSample(map[string]interface{}{"batch": cs.Batch, "read_back": cs.Ops, "anchor": info.AnchorString})
		}
	}, func(int) {})
	c.Cov.TracesValidatedAgainstImpl = int64(len(cases))
	c.Cov.Evaluations = int64(len(cases))
	c.Cov.DistinctNontrivial = nt
	c.Cov.Exhaustive = true
	c.Cov.Rule = "every batch of <= MaxBatch queued operations over 3 suffixes x 4 types x expired flag (TLC: RoundTrip, Accounting, CountAgrees, OrderCRUD on the specification); each batch is concretised into client-built requests (anchor origins embedded), written by the real OperationHandler into a CAS and read back by the real OperationProvider; compared position by position with Expected(batch): type, suffix, JSON-equal request, anchor origin, anchor count, included/deferred/expired accounting; every fifth batch is written again under per-file size limits just below what it needs (BatchFiles!LimitClasses) and what is anchored then must be readable under those limits. Non-trivial: >= 2 types or a repeated suffix."
	c.Finish("model_checking")
}

// tightLimits: BatchFiles!LimitClasses "tight:f".  For every file of the written transaction whose size exceeds what a
// batch of any single one of the operations needs, the batch is written again under a protocol whose limit for that file
// type is one byte below the size just written: whatever the writer then anchors has to be readable under that protocol.
func tightLimits(c *ev.Ctx, rig *bf.Rig, q []*operation.QueuedOperation, anchor, cls string, batch []bf.Op) {
	fs, err := rig.Locate(anchor)
	if err != nil {
		return
	}
	sizes := func(r *bf.Rig, f *bf.FileSet) map[string]int {
		return map[string]int{"coreIndex": len(r.CAS.M[f.CoreIndex]), "coreProof": len(r.CAS.M[f.CoreProof]), "provIndex": len(r.CAS.M[f.ProvIndex]),
			"provProof": len(r.CAS.M[f.ProvProof]), "chunk": len(r.CAS.M[f.Chunk])}
	}
	whole := sizes(rig, fs)
	single := map[string]int{}
	for _, one := range q {
		r1 := bf.NewRig(rig.Params)
		i1, err := r1.Handler.PrepareTxnFiles([]*operation.QueuedOperation{one})
		if err != nil {
			continue
		}
		f1, err := r1.Locate(i1.AnchorString)
		if err != nil {
			continue
		}
		for k, v := range sizes(r1, f1) {
			if v > single[k] {
				single[k] = v
			}
		}
	}
	for _, file := range []string{"coreIndex", "coreProof", "provIndex", "provProof", "chunk"} {
		if whole[file] == 0 || whole[file]-1 < single[file] {
			continue
		}
		params := rig.Params
		limit := uint(whole[file] - 1)
		switch file {
		case "coreIndex":
			params.MaxCoreIndexFileSize = limit
		case "coreProof", "provProof":
			params.MaxProofFileSize = limit
		case "provIndex":
			params.MaxProvisionalIndexFileSize = limit
		case "chunk":
			params.MaxChunkFileSize = limit
		}
		r2 := bf.NewRig(params)
		info, err := r2.Handler.PrepareTxnFiles(q)
		c.Cov.Evaluations++
		if err != nil {
			continue // nothing was anchored
		}
		if _, rerr := r2.Provider.GetTxnOperations(&txn.SidetreeTxn{AnchorString: info.AnchorString, Namespace: "did:sidetree"}); rerr != nil {
			c.Violation("batch-roundtrip:written-file-exceeds-the-limit-the-reader-enforces", map[string]interface{}{"batch": batch, "class": cls, "file": file,
				"limit_of_the_protocol_version": limit, "size_written": whole[file], "largest_size_for_a_single_operation": single[file], "reader_error": rerr.Error()})
		}
	}
}

func multiType(b []bf.Op) bool {
	ty, sf := map[string]bool{}, map[int]int{}
	for _, o := range b {
		ty[o.Ty] = true
		sf[o.Sfx]++
	}
	if len(ty) >= 2 {
		return true
	}
	for _, n := range sf {
		if n >= 2 {
			return true
		}
	}
	return false
}

func jsonEqualBytes(a, b []byte) bool {
	var x, y interface{}
	if json.Unmarshal(a, &x) != nil || json.Unmarshal(b, &y) != nil {
		return false
	}
	return reflect.DeepEqual(x, y)
}
