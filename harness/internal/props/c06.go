package props

import (
	"fmt"
	"github.com/trustbloc/sidetree-core-go/pkg/api/protocol"
	"strings"
	"sync"
	"time"

	"github.com/trustbloc/sidetree-core-go/pkg/document"

	"sidever/internal/concr"
	"sidever/internal/ev"
	"sidever/internal/pipe"
)

func rfc3339(t int) string { return time.Unix(int64(concr.BaseTime+t), 0).UTC().Format(time.RFC3339) }

// C06: real(store, versionTime T) = real({o : o.t <= T}) and real(store, versionId V) = real(ops up to and
// including V) for every enumerated store, every T in 0..max+1 and every V (each published reference and an unknown
// one); errors exactly where the truncated history has no result; both sides are real runs and the truncated store's
// specification result (itself an enumerated state) is compared as well.
func C06(c *ev.Ctx) {
	var cuts, nt, stores int64
	for _, cfg := range []string{tierCfg(c, "MC_C06"), tierCfg(c, "MC_C06_unpub")} {
		a, b, n := c06Config(c, cfg)
		cuts, nt, stores = cuts+a, nt+b, stores+n
	}
	c.Cov.TracesValidatedAgainstImpl = cuts
	c.Cov.Evaluations = cuts
	c.Cov.DistinctNontrivial = nt
	c.Cov.Exhaustive = true
	c.Cov.Extra["stores"] = stores
	historicalThroughHandler(c)
	c.Cov.Rule = "every store of <= MaxOps operations (configuration 1: published only, full alphabet; configuration 2: published and unpublished, 6-shape alphabet) x every version time 0..max+1 x every version id of a stored operation + an unknown id; TLC checks HistoricalIsTruncation (implementation-shaped cut of the sorted list vs truncation of the set) and PastIsImmutable on the specification; the harness compares real(store, cut) - also with part of the history handed over through the AdditionalOperations option - with real(truncated store) and with the specification's result of the truncated store. Non-trivial: the cut removes >= 1 and keeps >= 1 operation. In addition Pipeline.tla behaviours (>= 2 observed transactions) run on the fully wired real pipeline with every DID resolved at every version time / version id through the document handler or the REST query parameters; the traces are validated against Pipeline!HistT / HistV."
	c.Finish("model_checking")
}

// historicalThroughHandler: Pipeline.tla behaviours executed on the fully wired real pipeline, with a ResolveHist step
// (every DID at every version time and at the reference of every ledger entry, through DocumentHandler.ResolveDocument
// or - every other behaviour - the REST resolve endpoint's versionTime / versionId query parameters) after every run of
// Observe steps and at the end; the recorded views are validated by TLC against Pipeline!HistT / HistV.
func historicalThroughHandler(c *ev.Ctx) {
	n := 40
	if c.Tier == "thorough" {
		n = 1200
	}
	twoObserved := func(h []pipe.Step) bool {
		k := 0
		for _, s := range h {
			if s.A == "Observe" && s.F == "none" {
				k++
			}
		}
		return k >= 2
	}
	for _, unpub := range []bool{true, false} {
		cfg := "MC_Pipeline_gen_unpub.cfg"
		if !unpub {
			cfg = "MC_Pipeline_gen_nounpub.cfg"
		}
		var sel [][]pipe.Step
		for _, h := range pipelineBehaviours(c, cfg, n*3, c.Seed+606) {
			if !twoObserved(h) {
				continue
			}
			var g []pipe.Step
			for i, s := range h {
				g = append(g, s)
				if s.A == "Observe" && (i+1 == len(h) || h[i+1].A != "Observe") {
					g = append(g, pipe.Step{A: "ResolveHist"})
				}
			}
			if g[len(g)-1].A != "ResolveHist" {
				g = append(g, pipe.Step{A: "ResolveHist"})
			}
			sel = append(sel, g)
			if len(sel) == n {
				break
			}
		}
		before := c.Cov.DistinctNontrivial
		runPipelineBehaviours(c, unpub, sel, twoObserved, "historical-through-handler-trace-rejected")
		c.Cov.Extra[fmt.Sprintf("pipeline_behaviours_with_historical_resolution_unpub_%v", unpub)] = c.Cov.DistinctNontrivial - before
	}
}

func c06Config(c *ev.Ctx, cfg string) (int64, int64, int64) {
	run := runResolutionTLC(c, "MC_C06", cfg, 40*time.Minute)
	e := mustEngine(run.Alpha, KeyTypeForSeed(c.Seed), concr.SHA256)
	eN := e.WithoutRefs()
	cases := run.Cases
	index := make(map[string]int, len(cases))
	maxT := 0
	for i := range cases {
		index[Key(cases[i].Ops)] = i
		for _, a := range cases[i].Ops {
			if a.T > maxT {
				maxT = a.T
			}
		}
	}
	var mu sync.Mutex
	var cuts, nt int64
	ParallelCases(len(cases), 60*time.Second, func(i int) {
		cs := &cases[i]
		localCuts, localNt := int64(0), int64(0)
		check := func(kind string, cut interface{}, trunc []AnchOp, opt document.ResolutionOption) {
			localCuts++
			if len(trunc) > 0 && len(trunc) < len(cs.Ops) {
				localNt++
			}
			got, _, _ := e.Resolve(cs.Ops, opt)
			want, _, _ := e.Resolve(trunc)
			// the same cut when part of the history arrives through the AdditionalOperations option (every second case:
			// published additional operations are in the store as well)
			extra := make([]bool, len(cs.Ops))
			for k := range extra {
				extra[k] = (i/2+k+int(localCuts))%2 == 0
			}
			if gotSplit, _, _ := e.ResolveSplit(cs.Ops, extra, i%2 == 1, opt); !gotSplit.Equal(want) {
				c.Violation("historical-differs-from-truncated:"+kind+":additional-operations", map[string]interface{}{"store": e.Describe(cs.Ops), "cut": cut,
					"handed_over_as_additional": extra, "also_in_store": i%2 == 1, "resolved_at_cut": gotSplit, "resolved_truncated_history": want})
			}
			ti, ok := index[Key(trunc)]
			if !ok {
				ev.Fatal("truncated store is not an enumerated state")
			}
			spec := cases[ti].Res
			switch {
			case !got.Equal(want):
				c.Violation("historical-differs-from-truncated:"+kind, map[string]interface{}{"store": e.Describe(cs.Ops), "cut": cut,
					"resolved_at_cut": got, "resolved_truncated_history": want, "spec": spec})
			case !got.Equal(spec):
				c.Violation("historical-differs-from-spec:"+kind, map[string]interface{}{"store": e.Describe(cs.Ops), "cut": cut, "observed": got, "spec": spec})
			}
		}
		for T := 0; T <= maxT+1; T++ {
			var trunc []AnchOp
			for _, a := range cs.Ops {
				if a.T <= T {
					trunc = append(trunc, a)
				}
			}
			check("version-time", T, trunc, document.WithVersionTime(rfc3339(T)))
			// the same cut on a ledger without canonical references: state and the published / unpublished operation lists
			if (i+T)%3 == 0 {
				localCuts++
				gotN, rmN, _ := eN.Resolve(cs.Ops, document.WithVersionTime(rfc3339(T)))
				wantN, rmT, _ := eN.Resolve(trunc)
				lists := func(rm *protocol.ResolutionModel) [2]int {
					if rm == nil {
						return [2]int{-1, -1}
					}
					return [2]int{len(rm.PublishedOperations), len(rm.UnpublishedOperations)}
				}
				switch {
				case !gotN.Equal(wantN):
					c.Violation("without-canonical-references:historical-differs-from-truncated:version-time", map[string]interface{}{"store": e.Describe(cs.Ops), "cut": T,
						"resolved_at_cut": gotN, "resolved_truncated_history": wantN})
				case lists(rmN) != lists(rmT):
					c.Violation("without-canonical-references:historical-operation-lists-differ-from-truncated:version-time", map[string]interface{}{"store": e.Describe(cs.Ops), "cut": T,
						"published_unpublished_at_cut": lists(rmN), "published_unpublished_truncated_history": lists(rmT)})
				}
			}
		}
		for _, v := range cs.Ops {
			if !v.Pub {
				continue
			}
			var trunc []AnchOp
			for _, a := range cs.Ops {
				if a.Pub && (a.T < v.T || (a.T == v.T && a.N <= v.N)) {
					trunc = append(trunc, a)
				}
			}
			check("version-id", Ref(v.T, v.N), trunc, document.WithVersionID(Ref(v.T, v.N)))
		}
		// near misses of a known version id are unknown ids: letter case, truncation, padding, prefix / suffix
		for _, v := range cs.Ops {
			if !v.Pub || i%4 != 0 {
				continue
			}
			ref := Ref(v.T, v.N)
			for _, bad := range []string{strings.ToUpper(ref), strings.Title(ref), ref[:len(ref)-1], ref[1:], ref + " ", " " + ref, ref + "0", "x" + ref} {
				localCuts++
				if got, _, err := e.Resolve(cs.Ops, document.WithVersionID(bad)); err == nil {
					c.Violation("near-miss-version-id-accepted", map[string]interface{}{"store": e.Describe(cs.Ops), "version_id": bad, "known_version_id": ref, "observed": got})
				}
			}
			break // one operation per store is enough: the ids have one format
		}
		// a version id together with a version time: an error, or the state both cuts allow - never one of them ignored
		if i%4 == 2 {
			for _, v := range cs.Ops {
				if !v.Pub || v.T < 1 {
					continue
				}
				T := v.T - 1
				var trunc []AnchOp
				for _, a := range cs.Ops {
					if a.Pub && a.T <= T && (a.T < v.T || (a.T == v.T && a.N <= v.N)) {
						trunc = append(trunc, a)
					}
				}
				localCuts++
				got, _, err := e.Resolve(cs.Ops, document.WithVersionID(Ref(v.T, v.N)), document.WithVersionTime(rfc3339(T)))
				if err == nil {
					if want, _, _ := e.Resolve(trunc); len(trunc) == 0 || !got.Equal(want) {
						c.Violation("version-time-ignored-when-version-id-given", map[string]interface{}{"store": e.Describe(cs.Ops), "version_id": Ref(v.T, v.N), "version_time": T,
							"observed": got, "note": "the operation named by the version id is anchored after the version time, yet it is part of the result"})
					}
				}
				break
			}
		}
		// a version time before 1970 is before every operation
		if i%4 == 1 {
			for _, vt := range []string{"1969-12-31T23:59:59Z", "0001-01-01T00:00:00Z", "1970-01-01T00:00:00+01:00"} {
				localCuts++
				if got, _, err := e.Resolve(cs.Ops, document.WithVersionTime(vt)); err == nil {
					c.Violation("version-time-before-epoch-resolves", map[string]interface{}{"store": e.Describe(cs.Ops), "version_time": vt, "observed": got})
				}
			}
		}
		// unknown version id must be an error
		localCuts++
		if got, _, err := e.Resolve(cs.Ops, document.WithVersionID("ref-unknown")); err == nil {
			c.Violation("unknown-version-id-accepted", map[string]interface{}{"store": e.Describe(cs.Ops), "observed": got})
		}
		mu.Lock()
		cuts += localCuts
		nt += localNt
		mu.Unlock()
		if i%4000 == 9 {
			c.AddSample(map[string]interface{}{"ops": cs.Ops, "cuts_checked": localCuts})
		}
	}, hangReporter(c, func(i int) interface{} { return e.Describe(cases[i].Ops) }))
	return cuts, nt, int64(len(cases))
}
