package props

import (
	"encoding/json"
	"fmt"
	"sync"
	"sync/atomic"
	"time"

	"sidever/internal/concr"
	"sidever/internal/ev"
	"sidever/internal/tlc"
)

// resRun is one TLC run of a Resolution configuration.
type resRun struct {
	Alpha []concr.Shape
	Cases []ResCase
	TLC   *tlc.Result
}

func runResolutionTLC(c *ev.Ctx, module, cfg string, timeout time.Duration) *resRun {
	r, err := tlc.Run(tlc.Opts{SpecDir: specDir(), Module: module, Config: cfg, WorkDir: c.Work, Timeout: timeout})
	if err != nil {
		ev.Fatal("TLC %s/%s: %v", module, cfg, err)
	}
	if r.InvariantViolated != "" {
		// A design-level invariant failure of the specification alone is not a verdict about the code (DESIGN 2.5).
		ev.Fatal("specification invariant violated in %s/%s: %s\n%s", module, cfg, r.InvariantViolated, r.Output)
	}
	out := &resRun{TLC: r}
	al := r.Tagged["ALPHA"]
	if len(al) == 0 {
		ev.Fatal("TLC %s/%s emitted no alphabet", module, cfg)
	}
	if err := json.Unmarshal(al[0], &out.Alpha); err != nil {
		ev.Fatal("alphabet: %v", err)
	}
	out.Cases = make([]ResCase, len(r.Cases))
	for i, raw := range r.Cases {
		if err := json.Unmarshal(raw, &out.Cases[i]); err != nil {
			ev.Fatal("case %d: %v", i, err)
		}
		if out.Cases[i].Res.Doc == nil {
			out.Cases[i].Res.Doc = []int{}
		}
		out.Cases[i].Res.Ao = out.Cases[i].Ao
	}
	if int64(len(out.Cases)) != r.Distinct {
		ev.Fatal("TLC %s/%s: %d distinct states but %d emitted cases", module, cfg, r.Distinct, len(out.Cases))
	}
	r.Cases = nil
	c.Cov.States += r.Distinct
	c.Cov.Transitions += r.Generated
	if c.Cov.CheckerCmd == "" {
		c.Cov.CheckerCmd = r.Cmd
	} else {
		c.Cov.CheckerCmd += " ; " + r.Cmd
	}
	return out
}

// classify gives the violation class of a spec/real disagreement: which observable differs and the shape types involved.
func classify(prefix string, e *Engine, ops []AnchOp, want, got View) string {
	diff := ""
	switch {
	case want.Exists != got.Exists:
		diff = "exists"
	case want.Deact != got.Deact:
		diff = "deactivated"
	case want.Rc != got.Rc:
		diff = "recovery-commitment"
	case want.Uc != got.Uc:
		diff = "update-commitment"
	case want.Ao != nil && got.Ao != nil && *want.Ao != *got.Ao && fmt.Sprint(want.Doc) == fmt.Sprint(got.Doc):
		diff = "anchor-origin"
	default:
		diff = "document"
	}
	return prefix + ":" + diff
}

// compareWithSpec replays every case and compares the real view with the specification's.
func compareWithSpec(c *ev.Ctx, e *Engine, cases []ResCase, label string, nontrivial func(*ResCase) bool) {
	var replayed, nt int64
	var mu sync.Mutex
	ParallelCases(len(cases), 30*time.Second, func(i int) {
		cs := &cases[i]
		got, _, _ := e.Resolve(cs.Ops)
		atomic.AddInt64(&replayed, 1)
		if nontrivial(cs) {
			atomic.AddInt64(&nt, 1)
		}
		if !got.Equal(cs.Res) {
			c.Violation(classify(label, e, cs.Ops, cs.Res, got), map[string]interface{}{
				"store": e.Describe(cs.Ops), "expected": cs.Res, "observed": got, "key_type": e.Keys.ByID[1].Type.String(), "hash": e.Keys.Hash})
		}
		if i%20000 == 7 {
			mu.Lock()
			c.AddSample(map[string]interface{}{"ops": cs.Ops, "spec_result": cs.Res, "real_result": got})
			mu.Unlock()
		}
	}, hangReporter(c, func(i int) interface{} {
		return map[string]interface{}{"store": e.Describe(cases[i].Ops), "note": "real Resolve did not return within 30 s"}
	}))
	c.Cov.TracesValidatedAgainstImpl += replayed
	c.Cov.Evaluations += replayed
	c.Cov.DistinctNontrivial += nt
}

func mustEngine(alpha []concr.Shape, kt concr.KeyType, hash uint) *Engine {
	e, err := NewEngine(alpha, kt, hash)
	if err != nil {
		ev.Fatal("engine: %v", err)
	}
	return e
}

func tierCfg(c *ev.Ctx, module string) string {
	return fmt.Sprintf("%s_%s.cfg", module, c.Tier)
}
