package props

import (
	"crypto/ecdsa"
	"encoding/base64"
	"encoding/json"
	"fmt"
	"math/big"
	"sort"
	"strings"
	"sync"
	"time"

	"github.com/trustbloc/sidetree-core-go/pkg/jws"
	"github.com/trustbloc/sidetree-core-go/pkg/util/pubkey"
	"github.com/trustbloc/sidetree-core-go/pkg/verifhooks/jwsx"

	"sidever/internal/concr"
	"sidever/internal/ev"
	"sidever/internal/tlc"
)

type jwsCase struct {
	C struct {
		Kt      int    `json:"kt"`
		Sig     string `json:"sig"`
		Hdr     string `json:"hdr"`
		Payload string `json:"payload"`
		Key     string `json:"key"`
	} `json:"c"`
	Out string `json:"out"`
}

type jwsKey struct {
	priv   interface{}
	jwk    *jws.JWK
	signer concr.Signer
}

func newJWSKey(kt concr.KeyType) jwsKey { return newJWSKeyShort(kt, "") }

// newJWSKeyShort: a key whose x / y coordinate has a leading zero byte (fixed-width JWK encoding matters).
func newJWSKeyShort(kt concr.KeyType, coord string) jwsKey {
	priv, pub, signer, err := concr.NewKeyPairShort(kt, coord)
	if err != nil {
		ev.Fatal("key: %v", err)
	}
	j, err := pubkey.GetPublicKeyJWK(pub)
	if err != nil {
		ev.Fatal("jwk: %v", err)
	}
	return jwsKey{priv, j, signer}
}

func b64d(s string) []byte {
	b, err := base64.RawURLEncoding.DecodeString(s)
	if err != nil {
		panic(err)
	}
	return b
}

func b64e(b []byte) string { return base64.RawURLEncoding.EncodeToString(b) }

// verify runs the real VerifyJWS under panic capture: "accept", "reject" or "panic".
func verifyJWS(compact string, jwk *jws.JWK) (res string, msg string) {
	defer func() {
		if r := recover(); r != nil {
			res, msg = "panic", fmt.Sprint(r)
		}
	}()
	_, err := jwsx.VerifyJWS(compact, jwk)
	if err != nil {
		return "reject", err.Error()
	}
	return "accept", ""
}

// C09: the real VerifyJWS accepts exactly what Jws.tla says the given key signed, for all five key types; malformed
// compact strings and JWKs are errors, never panics, never acceptance.
func C09(c *ev.Ctx) {
	r, err := tlc.Run(tlc.Opts{SpecDir: specDir(), Module: "Jws", Config: "Jws_" + c.Tier + ".cfg", WorkDir: c.Work, Timeout: 10 * time.Minute})
	if err != nil {
		ev.Fatal("TLC Jws: %v", err)
	}
	if r.InvariantViolated != "" {
		ev.Fatal("Jws.tla invariant violated: %s", r.InvariantViolated)
	}
	c.Cov.States, c.Cov.Transitions, c.Cov.CheckerCmd = r.Distinct, r.Generated, r.Cmd
	cases := make([]jwsCase, len(r.Cases))
	for i, raw := range r.Cases {
		if err := json.Unmarshal(raw, &cases[i]); err != nil {
			ev.Fatal("case: %v", err)
		}
	}
	step := 5 // every 5th byte position in the quick tier
	if c.Tier == "thorough" {
		step = 1
	}
	// per key type: signer key, another key of the same type, a key of another type
	type kit struct {
		signer, same, other jwsKey
		genuine             string
		hdr, payload, sig   []byte
	}
	payload := []byte(`{"deltaHash":"EiCfDWRnYlcD9EGA3d_5Z1AHu-iYqMbJ9nfiqdz5S8VDbg","updateKey":{"crv":"P-256","kty":"EC","x":"a","y":"b"}}`)
	kits := map[int]*kit{}
	for _, kt := range concr.KeyTypes {
		k := &kit{signer: newJWSKeyShort(kt, []string{"x", "y", ""}[int(c.Seed+int64(kt))%3]), same: newJWSKeyShort(kt, "y"), other: newJWSKey(concr.KeyTypes[(int(kt)+1)%5])}
		compact, err := jwsx.SignPayload(payload, k.signer.signer) // the library's own signing utility
		if err != nil {
			ev.Fatal("sign: %v", err)
		}
		k.genuine = compact
		parts := strings.Split(compact, ".")
		k.hdr, k.payload, k.sig = b64d(parts[0]), b64d(parts[1]), b64d(parts[2])
		if res, msg := verifyJWS(compact, k.signer.jwk); res != "accept" {
			c.Violation("genuine-signature-rejected:"+kt.String(), map[string]interface{}{"jws": compact, "jwk": k.signer.jwk, "message": msg})
		}
		// the harness's independent signer must agree with the library's (both directions of C09's first sentence)
		own, _ := concr.SignCompact(payload, k.signer.signer)
		if res, msg := verifyJWS(own, k.signer.jwk); res != "accept" {
			c.Violation("independently-built-jws-rejected:"+kt.String(), map[string]interface{}{"jws": own, "message": msg})
		}
		kits[int(kt)] = k
	}
	var mu sync.Mutex
	var calls, nt int64
	ParallelCases(len(cases), 120*time.Second, func(i int) {
		cs := &cases[i]
		k := kits[cs.C.Kt]
		kt := concr.KeyTypes[cs.C.Kt]
		// variants of each segment (expanded over byte positions where the class is positional)
		hdrs := [][]byte{k.hdr}
		switch cs.C.Hdr {
		case "algChanged":
			hdrs = [][]byte{[]byte(strings.Replace(string(k.hdr), kt.Alg(), concr.KeyTypes[(cs.C.Kt+1)%5].Alg(), 1))}
			for p := 0; p < len(k.hdr); p += step { // any byte change that still parses
				m := append([]byte{}, k.hdr...)
				m[p] ^= 0x01
				var probe map[string]interface{}
				if json.Unmarshal(m, &probe) == nil {
					if a, ok := probe["alg"]; ok && len(probe) >= 1 {
						orig := map[string]interface{}{}
						_ = json.Unmarshal(k.hdr, &orig)
						if fmt.Sprint(probe) != fmt.Sprint(orig) && a != nil {
							hdrs = append(hdrs, m)
						}
					}
				}
			}
		case "memberAdded":
			hdrs = [][]byte{[]byte(strings.Replace(string(k.hdr), "{", `{"kid":"k1",`, 1)), []byte(strings.Replace(string(k.hdr), "}", `,"typ":"JWT"}`, 1))}
		case "whitespaceOnly":
			hdrs = [][]byte{[]byte(strings.Replace(string(k.hdr), ":", ": ", 1)), append([]byte(" "), k.hdr...)}
		}
		pls := [][]byte{k.payload}
		switch cs.C.Payload {
		case "byteChanged":
			pls = nil
			for p := 0; p < len(k.payload); p += step {
				m := append([]byte{}, k.payload...)
				m[p] ^= 0x20
				pls = append(pls, m)
			}
		case "byteAppended":
			pls = [][]byte{append(append([]byte{}, k.payload...), ' '), append(append([]byte{}, k.payload...), 0)}
		}
		sigs := [][]byte{k.sig}
		switch cs.C.Sig {
		case "twin":
			sigs = [][]byte{ecdsaTwin(k.signer.priv, k.sig)}
		case "flippedByte":
			sigs = nil
			for p := 0; p < len(k.sig); p += step {
				m := append([]byte{}, k.sig...)
				m[p] ^= 0x01
				sigs = append(sigs, m)
			}
		case "truncated":
			sigs = [][]byte{k.sig[:len(k.sig)-1], k.sig[1:], k.sig[:len(k.sig)/2]}
		case "extended":
			sigs = [][]byte{append(append([]byte{}, k.sig...), 0), append([]byte{0}, k.sig...)}
		case "resizedHalves":
			// wrongly sized although numerically the same (r, s): both halves zero-padded on the left / on the right,
			// or only one of them; and the signature doubled
			half := len(k.sig) / 2
			sigs = nil
			for _, n := range []int{1, 2, 6, half} {
				z := make([]byte, n)
				r, ss := k.sig[:half], k.sig[half:]
				cat := func(parts ...[]byte) []byte {
					var o []byte
					for _, x := range parts {
						o = append(o, x...)
					}
					return o
				}
				sigs = append(sigs, cat(z, r, z, ss), cat(r, z, ss, z), cat(z, r, ss), cat(r, z, ss), cat(z, z, r, ss))
			}
			sigs = append(sigs, append(append([]byte{}, k.sig...), k.sig...))
		case "empty":
			sigs = [][]byte{{}}
		case "zeroes":
			sigs = [][]byte{make([]byte, len(k.sig))}
		case "otherKeySameType":
			s, _ := concr.SignCompact(payload, k.same.signer)
			sigs = [][]byte{b64d(strings.Split(s, ".")[2])}
		case "otherKeyOtherType":
			s, _ := concr.SignCompact(payload, k.other.signer)
			sigs = [][]byte{b64d(strings.Split(s, ".")[2])}
		}
		key := k.signer.jwk
		switch cs.C.Key {
		case "otherSameType":
			key = k.same.jwk
		case "otherType":
			key = k.other.jwk
		}
		local := int64(0)
		for _, h := range hdrs {
			for _, p := range pls {
				for _, s := range sigs {
					compact := b64e(h) + "." + b64e(p) + "." + b64e(s)
					res, msg := verifyJWS(compact, key)
					local++
					bad := ""
					switch {
					case res == "panic":
						bad = "verify-panics"
					case cs.Out == "accept" && res != "accept":
						bad = "rejects-what-the-key-signed"
					case cs.Out == "reject" && res == "accept":
						bad = "accepts-what-the-key-did-not-sign"
					}
					if bad != "" {
						c.Violation(fmt.Sprintf("jws:%s:%s:sig=%s:hdr=%s:payload=%s:key=%s", bad, kt, cs.C.Sig, cs.C.Hdr, cs.C.Payload, cs.C.Key),
							map[string]interface{}{"case": cs.C, "jws": compact, "jwk": key, "expected": cs.Out, "observed": res, "message": msg})
					}
				}
			}
		}
		mu.Lock()
		calls += local
		if cs.Out != "accept" {
			nt++
		}
		mu.Unlock()
		if i%200 == 9 {
			c.AddSample(map[string]interface{}{"case": cs.C, "expected": cs.Out, "variants": local})
		}
	}, func(int) {})
	// malformed compact strings and JWKs
	var mal struct {
		Compact  []string `json:"compact"`
		JWK      []string `json:"jwk"`
		Payloads []string `json:"payloads"`
	}
	if len(r.Tagged["MALFORMED"]) == 0 || json.Unmarshal(r.Tagged["MALFORMED"][0], &mal) != nil {
		ev.Fatal("no malformed classes emitted")
	}
	for _, kt := range concr.KeyTypes {
		k := kits[int(kt)]
		parts := strings.Split(k.genuine, ".")
		for _, cls := range mal.Compact {
			for _, s := range malformedCompact(cls, parts, kt, k.signer.signer) {
				res, msg := verifyJWS(s, k.signer.jwk)
				calls++
				if res != "reject" {
					c.Violation("jws:malformed-compact-"+res+":"+cls, map[string]interface{}{"jws": s, "key_type": kt.String(), "message": msg})
				}
				func() {
					defer func() {
						if rr := recover(); rr != nil {
							c.Violation("jws:parse-panics:"+cls, map[string]interface{}{"jws": s, "panic": fmt.Sprint(rr)})
						}
					}()
					_, _ = jwsx.ParseJWS(s)
				}()
			}
		}
		for _, cls := range mal.JWK {
			for _, j := range malformedJWK(cls, k.signer.jwk, kt) {
				res, msg := verifyJWS(k.genuine, j)
				calls++
				if res != "reject" {
					c.Violation("jws:malformed-jwk-"+res+":"+cls+":"+kt.String(), map[string]interface{}{"jwk": j, "key_type": kt.String(), "message": msg})
				}
			}
		}
		nt += int64(len(mal.Compact) + len(mal.JWK))
		// the library's own signing utility: whatever it agrees to sign verifies under the matching key
		for _, pc := range mal.Payloads {
			payload := map[string][]byte{"empty": {}, "oneByte": {'x'}, "json": []byte(`{"a":[1,2,3]}`), "binary": {0, 255, 10, 13, 46, 0}}[pc]
			signed, serr := jwsx.SignPayload(payload, k.signer.signer)
			calls++
			if serr != nil {
				if pc != "empty" {
					c.Violation("jws:signing-utility-refuses-payload:"+pc+":"+kt.String(), map[string]interface{}{"payload": payload, "error": serr.Error()})
				}
				continue
			}
			if res, msg := verifyJWS(signed, k.signer.jwk); res != "accept" {
				c.Violation("jws:signed-by-the-library-but-not-verifiable:"+pc+"-payload", map[string]interface{}{"jws": signed, "key_type": kt.String(), "observed": res, "message": msg})
			}
		}
	}
	c.Cov.TracesValidatedAgainstImpl = calls
	c.Cov.Evaluations = calls
	c.Cov.DistinctNontrivial = nt
	c.Cov.Exhaustive = true
	c.Cov.Rule = "5 key types x 10 signature forms (genuine, ECDSA twin, flipped byte, truncated, extended, halves resized by zero padding, empty, all-zero, signature by another key of the same / another type) x header tamper (none, alg changed / any value-changing byte flip, member added, whitespace only) x payload tamper (none, byte changed, byte appended) x verification key (signer, other of same type, other type); positional classes are expanded over byte positions (quick: every 5th, thorough: all); each resulting compact JWS goes through the real VerifyJWS (tag-verif re-export) under panic capture; plus what the library's signing utility returns for empty / one-byte / JSON / binary payloads, malformed compact strings (18 classes, incl. alg members that are no strings, line breaks and stray bits in base64url segments) and JWKs (12 classes) per key type. Non-trivial: every case not expected to be accepted."
	c.Assume = append(c.Assume, "cryptographic primitives (crypto/ecdsa, ed25519, btcec) are trusted; the ECDSA twin (r, n-s) may be accepted or rejected")
	c.Finish("model_checking")
}

func ecdsaTwin(priv interface{}, sig []byte) []byte {
	sk, ok := priv.(*ecdsa.PrivateKey)
	if !ok {
		return sig
	}
	n := sk.Curve.Params().N
	half := len(sig) / 2
	s := new(big.Int).SetBytes(sig[half:])
	s2 := new(big.Int).Sub(n, s)
	out := append([]byte{}, sig[:half]...)
	sb := s2.Bytes()
	pad := make([]byte, half-len(sb))
	return append(append(out, pad...), sb...)
}

// malformedCompact realises a malformed-compact class.  For the header classes every variant comes twice: with the
// genuine signature of the original header, and genuinely re-signed over the malformed header - so that only the header
// rule itself can be the reason for the rejection.
func malformedCompact(cls string, parts []string, kt concr.KeyType, signer concr.Signer) []string {
	out := malformedCompact0(cls, parts, kt)
	if signer == nil || !strings.HasPrefix(cls, "header") && cls != "b64NotBoolean" {
		return out
	}
	for _, v := range out {
		seg := strings.Split(v, ".")
		if len(seg) != 3 {
			continue
		}
		if sig, err := signer.Sign([]byte(seg[0] + "." + seg[1])); err == nil {
			out = append(out, seg[0]+"."+seg[1]+"."+b64e(sig))
		}
	}
	return out
}

func malformedCompact0(cls string, parts []string, kt concr.KeyType) []string {
	h, p, s := parts[0], parts[1], parts[2]
	hdr := func(j string) string { return b64e([]byte(j)) }
	switch cls {
	case "twoParts":
		return []string{h + "." + p, h + "." + s}
	case "fourParts":
		return []string{h + "." + p + "." + s + "." + s, h + "." + p + "." + s + "."}
	case "badB64Header":
		return []string{"***." + p + "." + s, h + "=." + p + "." + s}
	case "badB64Payload":
		return []string{h + ".***." + s, h + "." + p + "=." + s}
	case "badB64Signature":
		return []string{h + "." + p + ".***", h + "." + p + "." + s + "="}
	case "headerNotJson":
		return []string{hdr("not json") + "." + p + "." + s, hdr(`{"alg":`) + "." + p + "." + s}
	case "headerArray":
		return []string{hdr(`["alg"]`) + "." + p + "." + s, hdr(`"alg"`) + "." + p + "." + s, hdr(`7`) + "." + p + "." + s}
	case "headerNull":
		return []string{hdr(`null`) + "." + p + "." + s}
	case "headerNoAlg":
		return []string{hdr(`{}`) + "." + p + "." + s, hdr(`{"kid":"x"}`) + "." + p + "." + s}
	case "b64NotBoolean":
		var out []string
		for _, v := range []string{`"yes"`, `"true"`, `1`, `0`, `null`, `[]`, `[true]`, `{}`, `""`} {
			out = append(out, hdr(fmt.Sprintf(`{"alg":%q,"b64":%s}`, kt.Alg(), v))+"."+p+"."+s)
		}
		return out
	case "headerAlgNotAString":
		var out []string
		for _, v := range []string{`null`, `""`, `0`, `false`, `[]`, `{}`, `["` + kt.Alg() + `"]`} {
			out = append(out, hdr(`{"alg":`+v+`}`)+"."+p+"."+s, hdr(`{"alg":`+v+`,"kid":"key-1"}`)+"."+p+"."+s)
		}
		return out
	case "lineBreakInSegment":
		mid := func(x string) string { return x[:len(x)/2] + "\n" + x[len(x)/2:] }
		return []string{h + "." + p + "." + mid(s), h + "." + mid(p) + "." + s, mid(h) + "." + p + "." + s, h + "\n." + p + "." + s, h + "." + p + "\r\n." + s,
			h + "." + p + "." + s + "\n", h + "." + p + "." + s + "\r\n", "\n" + h + "." + p + "." + s, h + "." + p[:4] + "\r\n" + p[4:] + "." + s}
	case "strayBitsInSegment":
		// the last character of a segment carries 2 or 4 bits that belong to no byte; set, they change nothing that is decoded
		var out []string
		for i, seg := range []string{h, p, s} {
			if v := strayBits(seg); v != seg && i > 0 {
				x := []string{h, p, s}
				x[i] = v
				out = append(out, strings.Join(x, "."))
			}
		}
		return out
	case "strayBitsInHeaderSegment":
		if v := strayBits(h); v != h {
			return []string{v + "." + p + "." + s}
		}
		return nil
	case "emptyPayload":
		return []string{h + ".." + s}
	case "emptySignature":
		return []string{h + "." + p + "."}
	case "jsonSerialization":
		return []string{`{"payload":"` + p + `","protected":"` + h + `","signature":"` + s + `"}`}
	case "emptyString":
		return []string{"", " "}
	case "onlyDots":
		return []string{"..", ".", "..."}
	}
	return nil
}

// strayBits sets the unused low bits of the last base64url character (returns s itself when there are none).
func strayBits(s string) string {
	const abc = "ABCDEFGHIJKLMNOPQRSTUVWXYZabcdefghijklmnopqrstuvwxyz0123456789-_"
	if len(s) == 0 || len(s)%4 == 0 || len(s)%4 == 1 {
		return s
	}
	i := strings.IndexByte(abc, s[len(s)-1])
	if i < 0 {
		return s
	}
	mask := 0x0f // len%4 == 2: 4 unused bits
	if len(s)%4 == 3 {
		mask = 0x03
	}
	return s[:len(s)-1] + string(abc[i|mask])
}

func malformedJWK(cls string, good *jws.JWK, kt concr.KeyType) []*jws.JWK {
	cp := func() *jws.JWK { j := *good; return &j }
	x := b64d(good.X)
	switch cls {
	case "unknownKty":
		a, b := cp(), cp()
		a.Kty, b.Kty = "RSA", "oct"
		return []*jws.JWK{a, b}
	case "unknownCrv":
		a, b := cp(), cp()
		a.Crv, b.Crv = "P-257", "brainpoolP256r1"
		return []*jws.JWK{a, b}
	case "missingX":
		a := cp()
		a.X = ""
		return []*jws.JWK{a}
	case "shortX":
		a := cp()
		a.X = b64e(x[:len(x)-1])
		return []*jws.JWK{a}
	case "longX":
		a := cp()
		a.X = b64e(append(append([]byte{}, x...), 1))
		return []*jws.JWK{a}
	case "zeroPaddedX": // same number, wrong coordinate length
		var out []*jws.JWK
		for _, n := range []int{1, 2, 8} {
			a := cp()
			a.X = b64e(append(make([]byte, n), x...))
			out = append(out, a)
		}
		return out
	case "zeroPaddedY":
		if kt == concr.Ed25519 {
			return nil
		}
		var out []*jws.JWK
		for _, n := range []int{1, 2, 8} {
			a := cp()
			a.Y = b64e(append(make([]byte, n), b64d(good.Y)...))
			out = append(out, a)
		}
		return out
	case "strippedY": // a coordinate with a leading zero byte, presented without it
		if kt == concr.Ed25519 {
			return nil
		}
		for tries := 0; tries < 4000; tries++ {
			k := newJWSKey(kt)
			y := b64d(k.jwk.Y)
			if y[0] == 0 {
				a := *k.jwk
				a.Y = b64e(y[1:])
				return []*jws.JWK{&a}
			}
		}
		return nil
	case "offCurve":
		if kt == concr.Ed25519 {
			return nil
		}
		a := cp()
		y := b64d(good.Y)
		y[len(y)-1] ^= 0x01
		a.Y = b64e(y)
		return []*jws.JWK{a}
	case "badB64X":
		a := cp()
		a.X = "***"
		return []*jws.JWK{a}
	case "ktyLetterCase", "crvLetterCase":
		var out []*jws.JWK
		variants := func(v string) []string {
			set := map[string]bool{}
			for _, x := range []string{strings.ToUpper(v), strings.ToLower(v), strings.ToUpper(v[:1]) + strings.ToLower(v[1:]), v[:len(v)-1] + strings.ToUpper(v[len(v)-1:]),
				strings.ToLower(v[:1]) + v[1:]} {
				if x != v {
					set[x] = true
				}
			}
			var l []string
			for x := range set {
				l = append(l, x)
			}
			sort.Strings(l)
			return l
		}
		if cls == "ktyLetterCase" {
			for _, v := range variants(good.Kty) {
				a := cp()
				a.Kty = v
				out = append(out, a)
			}
		} else {
			for _, v := range variants(good.Crv) {
				a := cp()
				a.Crv = v
				out = append(out, a)
			}
		}
		return out
	case "ktyCrvMismatch":
		a := cp()
		if kt == concr.Ed25519 {
			a.Kty = "EC"
		} else {
			a.Kty = "OKP"
		}
		return []*jws.JWK{a}
	case "emptyFields":
		return []*jws.JWK{{}, {Kty: good.Kty}, {Kty: good.Kty, Crv: good.Crv}}
	case "missingY":
		if kt == concr.Ed25519 {
			return nil
		}
		a := cp()
		a.Y = ""
		return []*jws.JWK{a}
	case "yOnOKP":
		if kt != concr.Ed25519 {
			return nil
		}
		a := cp()
		a.Y = good.X
		a.Crv = "P-256"
		return []*jws.JWK{a}
	case "zeroPoint":
		a := cp()
		a.X = b64e(make([]byte, len(x)))
		if good.Y != "" {
			a.Y = b64e(make([]byte, len(b64d(good.Y))))
		}
		return []*jws.JWK{a}
	}
	return nil
}
