package props

import (
	"fmt"
	"math/rand"
	"strings"
	"sync"
	"sync/atomic"
	"time"

	"github.com/trustbloc/sidetree-core-go/pkg/batch"

	"sidever/internal/ev"
	"sidever/internal/tlc"
	"sidever/internal/wr"
)

const c16MaxCount = 3

var currentRig atomic.Value // *wr.Rig, read by the tick hook

func init() {
	batch.VerifTickHook = func(force bool) {
		if r, ok := currentRig.Load().(*wr.Rig); ok && r != nil {
			r.Tick(force)
		}
	}
}

// concurrentRun starts a REAL batch.Writer (own goroutine, real tickers) and adds operations from several
// goroutines while CAS / anchor faults are injected at random; then faults stop and the run waits for rest.
func concurrentRun(c *ev.Ctx, f *wr.Factory, rng *rand.Rand, nDID, adders, perAdder int) (*wr.Rig, bool) {
	rig := wr.NewRig([]uint64{0, 5}, c16MaxCount)
	currentRig.Store(rig)
	var faultsOn int32 = 1
	var frng = rand.New(rand.NewSource(rng.Int63()))
	var fmu sync.Mutex
	rig.Gate = func(kind string) bool {
		if kind != "Cas" && kind != "Anchor" {
			return false
		}
		if atomic.LoadInt32(&faultsOn) == 0 {
			return false
		}
		fmu.Lock()
		defer fmu.Unlock()
		return frng.Intn(100) < 12
	}
	type planned struct {
		m *wr.OpMeta
	}
	plans := make([][]planned, adders)
	createdDID := map[int]bool{}
	for a := 0; a < adders; a++ {
		for k := 0; k < perAdder; k++ {
			d := 1 + rng.Intn(nDID)
			kind := "U"
			if !createdDID[d] {
				kind = "C"
				createdDID[d] = true
			} else if rng.Intn(10) == 0 {
				kind = "D"
			}
			expired := kind != "C" && rng.Intn(8) == 0
			ver := uint64(0)
			if rng.Intn(3) == 0 {
				ver = 5
			}
			q, err := f.Op(d, kind, expired)
			if err != nil {
				ev.Fatal("op factory: %v", err)
			}
			plans[a] = append(plans[a], planned{rig.Register(q, d, ver, expired)})
		}
	}
	w, err := batch.New("did:sidetree", rig, batch.WithBatchTimeout(6*time.Millisecond), batch.WithMonitorInterval(2*time.Millisecond))
	if err != nil {
		ev.Fatal("batch.New: %v", err)
	}
	w.Start()
	var wg sync.WaitGroup
	for a := 0; a < adders; a++ {
		wg.Add(1)
		seed := rng.Int63()
		go func(a int, seed int64) {
			defer wg.Done()
			lr := rand.New(rand.NewSource(seed))
			for _, p := range plans[a] {
				if err := w.Add(p.m.Q, p.m.Ver); err != nil {
					ev.Fatal("writer.Add: %v", err)
				}
				if lr.Intn(3) == 0 {
					time.Sleep(time.Duration(lr.Intn(1500)) * time.Microsecond)
				}
			}
		}(a, seed)
	}
	wg.Wait()
	time.Sleep(5 * time.Millisecond)
	atomic.StoreInt32(&faultsOn, 0)
	deadline := time.Now().Add(4 * time.Second)
	rest := false
	for time.Now().Before(deadline) {
		if rig.AtRest() {
			rest = true
			break
		}
		time.Sleep(2 * time.Millisecond)
	}
	w.Stop()
	time.Sleep(15 * time.Millisecond) // let the writer goroutine leave its last round
	return rig, rest
}

// validateWriterTraces runs TLC on the concatenated traces; returns (accepted, consumed events, output).
func validateWriterTraces(c *ev.Ctx, ndjson string, total int) (*tlc.Result, bool) {
	return validateWriterTracesCfg(c, ndjson, "WriterPropTrace.cfg")
}

func validateWriterTracesCfg(c *ev.Ctx, ndjson string, cfg string) (*tlc.Result, bool) {
	r, err := tlc.Run(tlc.Opts{SpecDir: specDir(), Module: "WriterPropTrace", Config: cfg, WorkDir: c.Work, Workers: 1,
		Timeout: 20 * time.Minute, ExtraFiles: map[string]string{"writer_trace.ndjson": ndjson}, JavaOpts: "-Dtlc2.tool.queue.IStateQueue=StateDeque"})
	if err != nil {
		// a violated POSTCONDITION makes TLC exit non-zero: distinguish it from machinery failures
		if r != nil && (strings.Contains(r.Output, "TraceAccepted") || strings.Contains(r.Output, "ostcondition")) {
			return r, false
		}
		ev.Fatal("TLC trace validation: %v", err)
	}
	if r.InvariantViolated != "" {
		return r, false
	}
	return r, true
}

// C16: traces of real writer runs (truly concurrent and schedule-driven) must be behaviours of WriterProp.
func C16(c *ev.Ctx) {
	c16Design(c)
	c16Driven(c)
	runs := 40
	if c.Tier == "thorough" {
		runs = 1500
	}
	rng := rand.New(rand.NewSource(c.Seed*7919 + 17))
	f, err := wr.NewFactory(6, KeyTypeForSeed(c.Seed))
	if err != nil {
		ev.Fatal("factory: %v", err)
	}
	var all strings.Builder
	total := 0
	var infos []runInfo
	for i := 0; i < runs; i++ {
		rig, rest := concurrentRun(c, f, rng, 3+rng.Intn(3), 2+rng.Intn(4), 4+rng.Intn(5))
		evs := rig.Snapshot()
		start := total
		all.WriteString(rig.NDJSON())
		all.WriteString(`{"ev":"Reset"}` + "\n")
		total += len(evs) + 1
		infos = append(infos, runInfo{start, total, rest})
		if !rest {
			c.Note("concurrent run %d did not come to rest within 4 s of fault-free rounds; remaining runs skipped", i)
			runs = i + 1
			break
		}
		if i < 2 {
			n := len(evs)
			if n > 25 {
				n = 25
			}
			c.AddSample(map[string]interface{}{"kind": "concurrent real run (first events)", "events": evs[:n], "total_events": len(evs)})
		}
	}
	res, ok := validateWriterTraces(c, all.String(), total)
	c.Cov.States += res.Distinct
	c.Cov.Transitions += res.Generated
	c.Cov.CheckerCmd = res.Cmd
	c.Cov.TracesValidatedAgainstImpl += int64(runs)
	c.Cov.Evaluations += int64(total)
	c.Cov.DistinctNontrivial += int64(runs)
	if !ok {
		// locate the failing run by bisection on prefixes of whole runs
		bad := locateBadRun(c, all.String(), infos2bounds(infos))
		lines := strings.Split(all.String(), "\n")
		var tr []string
		if bad >= 0 {
			tr = lines[infos[bad].start:infos[bad].end]
		}
		c.Violation("real-writer-trace-rejected", map[string]interface{}{"run": bad, "trace": tr, "tlc": lastN(res.Output, 30),
			"note": "the recorded execution of the real batch writer is not a behaviour of WriterProp (FIFO prefix cut, batch bounds, conservation, nack to head, at rest after fault-free rounds)"})
	}
	c.Cov.Rule = "each trace is one run of the real batch.Writer (Start()ed, real tickers 2 ms / 6 ms) with 2-5 concurrently adding goroutines, two protocol versions (0 and 5), expired operations, repeated suffixes and random CAS / anchor-write failures (12%), followed by fault-free rounds until rest; TLC validates the concatenated NDJSON traces against WriterProp with Conservation, BatchBounds, ExactlyOnceAtRest as invariants."
	c.Cov.Extra["events"] = total
	c.Finish("model_checking")
}

type runInfo struct {
	start, end int
	rest       bool
}

func infos2bounds(infos []runInfo) []int {
	out := make([]int, len(infos))
	for i, x := range infos {
		out[i] = x.end
	}
	return out
}

// locateBadRun finds the first run whose inclusion makes validation fail.
func locateBadRun(c *ev.Ctx, ndjson string, ends []int) int {
	return locateBadRunCfg(c, ndjson, ends, "WriterPropTrace.cfg")
}

func locateBadRunCfg(c *ev.Ctx, ndjson string, ends []int, cfg string) int {
	lines := strings.SplitAfter(ndjson, "\n")
	lo, hi := 0, len(ends)-1 // invariant: prefix up to run hi fails
	for lo < hi {
		mid := (lo + hi) / 2
		_, ok := validateWriterTracesCfg(c, strings.Join(lines[:ends[mid]], ""), cfg)
		if ok {
			lo = mid + 1
		} else {
			hi = mid
		}
	}
	return lo
}

func lastN(s string, n int) string {
	ls := strings.Split(s, "\n")
	if len(ls) > n {
		ls = ls[len(ls)-n:]
	}
	return strings.Join(ls, "\n")
}

var _ = fmt.Sprintf
