package props

import (
	"bytes"
	"context"
	"encoding/json"
	"fmt"
	"math/rand"
	"os"
	"os/exec"
	"sidever/internal/pipe"
	"strings"
	"sync"
	"sync/atomic"
	"time"

	"github.com/trustbloc/sidetree-core-go/pkg/batch"

	"sidever/internal/ev"
	"sidever/internal/tlc"
	"sidever/internal/wr"
)

const c16MaxCount = 3

var currentRig atomic.Value // *wr.Rig, read by the tick hook

func init() {
	batch.VerifTickHook = func(force bool) {
		if r, ok := currentRig.Load().(*wr.Rig); ok && r != nil {
			r.Tick(force)
		}
	}
}

// concurrentRun starts a REAL batch.Writer (own goroutine, real tickers) and adds operations from several
// goroutines while CAS / anchor faults are injected at random; then faults stop and the run waits for rest.
func concurrentRun(c *ev.Ctx, f *wr.Factory, rng *rand.Rand, nDID, adders, perAdder int, maxFirst, maxLater uint) (*wr.Rig, bool) {
	rig := wr.NewRigMax([]uint64{0, 5}, maxFirst, maxLater)
	currentRig.Store(rig)
	var faultsOn int32 = 1
	var frng = rand.New(rand.NewSource(rng.Int63()))
	var fmu sync.Mutex
	rig.Gate = func(kind string) bool {
		if kind != "Cas" && kind != "Anchor" {
			return false
		}
		if atomic.LoadInt32(&faultsOn) == 0 {
			return false
		}
		fmu.Lock()
		defer fmu.Unlock()
		return frng.Intn(100) < 12
	}
	type planned struct {
		m *wr.OpMeta
	}
	plans := make([][]planned, adders)
	createdDID := map[int]bool{}
	for a := 0; a < adders; a++ {
		for k := 0; k < perAdder; k++ {
			d := 1 + rng.Intn(nDID)
			kind := "U"
			if !createdDID[d] {
				kind = "C"
				createdDID[d] = true
			} else if rng.Intn(10) == 0 {
				kind = "D"
			}
			expired := kind != "C" && rng.Intn(8) == 0
			ver := uint64(0)
			if rng.Intn(3) == 0 {
				ver = 5
			}
			q, err := f.Op(d, kind, expired)
			if err != nil {
				ev.Fatal("op factory: %v", err)
			}
			plans[a] = append(plans[a], planned{rig.Register(q, d, ver, expired)})
		}
	}
	w, err := batch.New("did:sidetree", rig, batch.WithBatchTimeout(6*time.Millisecond), batch.WithMonitorInterval(2*time.Millisecond))
	if err != nil {
		ev.Fatal("batch.New: %v", err)
	}
	w.Start()
	var wg sync.WaitGroup
	for a := 0; a < adders; a++ {
		wg.Add(1)
		seed := rng.Int63()
		go func(a int, seed int64) {
			defer wg.Done()
			lr := rand.New(rand.NewSource(seed))
			for _, p := range plans[a] {
				if err := w.Add(p.m.Q, p.m.Ver); err != nil {
					ev.Fatal("writer.Add: %v", err)
				}
				if lr.Intn(3) == 0 {
					time.Sleep(time.Duration(lr.Intn(1500)) * time.Microsecond)
				}
			}
		}(a, seed)
	}
	wg.Wait()
	time.Sleep(5 * time.Millisecond)
	atomic.StoreInt32(&faultsOn, 0)
	deadline := time.Now().Add(4 * time.Second)
	rest := false
	for time.Now().Before(deadline) {
		if rig.AtRest() {
			rest = true
			break
		}
		time.Sleep(2 * time.Millisecond)
	}
	w.Stop()
	time.Sleep(15 * time.Millisecond) // let the writer goroutine leave its last round
	return rig, rest
}

// validateWriterTraces runs TLC on the concatenated traces; returns (accepted, consumed events, output).
func validateWriterTraces(c *ev.Ctx, ndjson string, total int) (*tlc.Result, bool) {
	return validateWriterTracesCfg(c, ndjson, "WriterPropTrace.cfg")
}

func validateWriterTracesCfg(c *ev.Ctx, ndjson string, cfg string) (*tlc.Result, bool) {
	r, err := tlc.Run(tlc.Opts{SpecDir: specDir(), Module: "WriterPropTrace", Config: cfg, WorkDir: c.Work, Workers: 1,
		Timeout: 20 * time.Minute, ExtraFiles: map[string]string{"writer_trace.ndjson": ndjson}, JavaOpts: "-Dtlc2.tool.queue.IStateQueue=StateDeque"})
	if err != nil {
		// a violated POSTCONDITION makes TLC exit non-zero: distinguish it from machinery failures
		if r != nil && (strings.Contains(r.Output, "TraceAccepted") || strings.Contains(r.Output, "ostcondition")) {
			return r, false
		}
		ev.Fatal("TLC trace validation: %v", err)
	}
	if r.InvariantViolated != "" {
		return r, false
	}
	return r, true
}

// C16: traces of real writer runs (truly concurrent and schedule-driven) must be behaviours of WriterProp.
// writerWithRealHandler: the batch writer over the REAL operation handler and a CAS in which one write of a round fails
// (the first, second, ... fifth file in turn): Pipeline.tla behaviours with FlushFails steps on the wired pipeline.  A
// round in which a write failed anchors nothing and leaves the queue as it was; the next successful round anchors the
// batch - the trace is validated against Pipeline!Flush.
func writerWithRealHandler(c *ev.Ctx) {
	n := 40
	if c.Tier == "thorough" {
		n = 600
	}
	failing := func(h []pipe.Step) bool {
		for _, s := range h {
			if s.A == "FlushFails" {
				return true
			}
		}
		return false
	}
	for _, unpub := range []bool{true, false} {
		cfg := "MC_Pipeline_gen_unpub.cfg"
		if !unpub {
			cfg = "MC_Pipeline_gen_nounpub.cfg"
		}
		// half of the selection: the failing round cuts a batch that holds an update, recover or deactivate (create
		// anchored - and observed - first), so that every kind of file is among the writes that may fail
		rich := func(h []pipe.Step) bool {
			created, anchored, observed, queued := map[int]bool{}, map[int]bool{}, map[int]bool{}, false
			for _, s := range h {
				switch {
				case s.A == "Submit" && s.K == "C":
					created[s.D] = true
				case s.A == "Flush":
					for d := range created {
						anchored[d] = true
					}
					queued = false
				case s.A == "Observe" && s.F == "none":
					for d := range anchored {
						observed[d] = true
					}
				case s.A == "Submit" && (s.K == "U" || s.K == "R" || s.K == "D") && observed[s.D]:
					queued = true
				case s.A == "FlushFails" && queued:
					return true
				}
			}
			return false
		}
		var sel, plain [][]pipe.Step
		for _, h := range pipelineBehaviours(c, cfg, n*8, c.Seed+1616) {
			switch {
			case !failing(h):
			case rich(h) && len(sel) < n/2:
				sel = append(sel, h)
			case len(plain) < n:
				plain = append(plain, h)
			}
		}
		// ... and scripted ones, each repeated so that the failing position cycles over every file of the round: an
		// update alone (4 files), update + recover (5), a deactivate alone (2), update + deactivate (5)
		sub := func(d int, k string) pipe.Step { return pipe.Step{A: "Submit", D: d, K: k} }
		fl, ff, ob, ra := pipe.Step{A: "Flush"}, pipe.Step{A: "FlushFails"}, pipe.Step{A: "Observe", F: "none"}, pipe.Step{A: "ResolveAll"}
		for _, script := range [][]pipe.Step{
			{sub(1, "C"), fl, ob, sub(1, "U"), ff, ra, fl, ob, ra},
			{sub(1, "C"), sub(2, "C"), fl, ob, sub(1, "U"), sub(2, "R"), ff, ra, fl, ob, ra},
			{sub(1, "C"), fl, ob, sub(1, "D"), ff, ra, fl, ob, ra},
			{sub(1, "C"), sub(2, "C"), fl, ob, sub(1, "U"), sub(2, "D"), ff, ra, fl, ob, ra},
		} {
			for rep := 0; rep < 5; rep++ {
				sel = append(sel, script)
			}
		}
		richN := len(sel)
		for _, h := range plain {
			if len(sel) < n+20 {
				sel = append(sel, h)
			}
		}
		c.Cov.Extra[fmt.Sprintf("of_which_the_failing_round_holds_a_non_create_operation_unpub_%v", unpub)] = int64(richN)
		before := c.Cov.DistinctNontrivial
		runPipelineBehaviours(c, unpub, sel, failing, "writer-with-real-handler-trace-rejected")
		c.Cov.Extra[fmt.Sprintf("pipeline_behaviours_with_a_failing_cas_write_unpub_%v", unpub)] = c.Cov.DistinctNontrivial - before
	}
}

func C16(c *ev.Ctx) {
	c16Design(c)
	c16Driven(c)
	writerWithRealHandler(c)
	runs := 40
	if c.Tier == "thorough" {
		runs = 1500
	}
	rng := rand.New(rand.NewSource(c.Seed*7919 + 17))
	f, err := wr.NewFactory(6, KeyTypeForSeed(c.Seed))
	if err != nil {
		ev.Fatal("factory: %v", err)
	}
	total := 0
	// two groups: both protocol versions with the same maximum operation count, and different maxima (2 for version 0,
	// 4 for the later, current version: a batch is bounded by the maximum of the version its operations were queued under)
	for _, g := range []struct {
		first, later uint
		cfg          string
	}{{c16MaxCount, c16MaxCount, "WriterPropTrace.cfg"}, {2, 4, "WriterPropTraceV.cfg"}} {
		var all strings.Builder
		gtotal := 0
		var infos []runInfo
		n := runs / 2
		for i := 0; i < n; i++ {
			rig, rest := concurrentRun(c, f, rng, 3+rng.Intn(3), 2+rng.Intn(4), 4+rng.Intn(5), g.first, g.later)
			evs := rig.Snapshot()
			start := gtotal
			all.WriteString(rig.NDJSON())
			all.WriteString(`{"ev":"Reset"}` + "\n")
			gtotal += len(evs) + 1
			infos = append(infos, runInfo{start, gtotal, rest})
			if !rest {
				c.Note("concurrent run %d did not come to rest within 4 s of fault-free rounds; remaining runs skipped", i)
				n = i + 1
				break
			}
			if i < 1 {
				k := len(evs)
				if k > 25 {
					k = 25
				}
				c.AddSample(map[string]interface{}{"kind": "concurrent real run (first events)", "max_operation_count_v0_v5": []uint{g.first, g.later}, "events": evs[:k], "total_events": len(evs)})
			}
		}
		res, ok := validateWriterTracesCfg(c, all.String(), g.cfg)
		c.Cov.States += res.Distinct
		c.Cov.Transitions += res.Generated
		c.Cov.CheckerCmd = res.Cmd
		c.Cov.TracesValidatedAgainstImpl += int64(n)
		c.Cov.Evaluations += int64(gtotal)
		c.Cov.DistinctNontrivial += int64(n)
		total += gtotal
		if !ok {
			// locate the failing run by bisection on prefixes of whole runs
			bad := locateBadRunCfg(c, all.String(), infos2bounds(infos), g.cfg)
			lines := strings.Split(all.String(), "\n")
			var tr []string
			if bad >= 0 {
				tr = lines[infos[bad].start:infos[bad].end]
			}
			c.Violation("real-writer-trace-rejected", map[string]interface{}{"run": bad, "max_operation_count_v0_v5": []uint{g.first, g.later}, "trace": tr, "tlc": lastN(res.Output, 30),
				"note": "the recorded execution of the real batch writer is not a behaviour of WriterProp (FIFO prefix cut, batch bounds per protocol version, conservation, nack to head, at rest after fault-free rounds)"})
		}
	}
	c.Cov.Rule = "each trace is one run of the real batch.Writer (Start()ed, real tickers 2 ms / 6 ms) with 2-5 concurrently adding goroutines, two protocol versions (0 and 5; one group of runs with the same maximum operation count for both, one with 2 / 4), expired operations, repeated suffixes and random CAS / anchor-write failures (12%), followed by fault-free rounds until rest; TLC validates the concatenated NDJSON traces against WriterProp with Conservation, BatchBounds, ExactlyOnceAtRest as invariants."
	c.Cov.Extra["events"] = total
	// truly parallel submissions (the traced runs serialise every Add under the trace mutex, which would hide a
	// queue that is not safe for concurrent Add)
	rounds := 2
	if c.Tier == "thorough" {
		rounds = 10
	}
	stressConcurrentAdds(c, rounds)
	c.Cov.Rule += " Plus stress rounds in child processes: 16 goroutines x 250 Writer.Add calls at full speed on the real MemQueue with NO serialisation by the harness; every accepted operation must be in exactly one anchored batch, no batch above the maximum (a crash of the writer process is a violation)."
	c.Finish("model_checking")
}

type runInfo struct {
	start, end int
	rest       bool
}

func infos2bounds(infos []runInfo) []int {
	out := make([]int, len(infos))
	for i, x := range infos {
		out[i] = x.end
	}
	return out
}

// locateBadRun finds the first run whose inclusion makes validation fail.
func locateBadRun(c *ev.Ctx, ndjson string, ends []int) int {
	return locateBadRunCfg(c, ndjson, ends, "WriterPropTrace.cfg")
}

func locateBadRunCfg(c *ev.Ctx, ndjson string, ends []int, cfg string) int {
	lines := strings.SplitAfter(ndjson, "\n")
	lo, hi := 0, len(ends)-1 // invariant: prefix up to run hi fails
	for lo < hi {
		mid := (lo + hi) / 2
		_, ok := validateWriterTracesCfg(c, strings.Join(lines[:ends[mid]], ""), cfg)
		if ok {
			lo = mid + 1
		} else {
			hi = mid
		}
	}
	return lo
}

func lastN(s string, n int) string {
	ls := strings.Split(s, "\n")
	if len(ls) > n {
		ls = ls[len(ls)-n:]
	}
	return strings.Join(ls, "\n")
}

var _ = fmt.Sprintf

// StressChild (sidever stress-child <seed>): 16 goroutines submit 250 distinct creates each to a REAL batch.Writer over
// the REAL MemQueue at full speed, with no serialisation by the harness; prints the final accounting as JSON.  Runs in
// a child process because a corrupted queue makes the library's writer goroutine panic, which nothing can recover.
func StressChild(seed int64) {
	const adders, perAdder = 16, 250
	f, err := wr.NewFactory(adders*perAdder, KeyTypeForSeed(seed))
	if err != nil {
		fmt.Fprintln(os.Stderr, "factory:", err)
		os.Exit(3)
	}
	rig := wr.NewRig([]uint64{0}, 25)
	rig.Unserialised = true
	currentRig.Store((*wr.Rig)(nil))
	var metas []*wr.OpMeta
	for d := 1; d <= adders*perAdder; d++ {
		q, err := f.Op(d, "C", false)
		if err != nil {
			fmt.Fprintln(os.Stderr, "op:", err)
			os.Exit(3)
		}
		metas = append(metas, rig.Register(q, d, 0, false))
	}
	w, err := batch.New("did:sidetree", rig, batch.WithBatchTimeout(20*time.Millisecond), batch.WithMonitorInterval(2*time.Millisecond))
	if err != nil {
		fmt.Fprintln(os.Stderr, "batch.New:", err)
		os.Exit(3)
	}
	w.Start()
	start := make(chan struct{})
	var wg sync.WaitGroup
	for a := 0; a < adders; a++ {
		wg.Add(1)
		go func(a int) {
			defer wg.Done()
			<-start
			for k := 0; k < perAdder; k++ {
				m := metas[a*perAdder+k]
				_ = w.Add(m.Q, m.Ver)
			}
		}(a)
	}
	close(start)
	wg.Wait()
	deadline := time.Now().Add(30 * time.Second)
	rest := false
	for time.Now().Before(deadline) {
		if rig.AtRest() {
			rest = true
			break
		}
		time.Sleep(5 * time.Millisecond)
	}
	// a lost operation never comes to rest: give the writer a few more timeout rounds, then account
	if !rest {
		time.Sleep(200 * time.Millisecond)
	}
	w.Stop()
	time.Sleep(30 * time.Millisecond)
	out, _ := json.Marshal(rig.Accounting(adders*perAdder, rest))
	fmt.Println("STRESS " + string(out))
}

// stressConcurrentAdds runs StressChild in child processes and judges the accounting.
func stressConcurrentAdds(c *ev.Ctx, rounds int) {
	exe, err := os.Executable()
	if err != nil {
		ev.Fatal("executable: %v", err)
	}
	ok := 0
	for r := 0; r < rounds; r++ {
		ctx, cancel := context.WithTimeout(context.Background(), 120*time.Second)
		cmd := exec.CommandContext(ctx, exe, "stress-child", fmt.Sprint(c.Seed+int64(r)))
		var stdout, stderr bytes.Buffer
		cmd.Stdout, cmd.Stderr = &stdout, &stderr
		runErr := cmd.Run()
		cancel()
		var res wr.StressResult
		found := false
		for _, l := range strings.Split(stdout.String(), "\n") {
			if strings.HasPrefix(l, "STRESS ") && json.Unmarshal([]byte(l[7:]), &res) == nil {
				found = true
			}
		}
		tail := stderr.String()
		if len(tail) > 1500 {
			tail = tail[len(tail)-1500:]
		}
		switch {
		case !found && ctx.Err() != nil:
			c.Note("stress round %d: child did not finish within 120 s (inconclusive)", r)
		case !found && cmd.ProcessState != nil && cmd.ProcessState.ExitCode() == 3:
			ev.Fatal("stress child could not be set up: %s", tail)
		case !found:
			c.Violation("writer-crashes-under-parallel-submissions", map[string]interface{}{"round": r, "error": fmt.Sprint(runErr), "stderr_tail": tail,
				"note": "16 goroutines x 250 Writer.Add calls on the real MemQueue; the writer process died"})
		case len(res.Lost) > 0 || len(res.Duplicated) > 0 || res.Oversize > 0 || res.Accepted != res.Submitted:
			c.Violation("parallel-submissions-not-anchored-exactly-once", map[string]interface{}{"round": r, "accounting": res,
				"note": "every Writer.Add returned nil; lost = accepted but in no anchored batch"})
		case !res.AtRest:
			c.Note("stress round %d: not at rest within 30 s (inconclusive)", r)
		default:
			ok++
		}
		c.Cov.Evaluations += int64(res.Submitted)
	}
	c.Cov.Extra["stress_rounds_16x250_parallel_adds_exactly_once"] = ok
}
