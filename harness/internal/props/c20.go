package props

import (
	"math/rand"

	"sidever/internal/concr"
	"sidever/internal/ev"
	"sidever/internal/pipe"
)

func multiStep(h []pipe.Step) bool {
	fl, dids := 0, map[int]bool{}
	for _, s := range h {
		if s.A == "Flush" {
			fl++
		}
		if s.A == "Submit" {
			dids[s.D] = true
		}
	}
	return fl >= 2 || len(dids) >= 2
}

// C20: end to end, the real ResolveDocument of every DID after every step equals the reference state machine's
// prediction from the stored (and unpublished) operations in anchoring order; the three views of a create agree.
func C20(c *ev.Ctx) {
	pipelineDesign(c)
	n := 100
	if c.Tier == "thorough" {
		n = 3000
	}
	rng := rand.New(rand.NewSource(c.Seed + 202))
	for _, unpub := range []bool{true, false} {
		cfg := "MC_Pipeline_valid_unpub.cfg"
		if !unpub {
			cfg = "MC_Pipeline_valid_nounpub.cfg"
		}
		bs := pipelineBehaviours(c, cfg, n, rng.Int63n(1<<30))
		runPipelineBehaviours(c, unpub, bs, multiStep, "e2e-trace-rejected")
	}
	createViewsAgree(c)
	c.Cov.Rule = "TLC simulates fault-free behaviours of Pipeline.tla: 2 DIDs, <= 8 client submissions (create/update/recover/deactivate, also after a deactivate), every placement of flushes and observer steps, protocol upgrade at any point (operations are valid only under the version they were accepted by), with and without unpublished store; each behaviour runs on the real pipeline (every other one through the real REST UpdateHandler / ResolveHandler with httptest) and after every step the real replies, queue, stores and ResolveDocument views must equal the specification's (reference state machine over stored + unpublished operations). Plus: create response vs long-form vs short-form views for every key type x version x store option. Non-trivial: >= 2 flushes or >= 2 DIDs."
	c.Finish("model_checking")
}

func createViewsAgree(c *ev.Ctx) {
	kts := []concr.KeyType{KeyTypeForSeed(c.Seed)}
	if c.Tier == "thorough" {
		kts = concr.KeyTypes
	}
	for _, kt := range kts {
		for _, unpub := range []bool{true, false} {
			for _, ver := range []uint64{0, 10} {
				p, err := pipe.New(unpub, kt)
				if err != nil {
					ev.Fatal("pipeline: %v", err)
				}
				p.SetVersion(ver)
				views, err := p.CreateViews(1)
				p.Close()
				if err != nil {
					ev.Fatal("create views: %v", err)
				}
				c.Cov.Evaluations++
				c.Cov.TracesValidatedAgainstImpl++
				ref := views["create_response"]
				bad := false
				for _, v := range views {
					if v != ref {
						bad = true
					}
				}
				if bad || len(views) != 4 || len(ref) < 50 || ref[:5] == "ERROR" {
					c.Violation("create-views-disagree", map[string]interface{}{"key_type": kt.String(), "unpublished_store": unpub, "protocol_version": ver, "views": views})
				}
				if len(c.Cov.Samples) < 5 {
					c.AddSample(map[string]interface{}{"kind": "create views", "key_type": kt.String(), "views": views})
				}
			}
		}
	}
}
