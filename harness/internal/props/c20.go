package props

import (
	"fmt"
	"math/rand"
	"sidever/internal/tlc"
	"strings"
	"time"

	"sidever/internal/concr"
	"sidever/internal/ev"
	"sidever/internal/pipe"
)

func multiStep(h []pipe.Step) bool {
	fl, dids := 0, map[int]bool{}
	for _, s := range h {
		if s.A == "Flush" {
			fl++
		}
		if s.A == "Submit" {
			dids[s.D] = true
		}
	}
	return fl >= 2 || len(dids) >= 2
}

// C20: end to end, the real ResolveDocument of every DID after every step equals the reference state machine's
// prediction from the stored (and unpublished) operations in anchoring order; the three views of a create agree.
func C20(c *ev.Ctx) {
	pipelineDesign(c)
	n := 100
	if c.Tier == "thorough" {
		n = 3000
	}
	rng := rand.New(rand.NewSource(c.Seed + 202))
	for _, unpub := range []bool{true, false} {
		cfg := "MC_Pipeline_valid_unpub.cfg"
		if !unpub {
			cfg = "MC_Pipeline_valid_nounpub.cfg"
		}
		bs := pipelineBehaviours(c, cfg, n, rng.Int63n(1<<30))
		runPipelineBehaviours(c, unpub, bs, multiStep, "e2e-trace-rejected")
	}
	expiringOperations(c)
	createViewsAgree(c)
	c.Cov.Rule = "TLC simulates fault-free behaviours of Pipeline.tla: 2 DIDs, <= 8 client submissions (create/update/recover/deactivate, also after a deactivate), every placement of flushes and observer steps, protocol upgrade at any point (operations are valid only under the version they were accepted by), with and without unpublished store; each behaviour runs on the real pipeline (every other one through the real REST UpdateHandler / ResolveHandler with httptest) and after every step the real replies, queue, stores and ResolveDocument views must equal the specification's (reference state machine over stored + unpublished operations). Plus: behaviours with updates that expire while queued (kind E, action Clock; design checked exhaustively with NoOrphanUnpublished / QuiescentMeansPublished, traces validated against the as-built variant and against the specification proper). Plus: create response vs long-form vs short-form views for every key type x version x store option. Non-trivial: >= 2 flushes or >= 2 DIDs."
	c.Finish("model_checking")
}

// expiringOperations: behaviours with updates whose signed window the server clock passes while they are queued
// (Pipeline.tla kind E, action Clock).  The recorded traces are validated twice: against the specification with the
// deviation of the code as built (KeepExpiredUnpublished = TRUE: nobody removes a discarded operation from the
// unpublished-operation store) - any rejection there is an unknown violation -, and against the specification proper,
// where a rejection is the named deviation itself.
func expiringOperations(c *ev.Ctx) {
	// design level: with the discard modelled, an unpublished operation is always one that is still on its way
	// (NoOrphanUnpublished, QuiescentMeansPublished) - and the as-built deviation is observable (TLC must find the
	// counterexample, otherwise the invariant would say nothing)
	d, err := tlc.Run(tlc.Opts{SpecDir: specDir(), Module: "MC_Pipeline", Config: "MC_Pipeline_mc_expiry.cfg", WorkDir: c.Work, Timeout: 20 * time.Minute})
	if err != nil || d.InvariantViolated != "" {
		ev.Fatal("Pipeline.tla with expiring operations: %v %s", err, d.InvariantViolated)
	}
	c.Cov.States += d.Distinct
	c.Cov.Transitions += d.Generated
	a, err := tlc.Run(tlc.Opts{SpecDir: specDir(), Module: "MC_Pipeline", Config: "MC_Pipeline_mc_expiry_asbuilt.cfg", WorkDir: c.Work, Timeout: 20 * time.Minute})
	if a == nil || !strings.Contains(a.InvariantViolated+a.Output, "QuiescentMeansPublishedAsBuilt") {
		ev.Fatal("the as-built deviation (KeepExpiredUnpublished) is not observable in Pipeline.tla: %v", err)
	}
	n := 40
	if c.Tier == "thorough" {
		n = 600
	}
	discards := func(h []pipe.Step) bool {
		// a Clock step with an expiring update queued before it and a Flush after it
		queuedE, late := false, false
		for _, s := range h {
			switch {
			case s.A == "Submit" && s.K == "E" && !late:
				queuedE = true
			case s.A == "Clock":
				late = true
			case s.A == "Flush" && late && queuedE:
				return true
			case s.A == "Flush":
				queuedE = false
			}
		}
		return false
	}
	for _, unpub := range []bool{true, false} {
		gen, ref, asBuilt := "MC_Pipeline_expiry_unpub.cfg", "PipelineTraceExpiry.cfg", "PipelineTraceExpiryAsBuilt.cfg"
		if !unpub {
			gen, ref, asBuilt = "MC_Pipeline_expiry_nounpub.cfg", "PipelineTraceExpiryNoUnpub.cfg", "PipelineTraceExpiryAsBuiltNoUnpub.cfg"
		}
		var sel [][]pipe.Step
		for _, h := range pipelineBehaviours(c, gen, n*6, c.Seed+909) {
			if !discards(h) {
				continue
			}
			if h[len(h)-1].A != "ResolveAll" {
				h = append(h, pipe.Step{A: "ResolveAll"})
			}
			sel = append(sel, h)
			if len(sel) == n {
				break
			}
		}
		if len(sel) == 0 {
			ev.Fatal("no behaviour with a discarded expiring operation generated")
		}
		before := c.Cov.DistinctNontrivial
		runPipelineBehavioursCfg(c, unpub, sel, discards, "expiry-trace-rejected", []string{asBuilt, ref},
			[]string{"", "expired-operation-discarded-at-cut-stays-in-the-unpublished-store"})
		c.Cov.Extra[fmt.Sprintf("behaviours_with_an_operation_expiring_in_the_queue_unpub_%v", unpub)] = c.Cov.DistinctNontrivial - before
	}
}

func createViewsAgree(c *ev.Ctx) {
	kts := []concr.KeyType{KeyTypeForSeed(c.Seed)}
	if c.Tier == "thorough" {
		kts = concr.KeyTypes
	}
	for _, kt := range kts {
		for _, unpub := range []bool{true, false} {
			for _, ver := range []uint64{0, 10} {
				p, err := pipe.New(unpub, kt)
				if err != nil {
					ev.Fatal("pipeline: %v", err)
				}
				p.SetVersion(ver)
				views, err := p.CreateViews(1)
				p.Close()
				if err != nil {
					ev.Fatal("create views: %v", err)
				}
				c.Cov.Evaluations++
				c.Cov.TracesValidatedAgainstImpl++
				ref := views["create_response"]
				bad := false
				for _, v := range views {
					if v != ref {
						bad = true
					}
				}
				if bad || len(views) != 4 || len(ref) < 50 || ref[:5] == "ERROR" {
					c.Violation("create-views-disagree", map[string]interface{}{"key_type": kt.String(), "unpublished_store": unpub, "protocol_version": ver, "views": views})
				}
				if len(c.Cov.Samples) < 5 {
					c.AddSample(map[string]interface{}{"kind": "create views", "key_type": kt.String(), "views": views})
				}
			}
		}
	}
}
