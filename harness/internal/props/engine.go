// Package props holds, per property, the verdict predicate evaluated on REAL results of the library, driven by the
// cases that TLC enumerates from the specification.
package props

import (
	"encoding/json"
	"fmt"
	"github.com/trustbloc/sidetree-core-go/pkg/versions/1_0/model"
	"github.com/trustbloc/sidetree-core-go/pkg/versions/1_0/operationparser"
	"os"
	"runtime"
	"sort"
	"strconv"
	"strings"
	"sync"
	"sync/atomic"
	"time"

	"github.com/trustbloc/sidetree-core-go/pkg/api/operation"
	"github.com/trustbloc/sidetree-core-go/pkg/api/protocol"
	"github.com/trustbloc/sidetree-core-go/pkg/document"
	"github.com/trustbloc/sidetree-core-go/pkg/processor"

	"sidever/internal/concr"
	"sidever/internal/ev"
	"sidever/internal/wire"
)

// AnchOp is an anchored operation of a specification case: shape id (1-based index into the alphabet) + coordinates.
type AnchOp struct {
	S   int  `json:"s"`
	T   int  `json:"t"`
	N   int  `json:"n"`
	Pub bool `json:"pub"`
}

// View is the observable part of a resolution result (SidetreeCore!View).
type View struct {
	Exists bool  `json:"exists"`
	Deact  bool  `json:"deact"`
	Doc    []int `json:"doc"`
	Uc     int   `json:"uc"`
	Rc     int   `json:"rc"`
	// Ao: anchor origin token (0: the create's, p: that of recover shape p, -1: no DID, -9: unknown); compared only when
	// both sides carry it
	Ao *int `json:"ao,omitempty"`
}

func (v View) String() string {
	if !v.Exists {
		return "none"
	}
	return fmt.Sprintf("{doc:%v uc:%d rc:%d deact:%v}", v.Doc, v.Uc, v.Rc, v.Deact)
}

// Equal compares two views.
func (v View) Equal(w View) bool {
	if v.Exists != w.Exists || v.Deact != w.Deact || v.Uc != w.Uc || v.Rc != w.Rc || len(v.Doc) != len(w.Doc) {
		return false
	}
	for i := range v.Doc {
		if v.Doc[i] != w.Doc[i] {
			return false
		}
	}
	if v.Ao != nil && w.Ao != nil && *v.Ao != *w.Ao {
		return false
	}
	return true
}

// AoToken abstracts a resolved anchor origin.
func AoToken(rm *protocol.ResolutionModel, err error) *int {
	t := -9
	switch {
	case err != nil || rm == nil:
		t = -1
	case rm.AnchorOrigin == nil:
		t = 0
	default:
		if s, ok := rm.AnchorOrigin.(string); ok {
			var n int
			if _, e := fmt.Sscanf(s, "https://origin-%d.example.com", &n); e == nil {
				t = n
			}
		}
	}
	return &t
}

// Engine replays specification stores through the real OperationProcessor with real keys and signatures.
type Engine struct {
	Keys   *concr.Keys
	Alpha  []concr.Shape
	Reqs   [][]byte
	Suffix string
	PC     protocol.Client
	Params protocol.Protocol
	// Inflated[i]: request i is stored in the form the library gives an anchored operation (canonical re-serialisation)
	// of a submission that intake accepted just below the operation size limit, and is larger than that limit.
	Inflated map[int]bool
	// NoRefs: the anchoring system supplies no canonical references (the field is optional): operations from the
	// operation store are published all the same.
	NoRefs bool
}

// WithoutRefs is the same engine on a ledger without canonical references.
func (e *Engine) WithoutRefs() *Engine {
	n := *e
	n.NoRefs = true
	return &n
}

// NewEngine concretises an alphabet. keyType chooses the key type of every key; hash the multihash algorithm.
func NewEngine(alpha []concr.Shape, keyType concr.KeyType, hash uint) (*Engine, error) {
	keys, err := concr.NewKeys(9, hash, func(int) concr.KeyType { return keyType })
	if err != nil {
		return nil, err
	}
	var base *concr.Shape
	for i := range alpha {
		if alpha[i].Ty == "C" && alpha[i].Dl != "mismatch" {
			base = &alpha[i]
			break
		}
	}
	if base == nil {
		return nil, fmt.Errorf("alphabet has no base create")
	}
	b, err := concr.NewBuilder(keys, *base)
	if err != nil {
		return nil, err
	}
	b.OriginPerShape = true
	e := &Engine{Keys: keys, Alpha: alpha, Suffix: b.Suffix, Params: wire.Params(hash)}
	e.PC = &wire.Client{Versions: []protocol.Version{wire.NewResolutionVersion(e.Params)}}
	e.Inflated = map[int]bool{}
	for i, sh := range alpha {
		req, err := b.Request(sh)
		if err != nil {
			return nil, fmt.Errorf("concretise %+v: %w", sh, err)
		}
		if i%2 == 1 {
			// every other well-formed update / recover: submitted as large as intake allows (numbers as 1e20, long kid);
			// what the operation store holds is the library's re-serialisation, which exceeds the size limit
			big, ok, ierr := b.InflatingRequest(sh, int(e.Params.MaxOperationSize), int(e.Params.MaxDeltaSize))
			if ierr != nil {
				return nil, ierr
			}
			if ok {
				if op, perr := operationparser.New(e.Params).ParseOperation("did:sidetree", big, false); perr == nil {
					anch, aerr := model.GetAnchoredOperation(op)
					if aerr != nil {
						return nil, fmt.Errorf("anchored form of %+v: %w", sh, aerr)
					}
					if len(anch.OperationRequest) > int(e.Params.MaxOperationSize) {
						req = anch.OperationRequest
						e.Inflated[i] = true
					}
				}
			}
		}
		e.Reqs = append(e.Reqs, req)
	}
	if err := e.selfCheck(); err != nil {
		return nil, fmt.Errorf("concretiser self-check: %w", err)
	}
	return e, nil
}

// selfCheck makes sure each concrete request has the class its shape claims, using the real parser only as a
// recogniser of well-formedness (a failure here is a harness error, never a violation).
func (e *Engine) selfCheck() error {
	v, _ := e.PC.Current()
	parser := v.OperationParser()
	for i, sh := range e.Alpha {
		if sh.Ty == "C" || e.Inflated[i] {
			continue
		}
		rv, err := parser.GetRevealValue(e.Reqs[i])
		wantParse := sh.Sig != "keymismatch" && !(sh.Ty == "D" && sh.Sfx != "ok") && !(sh.Ty == "R" && sh.Nrc == sh.Rk)
		if wantParse && err != nil {
			return fmt.Errorf("shape %d %+v should parse in batch mode: %v", i+1, sh, err)
		}
		if wantParse && rv != e.Keys.ByID[sh.Rk].RV {
			return fmt.Errorf("shape %d reveal value mismatch", i+1)
		}
	}
	return nil
}

// Ref is the canonical reference given to a published operation at coordinate (t, n).
func Ref(t, n int) string { return fmt.Sprintf("ref-%d-%d", t, n) }

// Anchored builds the real anchored operation of a case operation.
func (e *Engine) Anchored(a AnchOp) *operation.AnchoredOperation {
	op := &operation.AnchoredOperation{
		Type:              concr.OpType(e.Alpha[a.S-1].Ty),
		UniqueSuffix:      e.Suffix,
		OperationRequest:  e.Reqs[a.S-1],
		TransactionTime:   uint64(concr.BaseTime + a.T),
		TransactionNumber: uint64(a.N),
		ProtocolVersion:   0,
	}
	if a.Pub && !e.NoRefs {
		op.CanonicalReference = Ref(a.T, a.N)
	}
	return op
}

// Resolve runs the real processor on the given operations in the given store order.
func (e *Engine) Resolve(ops []AnchOp, opts ...document.ResolutionOption) (View, *protocol.ResolutionModel, error) {
	pub := &wire.SliceStore{}
	unpub := &wire.SliceStore{}
	for _, a := range ops {
		if a.Pub {
			pub.Ops = append(pub.Ops, e.Anchored(a))
		} else {
			unpub.Ops = append(unpub.Ops, e.Anchored(a))
		}
	}
	p := processor.New("verif", pub, e.PC, processor.WithUnpublishedOperationStore(unpub))
	return e.guarded(func() (*protocol.ResolutionModel, error) { return p.Resolve(e.Suffix, opts...) })
}

// ResolveWithExtra is Resolve with further, hand-made published operations put in FRONT of the store's operations.
func (e *Engine) ResolveWithExtra(ops []AnchOp, extra []*operation.AnchoredOperation) (View, *protocol.ResolutionModel, error) {
	pub := &wire.SliceStore{Ops: append([]*operation.AnchoredOperation{}, extra...)}
	unpub := &wire.SliceStore{}
	for _, a := range ops {
		if a.Pub {
			pub.Ops = append(pub.Ops, e.Anchored(a))
		} else {
			unpub.Ops = append(unpub.Ops, e.Anchored(a))
		}
	}
	p := processor.New("verif", pub, e.PC, processor.WithUnpublishedOperationStore(unpub))
	return e.guarded(func() (*protocol.ResolutionModel, error) { return p.Resolve(e.Suffix) })
}

// guarded runs a real resolution; a panic inside the library becomes a view that equals no specification view
// (document token -99) instead of crashing the harness.
func (e *Engine) guarded(f func() (*protocol.ResolutionModel, error)) (v View, rm *protocol.ResolutionModel, err error) {
	defer func() {
		if r := recover(); r != nil {
			err = fmt.Errorf("PANIC in resolution: %v", r)
			v, rm = View{Exists: true, Doc: []int{-99}, Uc: -99, Rc: -99}, nil
		}
	}()
	rm, err = f()
	return e.Alpha_(rm, err), rm, err
}

// ResolveSplit is Resolve with some operations handed over through the AdditionalOperations resolution option
// instead of the stores (extra[i] = true); published operations may in addition stay in the store (dup), in which
// case the processor must recognise them by their canonical reference.
func (e *Engine) ResolveSplit(ops []AnchOp, extra []bool, dup bool, opts ...document.ResolutionOption) (View, *protocol.ResolutionModel, error) {
	pub := &wire.SliceStore{}
	unpub := &wire.SliceStore{}
	var additional []*operation.AnchoredOperation
	for i, a := range ops {
		op := e.Anchored(a)
		if extra[i] {
			additional = append(additional, op)
			if !(dup && a.Pub) {
				continue
			}
		}
		if a.Pub {
			pub.Ops = append(pub.Ops, e.Anchored(a))
		} else {
			unpub.Ops = append(unpub.Ops, op)
		}
	}
	p := processor.New("verif", pub, e.PC, processor.WithUnpublishedOperationStore(unpub))
	return e.guarded(func() (*protocol.ResolutionModel, error) {
		return p.Resolve(e.Suffix, append([]document.ResolutionOption{document.WithAdditionalOperations(additional)}, opts...)...)
	})
}

// Alpha_ abstracts a real resolution result.
func (e *Engine) Alpha_(rm *protocol.ResolutionModel, err error) View {
	if err != nil || rm == nil {
		return View{Doc: []int{}, Ao: AoToken(rm, err)}
	}
	v := View{Exists: true, Ao: AoToken(rm, err), Deact: rm.Deactivated, Doc: DocTokens(rm.Doc), Uc: e.Keys.Abs(rm.UpdateCommitment), Rc: e.Keys.Abs(rm.RecoveryCommitment)}
	return v
}

// DocTokens abstracts a document: the tokens of its public keys in order; any other member shows up as -7.
func DocTokens(doc document.Document) []int {
	out := []int{}
	for _, pk := range doc.PublicKeys() {
		n, err := strconv.Atoi(strings.TrimPrefix(pk.ID(), "k"))
		if err != nil {
			n = -8
		}
		out = append(out, n)
	}
	var extra []string
	for k := range doc {
		if k == document.ServiceProperty && onlyInflateService(doc) {
			continue // the padding service of an inflated request (concr.InflatingRequest) carries no content token
		}
		if k != document.PublicKeyProperty {
			extra = append(extra, k)
		}
	}
	sort.Strings(extra)
	for range extra {
		out = append(out, -7)
	}
	return out
}

func onlyInflateService(doc document.Document) bool {
	svcs := document.DidDocumentFromJSONLDObject(doc.JSONLdObject()).Services()
	return len(svcs) == 1 && svcs[0].ID() == "inflate"
}

// Key gives a canonical string for a set of anchored operations.
func Key(ops []AnchOp) string {
	s := make([]string, len(ops))
	for i, a := range ops {
		p := 0
		if a.Pub {
			p = 1
		}
		s[i] = fmt.Sprintf("%d.%d.%d.%d", a.T, a.N, a.S, p)
	}
	sort.Strings(s)
	return strings.Join(s, "|")
}

// Describe renders a store for replay files.
func (e *Engine) Describe(ops []AnchOp) []map[string]interface{} {
	out := []map[string]interface{}{}
	for _, a := range ops {
		out = append(out, map[string]interface{}{"shape": e.Alpha[a.S-1], "t": a.T, "n": a.N, "pub": a.Pub, "request": string(e.Reqs[a.S-1])})
	}
	return out
}

// ParallelCases runs f over cases on all cores with a non-termination watchdog: a case that does not return within
// limit is reported through onHang (the process then exits, a goroutine cannot be killed).
func ParallelCases(n int, limit time.Duration, f func(i int), onHang func(i int)) {
	nw := runtime.NumCPU()
	var next int64 = -1
	cur := make([]int64, nw)
	started := make([]int64, nw)
	for i := range cur {
		cur[i] = -1
	}
	done := make(chan struct{})
	go func() {
		tk := time.NewTicker(500 * time.Millisecond)
		defer tk.Stop()
		for {
			select {
			case <-done:
				return
			case <-tk.C:
				now := time.Now().UnixNano()
				for w := 0; w < nw; w++ {
					c := atomic.LoadInt64(&cur[w])
					st := atomic.LoadInt64(&started[w])
					if c >= 0 && st > 0 && time.Duration(now-st) > limit {
						onHang(int(c))
					}
				}
			}
		}
	}()
	var wg sync.WaitGroup
	for w := 0; w < nw; w++ {
		wg.Add(1)
		go func(w int) {
			defer wg.Done()
			for {
				i := atomic.AddInt64(&next, 1)
				if int(i) >= n {
					atomic.StoreInt64(&cur[w], -1)
					return
				}
				atomic.StoreInt64(&started[w], time.Now().UnixNano())
				atomic.StoreInt64(&cur[w], i)
				f(int(i))
			}
		}(w)
	}
	wg.Wait()
	close(done)
}

// KeyTypeForSeed rotates the key type with the seed (quick tier).
func KeyTypeForSeed(seed int64) concr.KeyType {
	k := int(seed % 5)
	if k < 0 {
		k = -k
	}
	// seed 0 -> P-256 (the fastest common case)
	return []concr.KeyType{concr.P256, concr.Ed25519, concr.Secp256k1, concr.P384, concr.P521}[k]
}

// ResCase is the common emitted record of the Resolution model.
type ResCase struct {
	Ops   []AnchOp        `json:"ops"`
	Res   View            `json:"res"`
	Legit []AnchOp        `json:"legit"`
	Na    int             `json:"na"`
	Ao    *int            `json:"ao"`
	Log   json.RawMessage `json:"log"`
}

func specDir() string { return ev.Root + "/spec" }

func hangReporter(c *ev.Ctx, describe func(i int) interface{}) func(i int) {
	var once sync.Once
	return func(i int) {
		once.Do(func() {
			c.Violation("non-termination", describe(i))
			fmt.Fprintf(os.Stderr, "case %d did not terminate within the deadline\n", i)
			c.Finish("model_checking")
		})
	}
}
