package props

import (
	"encoding/json"
	"fmt"
	"reflect"
	"sort"
	"strconv"
	"strings"
	"sync"
	"time"

	"github.com/trustbloc/sidetree-core-go/pkg/document"
	"github.com/trustbloc/sidetree-core-go/pkg/patch"
	"github.com/trustbloc/sidetree-core-go/pkg/versions/1_0/doccomposer"

	"sidever/internal/ev"
	"sidever/internal/tlc"
)

type absEntry struct {
	ID string `json:"id"`
	V  int    `json:"v"`
}

type absDoc struct {
	Keys  []absEntry `json:"keys"`
	Svcs  []absEntry `json:"svcs"`
	Akas  []string   `json:"akas"`
	Other []string   `json:"other"`
}

type absPatch struct {
	A        string     `json:"a"`
	Entries  []absEntry `json:"entries"`
	Entries2 []absEntry `json:"entries2"`
	Ids      []string   `json:"ids"`
	Uris     []string   `json:"uris"`
}

type patchEdge struct {
	Edge struct {
		From absDoc `json:"from"`
		List []int  `json:"list"`
		Ok   bool   `json:"ok"`
		To   absDoc `json:"to"`
	} `json:"edge"`
	Rt bool `json:"rt"`
}

const jwkConst = `{"kty":"EC","crv":"P-256","x":"PUymIqdtF_qxaAqPABSw-C-owT1KYYQbsMKFM-L9fJA","y":"nM84jDHCMOTGTh_ZdHq4dBBdo4Z5PkEOW9jA8z8IsGc"}`

func keyJSON(e absEntry) string {
	purpose := "authentication"
	if e.V == 2 {
		purpose = "assertionMethod"
	}
	return fmt.Sprintf(`{"id":%q,"type":"JsonWebKey2020","purposes":[%q],"publicKeyJwk":%s}`, e.ID, purpose, jwkConst)
}

func svcJSON(e absEntry) string {
	return fmt.Sprintf(`{"id":%q,"type":"Type%d","serviceEndpoint":"https://svc.example.com/%d"}`, e.ID, e.V, e.V)
}

func listJSON(es []absEntry, f func(absEntry) string) string {
	parts := make([]string, len(es))
	for i, e := range es {
		parts[i] = f(e)
	}
	return "[" + strings.Join(parts, ",") + "]"
}

func strsJSON(ss []string, prefix string) string {
	parts := make([]string, len(ss))
	for i, s := range ss {
		parts[i] = strconv.Quote(prefix + s)
	}
	return "[" + strings.Join(parts, ",") + "]"
}

const akaPrefix = "https://aka.example.com/"

func concretePatch(p absPatch) (patch.Patch, error) {
	// TLC emits sets in arbitrary order; a fixed order keeps the position of the absent id deterministic
	// (removeKeys {a, z}: the present id first; removeSvcs {q, s}: the absent id first)
	sort.Strings(p.Ids)
	switch p.A {
	case "addKeys":
		return patch.NewAddPublicKeysPatch(listJSON(p.Entries, keyJSON))
	case "removeKeys":
		return patch.NewRemovePublicKeysPatch(strsJSON(p.Ids, ""))
	case "addSvcs":
		return patch.NewAddServiceEndpointsPatch(listJSON(p.Entries, svcJSON))
	case "removeSvcs":
		return patch.NewRemoveServiceEndpointsPatch(strsJSON(p.Ids, ""))
	case "addAkas":
		return patch.NewAddAlsoKnownAs(strsJSON(p.Uris, akaPrefix))
	case "removeAkas":
		return patch.NewRemoveAlsoKnownAs(strsJSON(p.Ids, akaPrefix))
	case "replace":
		return patch.NewReplacePatch(fmt.Sprintf(`{"publicKeys":%s,"services":%s}`, listJSON(p.Entries, keyJSON), listJSON(p.Entries2, svcJSON)))
	case "jsonAdd":
		var ops []string
		for _, m := range p.Ids {
			ops = append(ops, fmt.Sprintf(`{"op":"add","path":"/%s","value":{"n":1}}`, m))
		}
		return patch.NewJSONPatch("[" + strings.Join(ops, ",") + "]")
	case "jsonFail":
		return patch.NewJSONPatch(`[{"op":"remove","path":"/doesnotexist"}]`)
	}
	return nil, fmt.Errorf("unknown abstract patch %q", p.A)
}

// trickyMembers: opaque document members (names need no JSON-pointer escaping) for the conversion round trip.
func trickyMembers() map[string]interface{} {
	return map[string]interface{}{
		"pct":           "100% done %s %d %v %% %!d(MISSING)",
		"q\"uote":       "a\"b\\c",
		"uni\u00e9":     "\u00e9\u20ac\U0001f600\u0001",
		"nl":            "line\nbreak\ttab",
		"num":           1e21,
		"small":         1e-7,
		"neg":           -0.5,
		"t":             true,
		"arr":           []interface{}{float64(1), "%x", map[string]interface{}{"k": "%"}, []interface{}{}},
		"obj":           map[string]interface{}{"a b": map[string]interface{}{"c%d": []interface{}{}}},
		"empty":         map[string]interface{}{},
		"per%cent name": float64(1),
		"sp ace":        "x",
		"back\\slash":   "y",
		"esc\\u0041ape": "z",
		"tab\tname":     float64(2),
		"ctl\u0001":     nil,
		"<html>&":       "w",
	}
}

func concreteDoc(d absDoc) document.Document {
	parts := []string{}
	if len(d.Keys) > 0 {
		parts = append(parts, `"publicKey":`+listJSON(d.Keys, keyJSON))
	}
	if len(d.Svcs) > 0 {
		parts = append(parts, `"service":`+listJSON(d.Svcs, svcJSON))
	}
	if len(d.Akas) > 0 {
		parts = append(parts, `"alsoKnownAs":`+strsJSON(d.Akas, akaPrefix))
	}
	for _, m := range d.Other {
		parts = append(parts, fmt.Sprintf(`%q:{"n":1}`, m))
	}
	doc, err := document.FromBytes([]byte("{" + strings.Join(parts, ",") + "}"))
	if err != nil {
		panic(err)
	}
	return doc
}

// abstractDoc is alpha for documents.
func abstractDoc(doc document.Document) absDoc {
	out := absDoc{Keys: []absEntry{}, Svcs: []absEntry{}, Akas: []string{}, Other: []string{}}
	raw, _ := json.Marshal(doc)
	var m map[string]interface{}
	_ = json.Unmarshal(raw, &m)
	for k, v := range m {
		switch k {
		case "publicKey":
			l, _ := v.([]interface{})
			for _, e := range l {
				em, _ := e.(map[string]interface{})
				id, _ := em["id"].(string)
				ver := -1
				if ps, ok := em["purposes"].([]interface{}); ok && len(ps) == 1 {
					switch ps[0] {
					case "authentication":
						ver = 1
					case "assertionMethod":
						ver = 2
					}
				}
				if !reflect.DeepEqual(em["publicKeyJwk"], mustJSON(jwkConst)) || em["type"] != "JsonWebKey2020" {
					ver = -2
				}
				out.Keys = append(out.Keys, absEntry{id, ver})
			}
		case "service":
			l, _ := v.([]interface{})
			for _, e := range l {
				em, _ := e.(map[string]interface{})
				id, _ := em["id"].(string)
				ver := -1
				if t, ok := em["type"].(string); ok && strings.HasPrefix(t, "Type") {
					ver, _ = strconv.Atoi(t[4:])
					if em["serviceEndpoint"] != fmt.Sprintf("https://svc.example.com/%d", ver) {
						ver = -2
					}
				}
				out.Svcs = append(out.Svcs, absEntry{id, ver})
			}
		case "alsoKnownAs":
			l, _ := v.([]interface{})
			for _, e := range l {
				s, _ := e.(string)
				out.Akas = append(out.Akas, strings.TrimPrefix(s, akaPrefix))
			}
		default:
			out.Other = append(out.Other, k)
		}
	}
	sort.Strings(out.Other)
	return out
}

func onlyRemovals(names string) bool {
	for _, n := range strings.Split(strings.TrimPrefix(names, ":"), ":") {
		if !strings.HasPrefix(n, "remove") {
			return false
		}
	}
	return names != ""
}

func mustJSON(s string) interface{} {
	var v interface{}
	if err := json.Unmarshal([]byte(s), &v); err != nil {
		panic(err)
	}
	return v
}

func normAbs(d absDoc) absDoc {
	if d.Keys == nil {
		d.Keys = []absEntry{}
	}
	if d.Svcs == nil {
		d.Svcs = []absEntry{}
	}
	if d.Akas == nil {
		d.Akas = []string{}
	}
	if d.Other == nil {
		d.Other = []string{}
	}
	sort.Strings(d.Other)
	return d
}

// C17: patch application is pure, deterministic, atomic and follows the ordered-set semantics of Patch.tla.
func C17(c *ev.Ctx) {
	r, err := tlc.Run(tlc.Opts{SpecDir: specDir(), Module: "MC_Patch", Config: "MC_Patch_" + c.Tier + ".cfg", WorkDir: c.Work, Timeout: 20 * time.Minute})
	if err != nil {
		ev.Fatal("TLC Patch: %v", err)
	}
	if r.InvariantViolated != "" {
		ev.Fatal("Patch.tla invariant violated: %s\n%s", r.InvariantViolated, r.Output)
	}
	c.Cov.States, c.Cov.Transitions, c.Cov.CheckerCmd = r.Distinct, r.Generated, r.Cmd
	var alpha []absPatch
	if len(r.Tagged["ALPHA"]) == 0 || json.Unmarshal(r.Tagged["ALPHA"][0], &alpha) != nil {
		ev.Fatal("no patch alphabet emitted")
	}
	// the concrete patches are kept as bytes: every replay gets its own patch objects, so that an implementation that
	// writes into patch values is reported (patch-list-modified) instead of racing with the other replays
	patchBytes := make([][]byte, len(alpha))
	for i, a := range alpha {
		p, err := concretePatch(a)
		if err != nil {
			ev.Fatal("concretise patch %+v: %v", a, err)
		}
		patchBytes[i], _ = json.Marshal(p)
	}
	edges := make([]patchEdge, len(r.Cases))
	for i, raw := range r.Cases {
		if err := json.Unmarshal(raw, &edges[i]); err != nil {
			ev.Fatal("edge: %v", err)
		}
	}
	dc := doccomposer.New()
	var mu sync.Mutex
	var nt, rts int64
	ParallelCases(len(edges), 30*time.Second, func(i int) {
		e := &edges[i]
		from := normAbs(e.Edge.From)
		want := normAbs(e.Edge.To)
		in := concreteDoc(from)
		snapshot, _ := json.Marshal(in)
		list := make([]patch.Patch, len(e.Edge.List))
		names := ""
		for k, idx := range e.Edge.List {
			pt, perr := patch.FromBytes(patchBytes[idx-1])
			if perr != nil {
				ev.Fatal("patch: %v", perr)
			}
			list[k] = pt
			names += ":" + alpha[idx-1].A
		}
		listSnap, _ := json.Marshal(list)
		out, err := dc.ApplyPatches(in, list)
		out2, err2 := dc.ApplyPatches(in, list)
		after, _ := json.Marshal(in)
		listAfter, _ := json.Marshal(list)
		rep := func(class string, detail interface{}) {
			c.Violation("patch-application:"+class+names, map[string]interface{}{"document": from, "patches": e.Edge.List, "detail": detail, "expected_ok": e.Edge.Ok, "expected": want})
		}
		switch {
		case string(snapshot) != string(after):
			rep("input-document-modified", map[string]string{"before": string(snapshot), "after": string(after)})
		case string(listSnap) != string(listAfter):
			rep("patch-list-modified", nil)
		case (err == nil) != (err2 == nil) || (err == nil && !reflect.DeepEqual(abstractDoc(out), abstractDoc(out2))):
			rep("non-deterministic", nil)
		case (err == nil) != e.Edge.Ok:
			rep("success-differs", fmt.Sprint(err))
		case err != nil && out != nil:
			rep("partial-result-on-failure", abstractDoc(out))
		case err == nil && !reflect.DeepEqual(abstractDoc(out), want):
			rep("result-differs", abstractDoc(out))
		case err == nil && onlyRemovals(names) && reflect.DeepEqual(from, want):
			// removing absent ids is ignored: the document itself - not merely its abstraction - stays as it was
			o, _ := json.Marshal(out)
			if !reflect.DeepEqual(mustJSON(string(o)), mustJSON(string(snapshot))) {
				rep("removal-of-absent-ids-changes-document", map[string]string{"before": string(snapshot), "after": string(o)})
			}
		}
		if err == nil && e.Rt && reflect.DeepEqual(abstractDoc(out), want) {
			// conversion round trip on the real result document
			raw, _ := json.Marshal(out)
			// every third document additionally carries opaque members with awkward names and values
			if i%3 == 0 {
				var m map[string]interface{}
				_ = json.Unmarshal(raw, &m)
				for k, v := range trickyMembers() {
					m[k] = v
				}
				if svcs, ok := m["service"].([]interface{}); ok && len(svcs) > 0 {
					if s0, ok := svcs[0].(map[string]interface{}); ok {
						s0["note"] = "50% of %s"
					}
				}
				raw, _ = json.Marshal(m)
			}
			ps, perr := patch.PatchesFromDocument(string(raw))
			if perr != nil {
				rep("document-to-patches-fails", perr.Error())
			} else {
				back, berr := dc.ApplyPatches(make(document.Document), ps)
				a, _ := json.Marshal(back)
				var x, y interface{}
				_ = json.Unmarshal(a, &x)
				_ = json.Unmarshal(raw, &y)
				if berr != nil || !reflect.DeepEqual(x, y) {
					rep("document-roundtrip-differs", map[string]string{"document": string(raw), "rebuilt": string(a)})
				}
			}
			mu.Lock()
			rts++
			mu.Unlock()
		}
		mu.Lock()
		if len(e.Edge.List) >= 2 || !e.Edge.Ok {
			nt++
		}
		mu.Unlock()
		if i%1500 == 7 {
			c.AddSample(map[string]interface{}{"document": from, "patch_list": e.Edge.List, "spec_ok": e.Edge.Ok, "spec_result": want})
		}
	}, func(int) {})
	c.Cov.TracesValidatedAgainstImpl = int64(len(edges))
	c.Cov.Evaluations = int64(len(edges))
	c.Cov.DistinctNontrivial = nt
	c.Cov.Exhaustive = true
	c.Cov.Extra["document_roundtrips"] = rts
	c.Cov.Rule = "TLC explores every document reachable from the empty one within MaxCalls calls of ApplyPatches over the patch alphabet (add / remove keys, services, also-known-as URIs with existing, new and absent ids; replace; JSON patch that succeeds / fails) with every list of <= MaxList patches; each (document, list) edge is replayed on the real DocumentComposer twice: result vs Patch.tla's ordered-map model, input document and patch list compared with snapshots taken before the call, determinism, no partial result on failure, a list of removals that the model ignores (absent ids) leaves the document JSON-equal to the input; documents with all three sections are converted to patches by the real PatchesFromDocument and rebuilt (every third one enriched with opaque members whose names / values contain %, quotes, backslashes, non-ASCII, control characters, large / small numbers, nested and empty containers). Non-trivial: lists of >= 2 patches or failing lists."
	c.Finish("model_checking")
}
