package props

import (
	"bytes"
	"crypto/sha256"
	"crypto/sha512"
	"encoding/json"
	"fmt"
	"github.com/trustbloc/sidetree-core-go/pkg/api/operation"
	"github.com/trustbloc/sidetree-core-go/pkg/versions/1_0/operationparser"
	"sort"
	"strings"
	"sync"
	"time"

	"github.com/trustbloc/sidetree-core-go/pkg/api/protocol"
	"github.com/trustbloc/sidetree-core-go/pkg/canonicalizer"
	"github.com/trustbloc/sidetree-core-go/pkg/commitment"
	"github.com/trustbloc/sidetree-core-go/pkg/dochandler"
	"github.com/trustbloc/sidetree-core-go/pkg/hashing"
	"github.com/trustbloc/sidetree-core-go/pkg/jws"
	"github.com/trustbloc/sidetree-core-go/pkg/processor"
	"github.com/trustbloc/sidetree-core-go/pkg/util/pubkey"
	"github.com/trustbloc/sidetree-core-go/pkg/versions/1_0/client"
	"github.com/trustbloc/sidetree-core-go/pkg/versions/1_0/doctransformer/didtransformer"
	"github.com/trustbloc/sidetree-core-go/pkg/versions/1_0/docvalidator/didvalidator"

	"sidever/internal/concr"
	"sidever/internal/ev"
	"sidever/internal/tlc"
	"sidever/internal/wire"
)

type idCase struct {
	C struct {
		Kind       string `json:"kind"`
		Alg        uint   `json:"alg"`
		Spelling   string `json:"spelling"`
		Alteration string `json:"alteration"`
		Mh         string `json:"mh"`
		Kt         int    `json:"kt"`
		Nonce      bool   `json:"nonce"`
		Segment    string `json:"segment"`
		Suffix     string `json:"suffix"`
		Ty         string `json:"ty"`
		Mode       string `json:"mode"`
		Rv         string `json:"rv"`
	} `json:"c"`
	Out string `json:"out"`
}

// the model used for the hash / validate families: strings needing escapes, a number, nesting
const idModel = `{"deltaHash":"EiCfDWRnYlcD9EGA3d_5Z1AHu-iYqMbJ9nfiqdz5S8VDbg","recoveryCommitment":"EiBfOZdMtU6OBw8Pk879QtZ-2J-9FbbjSZyoaA_bqD4zhA","anchorOrigin":{"name":"a/b é \"q\"","weight":10,"list":[1,2,{"z":null,"a":true}]},"type":"x"}`

// spell re-serialises a JSON value without changing it.
func spell(v interface{}, how string) []byte {
	var b bytes.Buffer
	var w func(x interface{}, depth int)
	w = func(x interface{}, depth int) {
		switch t := x.(type) {
		case map[string]interface{}:
			keys := make([]string, 0, len(t))
			for k := range t {
				keys = append(keys, k)
			}
			sort.Strings(keys)
			if how == "reordered" {
				for i, j := 0, len(keys)-1; i < j; i, j = i+1, j-1 {
					keys[i], keys[j] = keys[j], keys[i]
				}
			}
			b.WriteByte('{')
			for i, k := range keys {
				if i > 0 {
					b.WriteByte(',')
				}
				if how == "whitespace" {
					b.WriteString("\n" + strings.Repeat("  ", depth+1))
				}
				w(k, depth+1)
				b.WriteByte(':')
				if how == "whitespace" {
					b.WriteString(" \t")
				}
				w(t[k], depth+1)
			}
			if how == "whitespace" {
				b.WriteString("\r\n")
			}
			b.WriteByte('}')
		case []interface{}:
			b.WriteByte('[')
			for i, e := range t {
				if i > 0 {
					b.WriteByte(',')
					if how == "whitespace" {
						b.WriteByte(' ')
					}
				}
				w(e, depth+1)
			}
			b.WriteByte(']')
		case string:
			if how == "escapes" {
				b.WriteByte('"')
				for i, r := range t {
					switch {
					case r == '/':
						b.WriteString(`\/`)
					case r == '"':
						b.WriteString(`\"`)
					case r == '\\':
						b.WriteString(`\\`)
					case r > 0x7f || i%3 == 0:
						fmt.Fprintf(&b, `\u%04x`, r)
					default:
						b.WriteRune(r)
					}
				}
				b.WriteByte('"')
			} else {
				j, _ := json.Marshal(t)
				b.Write(j)
			}
		case json.Number:
			if how == "numberSpelling" {
				switch t.String() {
				case "10":
					b.WriteString("1e1")
				case "1":
					b.WriteString("1.0")
				case "2":
					b.WriteString("0.2E+1")
				default:
					b.WriteString(t.String())
				}
			} else {
				b.WriteString(t.String())
			}
		default:
			j, _ := json.Marshal(t)
			b.Write(j)
		}
	}
	w(v, 0)
	return b.Bytes()
}

func parseNum(s string) interface{} {
	d := json.NewDecoder(strings.NewReader(s))
	d.UseNumber()
	var v interface{}
	if err := d.Decode(&v); err != nil {
		panic(err)
	}
	return v
}

// alterations yields concrete alterations of the model of the given class (as canonical-ish JSON bytes).
func alterations(class string) [][]byte {
	base := parseNum(idModel).(map[string]interface{})
	clone := func() map[string]interface{} { return parseNum(idModel).(map[string]interface{}) }
	var out [][]byte
	switch class {
	case "none":
		return [][]byte{spell(base, "canonical")}
	case "memberValueChanged":
		for k := range base {
			c := clone()
			c[k] = "changed"
			out = append(out, spell(c, "canonical"))
		}
		c := clone()
		c["anchorOrigin"].(map[string]interface{})["weight"] = json.Number("11")
		out = append(out, spell(c, "canonical"))
		c = clone()
		c["anchorOrigin"].(map[string]interface{})["list"].([]interface{})[2].(map[string]interface{})["z"] = false
		out = append(out, spell(c, "canonical"))
	case "memberAdded":
		c := clone()
		c["extra"] = json.Number("0")
		out = append(out, spell(c, "canonical"))
		c = clone()
		c["anchorOrigin"].(map[string]interface{})["extra"] = nil
		out = append(out, spell(c, "canonical"))
	case "memberRemoved":
		for k := range base {
			c := clone()
			delete(c, k)
			out = append(out, spell(c, "canonical"))
		}
	case "byteChanged":
		canon := spell(base, "canonical")
		for p := 0; p < len(canon); p++ {
			for _, r := range []byte{'0', 'x', '"'} {
				if canon[p] == r {
					continue
				}
				m := append([]byte{}, canon...)
				m[p] = r
				var probe interface{}
				if json.Unmarshal(m, &probe) == nil { // still JSON: a different value (or, rarely, the same one)
					a, _ := canonicalizer.MarshalCanonical(m)
					b2, _ := canonicalizer.MarshalCanonical(canon)
					if a != nil && !bytes.Equal(a, b2) {
						out = append(out, m)
					}
				}
			}
		}
	}
	return out
}

func rawMultihash(code byte, digest []byte) string {
	return b64e(append([]byte{code, byte(len(digest))}, digest...))
}

func digestOf(alg uint, b []byte) []byte {
	if alg == 18 {
		d := sha256.Sum256(b)
		return d[:]
	}
	d := sha512.Sum512(b)
	return d[:]
}

func otherAlg(a uint) uint {
	if a == 18 {
		return 19
	}
	return 18
}

type noMetricsDH struct{}

func (noMetricsDH) ProcessOperation(time.Duration)             {}
func (noMetricsDH) GetProtocolVersionTime(time.Duration)       {}
func (noMetricsDH) ParseOperationTime(time.Duration)           {}
func (noMetricsDH) ValidateOperationTime(time.Duration)        {}
func (noMetricsDH) DecorateOperationTime(time.Duration)        {}
func (noMetricsDH) AddUnpublishedOperationTime(time.Duration)  {}
func (noMetricsDH) AddOperationToBatchTime(time.Duration)      {}
func (noMetricsDH) GetCreateOperationResultTime(time.Duration) {}

func newResolver(alg uint) *dochandler.DocumentHandler {
	params := wire.Params(alg)
	v := wire.NewResolutionVersion(params)
	v.Validator = didvalidator.New()
	v.Transformer = didtransformer.New()
	pc := &wire.Client{Versions: []protocol.Version{v}}
	proc := processor.New("did:sidetree", wire.NewOpStore(), pc)
	return dochandler.New("did:sidetree", nil, pc, nil, proc, noMetricsDH{})
}

// C08: identifiers and hashes depend only on the JSON value and bind their content.
func C08(c *ev.Ctx) {
	r, err := tlc.Run(tlc.Opts{SpecDir: specDir(), Module: "Identity", Config: "Identity_" + c.Tier + ".cfg", WorkDir: c.Work, Timeout: 10 * time.Minute})
	if err != nil {
		ev.Fatal("TLC Identity: %v", err)
	}
	if r.InvariantViolated != "" {
		ev.Fatal("Identity.tla invariant violated: %s", r.InvariantViolated)
	}
	c.Cov.States, c.Cov.Transitions, c.Cov.CheckerCmd = r.Distinct, r.Generated, r.Cmd
	cases := make([]idCase, len(r.Cases))
	for i, raw := range r.Cases {
		if err := json.Unmarshal(raw, &cases[i]); err != nil {
			ev.Fatal("case: %v", err)
		}
	}
	base := parseNum(idModel)
	var mu sync.Mutex
	var evals, nt int64
	ParallelCases(len(cases), 120*time.Second, func(i int) {
		cs := &cases[i]
		local := int64(0)
		viol := func(class string, detail interface{}) {
			c.Violation("identity:"+cs.C.Kind+":"+class, map[string]interface{}{"case": cs.C, "expected": cs.Out, "detail": detail})
		}
		switch cs.C.Kind {
		case "hash":
			ref, err := hashing.CalculateModelMultihash(spell(base, "canonical"), cs.C.Alg)
			if err != nil {
				viol("hash-error", err.Error())
				return
			}
			// the multihash is the hash under the algorithm it names: recomputed independently (crypto/sha256, crypto/sha512,
			// hand-encoded multihash) over the canonical bytes
			if canon, cerr := canonicalizer.MarshalCanonical(spell(base, "canonical")); cerr != nil || ref != rawMultihash(byte(cs.C.Alg), digestOf(cs.C.Alg, canon)) {
				viol("hash-is-not-the-named-algorithm-over-the-canonical-form", map[string]interface{}{"library": ref, "independent": rawMultihash(byte(cs.C.Alg), digestOf(cs.C.Alg, canon))})
			}
			for _, alt := range alterations(cs.C.Alteration) {
				var v interface{} = parseNumBytes(alt)
				text := spell(v, cs.C.Spelling)
				got, err := hashing.CalculateModelMultihash(text, cs.C.Alg)
				local++
				if err != nil {
					viol("hash-error:"+cs.C.Spelling, map[string]string{"text": string(text), "error": err.Error()})
					continue
				}
				if (got == ref) != (cs.Out == "same") {
					viol(fmt.Sprintf("spelling=%s:alteration=%s", cs.C.Spelling, cs.C.Alteration), map[string]string{"text": string(text), "hash": got, "reference": ref})
				}
				// the struct path (json.Marshal of a Go value) must agree with the bytes path
				if cs.C.Alteration == "none" {
					var generic interface{}
					_ = json.Unmarshal(text, &generic)
					g2, err2 := hashing.CalculateModelMultihash(generic, cs.C.Alg)
					if err2 != nil || g2 != ref {
						viol("value-path-differs:"+cs.C.Spelling, map[string]string{"text": string(text), "hash": g2, "reference": ref})
					}
				}
			}
		case "validate":
			text := spell(base, cs.C.Spelling)
			canon := spell(base, "canonical")
			realCanon, _ := canonicalizer.MarshalCanonical(canon)
			var mhs []string
			switch cs.C.Mh {
			case "ownAlgOwnValue":
				mhs = []string{rawMultihash(byte(cs.C.Alg), digestOf(cs.C.Alg, realCanon))}
			case "otherAlgOwnValue":
				mhs = []string{rawMultihash(byte(otherAlg(cs.C.Alg)), digestOf(otherAlg(cs.C.Alg), realCanon))}
			case "ownAlgOtherValue":
				for _, alt := range alterations("memberValueChanged") {
					a, _ := canonicalizer.MarshalCanonical(alt)
					mhs = append(mhs, rawMultihash(byte(cs.C.Alg), digestOf(cs.C.Alg, a)))
				}
			case "digestRelabelled":
				d := digestOf(cs.C.Alg, realCanon)
				mhs = []string{rawMultihash(byte(otherAlg(cs.C.Alg)), d), rawMultihash(byte(otherAlg(cs.C.Alg)), d[:32])}
			case "digestTruncated":
				d := digestOf(cs.C.Alg, realCanon)
				mhs = []string{rawMultihash(byte(cs.C.Alg), d[:len(d)-1]), rawMultihash(byte(cs.C.Alg), d[:16]), b64e(append([]byte{byte(cs.C.Alg), byte(len(d))}, d[:len(d)-1]...))}
			case "garbage":
				mhs = []string{"AAAA", "!!!", b64e([]byte("garbage")), rawMultihash(0x99, digestOf(18, realCanon))}
			case "empty":
				mhs = []string{""}
			}
			for _, mh := range mhs {
				verr := hashing.IsValidModelMultihash(text, mh)
				local++
				if (verr == nil) != (cs.Out == "accept") {
					viol(fmt.Sprintf("%s:spelling=%s", cs.C.Mh, cs.C.Spelling), map[string]interface{}{"model": string(text), "multihash": mh, "error": fmt.Sprint(verr)})
				}
			}
		case "commit":
			kt := concr.KeyTypes[cs.C.Kt]
			_, pub, _, err := concr.NewKeyPair(kt)
			if err != nil {
				ev.Fatal("key: %v", err)
			}
			j, _ := pubkey.GetPublicKeyJWK(pub)
			if cs.C.Nonce {
				j.Nonce = b64e(make([]byte, 16))
			}
			cm, err1 := commitment.GetCommitment(j, cs.C.Alg)
			rv, err2 := commitment.GetRevealValue(j, cs.C.Alg)
			cm2, err3 := commitment.GetCommitmentFromRevealValue(rv)
			local++
			canonJWK, _ := canonicalizer.MarshalCanonical(jwkValue(j))
			d1 := digestOf(cs.C.Alg, canonJWK)
			wantRV, wantC := rawMultihash(byte(cs.C.Alg), d1), rawMultihash(byte(cs.C.Alg), digestOf(cs.C.Alg, d1))
			switch {
			case err1 != nil || err2 != nil || err3 != nil:
				viol("error:"+kt.String(), fmt.Sprint(err1, err2, err3))
			case cm != cm2:
				viol("commitment-differs-from-hash-of-reveal-value:"+kt.String(), map[string]string{"commitment": cm, "from_reveal": cm2})
			case rv != wantRV || cm != wantC:
				viol("differs-from-independent-computation:"+kt.String(), map[string]string{"reveal": rv, "expected_reveal": wantRV, "commitment": cm, "expected_commitment": wantC})
			}
			// an OKP (Ed25519) JWK has no "y" member (RFC 8037): the reveal value is the hash of THAT JSON value
			if kt == concr.Ed25519 && err2 == nil {
				okp := map[string]interface{}{"kty": j.Kty, "crv": j.Crv, "x": j.X}
				if cs.C.Nonce {
					okp["nonce"] = j.Nonce
				}
				canonOKP, _ := canonicalizer.MarshalCanonical(okp)
				if want := rawMultihash(byte(cs.C.Alg), digestOf(cs.C.Alg, canonOKP)); rv != want {
					viol("okp-key-hashed-with-empty-y-member", map[string]string{"key": string(canonOKP), "reveal": rv, "hash_of_the_key_value": want})
				}
			}
		case "longform":
			local += longFormCase(c, cs, viol)
		case "opreveal":
			local += revealCase(cs, viol)
		}
		mu.Lock()
		evals += local
		if cs.Out != "same" && cs.Out != "accept" && cs.Out != "resolves" || cs.C.Spelling != "" && cs.C.Spelling != "canonical" {
			nt++
		}
		mu.Unlock()
		if i%25 == 3 {
			c.AddSample(map[string]interface{}{"case": cs.C, "expected": cs.Out, "concrete_variants": local})
		}
	}, func(int) {})
	c.Cov.TracesValidatedAgainstImpl = evals
	c.Cov.Evaluations = evals
	c.Cov.DistinctNontrivial = nt
	c.Cov.Exhaustive = true
	c.Cov.Rule = "Identity.tla case families x both hash algorithms: (hash) 5 spellings (canonical, members reordered, whitespace, escapes, number spellings) x 5 alteration classes expanded to every member / every byte position of a model with escapes, numbers and nesting; (validate) 7 ways the presented multihash was made (own/other algorithm, other value, digest relabelled, truncated, garbage, empty) x spellings; (commit) 5 key types x nonce: commitment = hash of decoded reveal value, both recomputed independently (sha256/sha512 + hand-encoded multihash); (opreveal) update / recover / deactivate requests x intake / batch mode x reveal value of the signing key / of another key / relabelled x 5 key types through the real parser; (longform) 14 initial-state classes (canonical, reordered, whitespace, every suffix-data / delta member altered, added member, bad / padded base64, trailing bits, every byte position changed, empty, non-JSON) x suffix (match, other hash, leading / trailing characters dropped, characters added), resolved by the real DocumentHandler over an empty store, and with the DID's create sitting in the unpublished-operation store."
	c.Finish("model_checking")
}

func parseNumBytes(b []byte) interface{} { return parseNum(string(b)) }

func jwkValue(j *jws.JWK) interface{} {
	raw, _ := json.Marshal(j)
	var v interface{}
	_ = json.Unmarshal(raw, &v)
	return v
}

// newResolverUnpub: the same handler, but the DID's create request sits in the unpublished-operation store (accepted,
// not yet anchored).
func newResolverUnpub(alg uint, suffix string, createReq []byte) *dochandler.DocumentHandler {
	params := wire.Params(alg)
	v := wire.NewResolutionVersion(params)
	v.Validator = didvalidator.New()
	v.Transformer = didtransformer.New()
	pc := &wire.Client{Versions: []protocol.Version{v}}
	unpub := suffixStore{suffix: &operation.AnchoredOperation{Type: operation.TypeCreate, UniqueSuffix: suffix, OperationRequest: createReq}}
	proc := processor.New("did:sidetree", wire.NewOpStore(), pc, processor.WithUnpublishedOperationStore(unpub))
	return dochandler.New("did:sidetree", nil, pc, nil, proc, noMetricsDH{})
}

// revealCase: an update / recover / deactivate request signed by the key it carries, presented with the reveal value of
// that key, of another key, or with the right digest relabelled as the other algorithm - parsed by the real parser at
// intake and in batch mode (the mode in which anchored requests are parsed during resolution).
func revealCase(cs *idCase, viol func(string, interface{})) int64 {
	kt := concr.KeyTypes[cs.C.Kt]
	keys, err := concr.NewKeys(9, cs.C.Alg, func(int) concr.KeyType { return kt })
	if err != nil {
		ev.Fatal("keys: %v", err)
	}
	b, err := concr.NewBuilder(keys, concr.Shape{Ty: "C", Nuc: 4, Nrc: 1, Dl: "ok", Win: "none", P: 10, Sfx: "ok", Sig: "ok"})
	if err != nil {
		ev.Fatal("builder: %v", err)
	}
	sh := map[string]concr.Shape{"U": {Ty: "U", Rk: 4, Sig: "ok", Nuc: 5, Dl: "ok", Win: "none", P: 11, Sfx: "ok"},
		"R": {Ty: "R", Rk: 1, Sig: "ok", Nuc: 5, Nrc: 2, Dl: "ok", Win: "none", P: 11, Sfx: "ok"},
		"D": {Ty: "D", Rk: 1, Sig: "ok", Win: "none", Sfx: "ok"}}[cs.C.Ty]
	req, err := b.Request(sh)
	if err != nil {
		ev.Fatal("request: %v", err)
	}
	var m map[string]interface{}
	_ = json.Unmarshal(req, &m)
	own, _ := m["revealValue"].(string)
	switch cs.C.Rv {
	case "otherKey":
		m["revealValue"] = keys.ByID[7].RV
	case "relabelled":
		raw := b64d(own)
		m["revealValue"] = b64e(append([]byte{byte(otherAlg(cs.C.Alg)), raw[1]}, raw[2:]...))
	}
	presented, _ := canonicalizer.MarshalCanonical(m)
	params := wire.Params(cs.C.Alg)
	params.MultihashAlgorithms = []uint{18, 19}
	_, perr := operationparser.New(params).ParseOperation("did:sidetree", presented, cs.C.Mode == "batch")
	switch {
	case cs.Out == "accepted" && perr != nil:
		viol("consistent-request-rejected:"+cs.C.Ty+":"+cs.C.Mode, map[string]string{"request": string(presented), "error": perr.Error()})
	case cs.Out == "rejected" && perr == nil:
		viol("reveal-value-is-not-the-hash-of-the-signing-key-yet-accepted:"+cs.C.Ty+":"+cs.C.Mode+":"+cs.C.Rv, map[string]string{"request": string(presented), "key_type": kt.String()})
	}
	return 1
}

// suffixStore is an unpublished-operation store holding one operation per suffix.
type suffixStore map[string]*operation.AnchoredOperation

func (s suffixStore) Get(suffix string) ([]*operation.AnchoredOperation, error) {
	if op, ok := s[suffix]; ok {
		return []*operation.AnchoredOperation{op}, nil
	}
	return nil, fmt.Errorf("not found")
}

func longFormCase(c *ev.Ctx, cs *idCase, viol func(string, interface{})) int64 {
	var n int64
	// three initial states whose canonical lengths cover every remainder mod 3 (base64 trailing bits exist for two of them)
	for pad := 0; pad < 3; pad++ {
		n += longFormVariant(c, cs, viol, strings.Repeat("x", pad))
	}
	return n
}

func longFormVariant(c *ev.Ctx, cs *idCase, viol func(string, interface{}), pad string) int64 {
	alg := cs.C.Alg
	keys, err := concr.NewKeys(5, alg, func(int) concr.KeyType { return concr.P256 })
	if err != nil {
		ev.Fatal("keys: %v", err)
	}
	req, err := client.NewCreateRequest(&client.CreateRequestInfo{Patches: concr.DeltaPatches("ok", 10), RecoveryCommitment: keys.C(1), UpdateCommitment: keys.C(4),
		AnchorOrigin: "https://origin.example.com/" + pad, MultihashCode: alg})
	if err != nil {
		ev.Fatal("create: %v", err)
	}
	var m map[string]interface{}
	_ = json.Unmarshal(req, &m)
	sd := m["suffixData"].(map[string]interface{})
	delta := m["delta"].(map[string]interface{})
	sdCanon, _ := canonicalizer.MarshalCanonical(sd)
	suffix := rawMultihash(byte(alg), digestOf(alg, sdCanon))
	suffixes := []string{suffix}
	switch cs.C.Suffix {
	case "other":
		suffixes = []string{rawMultihash(byte(alg), digestOf(alg, []byte("another suffix data")))}
	case "tail":
		suffixes = []string{suffix[1:], suffix[2:], suffix[len(suffix)/2:], suffix[len(suffix)-1:]}
	case "head":
		suffixes = []string{suffix[:len(suffix)-1], suffix[:len(suffix)/2], suffix[:1]}
	case "extended":
		suffixes = []string{suffix + "A", "A" + suffix, suffix + suffix}
	}
	initial := map[string]interface{}{"delta": delta, "suffixData": sd}
	canon := func(v interface{}) []byte { b, _ := canonicalizer.MarshalCanonical(v); return b }
	clone := func() map[string]interface{} {
		var x map[string]interface{}
		_ = json.Unmarshal(canon(initial), &x)
		return x
	}
	var segs []string
	switch cs.C.Segment {
	case "canonical":
		segs = []string{b64e(canon(initial))}
	case "reordered":
		segs = []string{b64e(spell(parseNumBytes(canon(initial)), "reordered"))}
	case "whitespace":
		segs = []string{b64e(spell(parseNumBytes(canon(initial)), "whitespace")), b64e(append(canon(initial), ' '))}
	case "suffixDataAltered":
		for k := range sd {
			x := clone()
			x["suffixData"].(map[string]interface{})[k] = keys.C(2)
			segs = append(segs, b64e(canon(x)))
		}
		x := clone()
		x["suffixData"].(map[string]interface{})["type"] = "t"
		segs = append(segs, b64e(canon(x)))
	case "deltaAltered":
		x := clone()
		x["delta"].(map[string]interface{})["updateCommitment"] = keys.C(3)
		segs = append(segs, b64e(canon(x)))
		x = clone()
		var other map[string]interface{}
		_ = json.Unmarshal(canon(map[string]interface{}{"patches": concr.DeltaPatches("ok", 11)}), &other)
		x["delta"].(map[string]interface{})["patches"] = other["patches"]
		segs = append(segs, b64e(canon(x)))
	case "memberAdded":
		x := clone()
		x["extra"] = 1
		segs = append(segs, b64e(canon(x)))
	case "typeMemberIncluded":
		x := clone()
		x["type"] = "create"
		segs = append(segs, b64e(canon(x)))
	case "foreignTypeMember": // a "type" member that is not the type of the operation the initial state stands for
		for _, ty := range []interface{}{"update", "recover", "deactivate", "anything-at-all", "Create", ""} {
			if ty == "" {
				continue // an empty type is dropped by the model (omitempty): indistinguishable from the canonical form
			}
			x := clone()
			x["type"] = ty
			segs = append(segs, b64e(canon(x)))
		}
	case "badBase64":
		segs = []string{"***", b64e(canon(initial)) + "*"}
	case "paddedBase64":
		segs = []string{b64e(canon(initial)) + "="}
	case "trailingBits":
		s := b64e(canon(initial))
		// every other final character: some differ only in the unused trailing bits and decode to the same bytes
		const abc = "ABCDEFGHIJKLMNOPQRSTUVWXYZabcdefghijklmnopqrstuvwxyz0123456789-_"
		for k := 0; k < len(abc); k++ {
			if abc[k] != s[len(s)-1] {
				segs = append(segs, s[:len(s)-1]+string(abc[k]))
			}
		}
	case "byteChanged":
		cb := canon(initial)
		step := 9
		if c.Tier == "thorough" {
			step = 1
		}
		for p := 0; p < len(cb); p += step {
			for _, r := range []byte{'0', 'x', '"'} {
				if cb[p] != r {
					mm := append([]byte{}, cb...)
					mm[p] = r
					segs = append(segs, b64e(mm))
				}
			}
		}
	case "empty":
		segs = []string{""}
	case "notJson":
		segs = []string{b64e([]byte("not json")), b64e([]byte(`[1,2]`)), b64e([]byte(`null`))}
	}
	dh := newResolver(alg)
	dhU := newResolverUnpub(alg, suffix, req)
	var n int64
	for _, seg := range segs {
		for _, suffix := range suffixes {
			did := "did:sidetree:" + suffix + ":" + seg
			// nothing is anchored either when the create has merely been accepted (unpublished-operation store)
			func() {
				defer func() {
					if r := recover(); r != nil {
						viol("resolve-panics:"+cs.C.Segment, map[string]string{"did": did, "panic": fmt.Sprint(r), "create": "in the unpublished-operation store"})
					}
				}()
				_, uerr := dhU.ResolveDocument(did)
				n++
				if cs.Out == "rejected" && uerr == nil {
					viol("altered-long-form-resolves-while-create-is-unpublished:"+cs.C.Segment+":suffix-"+cs.C.Suffix, map[string]string{"did": did})
				}
				if cs.Out == "resolves" && uerr != nil {
					viol("canonical-long-form-rejected-while-create-is-unpublished", map[string]string{"did": did, "error": uerr.Error()})
				}
			}()
			var rerr error
			func() {
				defer func() {
					if r := recover(); r != nil {
						rerr = fmt.Errorf("PANIC: %v", r)
						viol("resolve-panics:"+cs.C.Segment, map[string]string{"did": did, "panic": fmt.Sprint(r)})
					}
				}()
				_, rerr = dh.ResolveDocument(did)
			}()
			n++
			switch {
			case cs.Out == "resolves" && rerr != nil:
				viol("canonical-long-form-rejected", map[string]string{"did": did, "error": rerr.Error()})
			case cs.Out == "rejected" && rerr == nil:
				viol("altered-long-form-resolves:"+cs.C.Segment+":suffix-"+cs.C.Suffix, map[string]string{"did": did})
			}
		}
	}
	return n
}
