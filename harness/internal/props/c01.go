package props

import (
	"sync/atomic"
	"time"

	"sidever/internal/concr"
	"sidever/internal/ev"
)

// C01: adding unauthorised operations / later duplicate creates leaves the REAL resolution result unchanged:
// real(store) = real(Legit(store)), where TLC supplies (store, Legit(store)) for every enumerated store and has
// checked NoForgeryEffect on the specification.
func C01(c *ev.Ctx) {
	run := runResolutionTLC(c, "MC_C01", tierCfg(c, "MC_C01"), 40*time.Minute)
	kts := []concr.KeyType{KeyTypeForSeed(c.Seed)}
	if c.Tier == "thorough" {
		kts = concr.KeyTypes
	}
	cases := run.Cases
	for ki, kt := range kts {
		hash := concr.SHA256
		if ki%2 == 1 {
			hash = concr.SHA512
		}
		e := mustEngine(run.Alpha, kt, hash)
		var replayed, nt int64
		ParallelCases(len(cases), 30*time.Second, func(i int) {
			cs := &cases[i]
			got, _, _ := e.Resolve(cs.Ops)
			var legit View
			if len(cs.Legit) == len(cs.Ops) {
				legit = got
			} else {
				legit, _, _ = e.Resolve(cs.Legit)
			}
			atomic.AddInt64(&replayed, 1)
			if cs.Na > 0 {
				atomic.AddInt64(&nt, 1)
			}
			if !got.Equal(legit) {
				c.Violation(classifyForgery(e, cs), map[string]interface{}{
					"store": e.Describe(cs.Ops), "legit_subset": cs.Legit, "real_with_forgeries": got, "real_without": legit,
					"spec": cs.Res, "key_type": kt.String(), "hash": hash})
			} else if !got.Equal(cs.Res) {
				// both real runs agree with each other but not with the specification: C03's business, noted only
				c.Note("store %s: real %s differs from specification %s (not a C01 verdict)", Key(cs.Ops), got, cs.Res)
			}
			if i%15000 == 11 && ki == 0 {
				c.AddSample(map[string]interface{}{"ops": cs.Ops, "legit": cs.Legit, "real": got, "real_legit_only": legit})
			}
		}, hangReporter(c, func(i int) interface{} { return e.Describe(cases[i].Ops) }))
		c.Cov.TracesValidatedAgainstImpl += replayed
		c.Cov.Evaluations += replayed
		if ki == 0 {
			c.Cov.DistinctNontrivial = nt
		}
	}
	c.Cov.Exhaustive = true
	c.Cov.Rule = "every store of <= MaxOps operations over {legit chain C,U,U,R,D} + unauthorised shapes (corrupted / forged-key / payload-altered signatures, reveal != signing key, attacker key revealed, delta != signed hash, later duplicate creates) at every coordinate assignment; verdict: real Resolve(store) = real Resolve(Legit(store)). Non-trivial: the store holds an unauthorised operation that WOULD change the specification's result if its signature/delta were genuine (computed by TLC)."
	c.Cov.Extra["key_types"] = len(kts)
	c.Assume = append(c.Assume, "unauthorised shapes are concretised so that exactly the stated defect is present (self-checked: reveal value / parseability)",
		"cryptographic primitives are trusted; what is decided is which key/payload the code checks")
	c.Finish("model_checking")
}

// classifyForgery names the unauthorised shape classes present in a failing store (the specific input class).
func classifyForgery(e *Engine, cs *ResCase) string {
	legit := map[string]bool{}
	for _, a := range cs.Legit {
		legit[Key([]AnchOp{a})] = true
	}
	cls := map[string]bool{}
	for _, a := range cs.Ops {
		if legit[Key([]AnchOp{a})] {
			continue
		}
		sh := e.Alpha[a.S-1]
		switch {
		case sh.Ty == "C":
			cls["dup-create-"+sh.Dl] = true
		case sh.Sig != "ok":
			cls[sh.Ty+"-sig-"+sh.Sig] = true
		case sh.Dl == "mismatch":
			cls[sh.Ty+"-delta-mismatch"] = true
		default:
			cls[sh.Ty+"-attacker-key"] = true
		}
	}
	out := "forgery-has-effect"
	for _, k := range sortedKeys(cls) {
		out += ":" + k
	}
	return out
}
