package props

import (
	"encoding/json"
	"fmt"
	"strings"
	"time"

	"sidever/internal/ev"
	"sidever/internal/tlc"
	"sidever/internal/wr"
)

// c16Design model-checks the implementation-shaped writer algorithm: invariants, refinement of WriterProp, liveness.
func c16Design(c *ev.Ctx) {
	for _, cfg := range []string{"MC_BW_mc.cfg", "MC_BW_live.cfg"} {
		r, err := tlc.Run(tlc.Opts{SpecDir: specDir(), Module: "MC_BW", Config: cfg, WorkDir: c.Work, Timeout: 15 * time.Minute})
		if err != nil {
			ev.Fatal("TLC %s: %v", cfg, err)
		}
		if r.InvariantViolated != "" {
			ev.Fatal("the writer algorithm model violates %s in %s (design-level; not a verdict about the code)\n%s", r.InvariantViolated, cfg, r.Output)
		}
		c.Cov.States += r.Distinct
		c.Cov.Transitions += r.Generated
		c.Cov.Extra["design_"+cfg] = fmt.Sprintf("%d distinct states, no violation (invariants, refinement of WriterProp / liveness under fairness)", r.Distinct)
	}
}

type schedCase struct {
	Hist     []string `json:"hist"`
	Anchored [][]int  `json:"anchored"`
	Expired  []int    `json:"expired"`
	Faults   int      `json:"faults"`
	Queue    []int    `json:"queue"`
}

var scripts = map[string][]wr.ScriptEntry{
	"Script3": {{Sfx: 1, Ver: 0}, {Sfx: 1, Ver: 5}, {Sfx: 2, Ver: 5}},
	"Script4": {{Sfx: 1, Ver: 0}, {Sfx: 1, Ver: 0}, {Sfx: 2, Ver: 5, Exp: true}, {Sfx: 2, Ver: 5}},
	"ScriptA": {{Sfx: 1, Ver: 0}, {Sfx: 1, Ver: 0}, {Sfx: 2, Ver: 0}},
	"ScriptB": {{Sfx: 1, Ver: 5}, {Sfx: 2, Ver: 0, Exp: true}, {Sfx: 2, Ver: 0}},
}

// c16Driven replays every TLC-generated schedule (interleaving of scripted submissions with the writer's steps, fault
// placements) on the real writer, single-stepped through its gates, and validates the recorded traces.
func c16Driven(c *ev.Ctx) {
	cfgs := map[string][]string{
		"quick":    {"MC_BW_gen_quick_Script3", "MC_BW_gen_quick_ScriptA", "MC_BW_gen_quick_ScriptB"},
		"thorough": {"MC_BW_gen_quick_Script3", "MC_BW_gen_quick_ScriptA", "MC_BW_gen_quick_ScriptB", "MC_BW_gen_thorough_Script4"},
	}[c.Tier]
	f, err := wr.NewFactory(3, KeyTypeForSeed(c.Seed))
	if err != nil {
		ev.Fatal("factory: %v", err)
	}
	var all strings.Builder
	var ends []int
	total, nSched, inSync, faulty, interleaved, modelAgree, nontriv := 0, 0, 0, 0, 0, 0, 0
	var traces [][2]int
	for _, cfg := range cfgs {
		script := scripts[cfg[strings.LastIndex(cfg, "_")+1:]]
		r, err := tlc.Run(tlc.Opts{SpecDir: specDir(), Module: "MC_BW", Config: cfg + ".cfg", WorkDir: c.Work, Timeout: 20 * time.Minute})
		if err != nil {
			ev.Fatal("TLC %s: %v", cfg, err)
		}
		if r.InvariantViolated != "" {
			ev.Fatal("model invariant violated during schedule generation (%s): %s", cfg, r.InvariantViolated)
		}
		c.Cov.States += r.Distinct
		c.Cov.Transitions += r.Generated
		for _, raw := range r.Cases {
			var sc schedCase
			if err := json.Unmarshal(raw, &sc); err != nil {
				ev.Fatal("schedule: %v", err)
			}
			d, err := wr.NewDriven(f, script, 2, func(r *wr.Rig) { currentRig.Store(r) })
			if err != nil {
				ev.Fatal("driven: %v", err)
			}
			if err := d.Run(sc.Hist); err != nil {
				ev.Fatal("schedule execution: %v", err)
			}
			nSched++
			if d.InSync {
				inSync++
			} else if nSched < 2000 {
				c.Note("schedule %v left the model's step sequence: %s", sc.Hist, d.Desync)
			}
			if sc.Faults > 0 {
				faulty++
			}
			if isInterleaved(sc.Hist) {
				interleaved++
			}
			if sc.Faults > 0 || isInterleaved(sc.Hist) {
				nontriv++
			}
			evs := d.Rig.Snapshot()
			start := total
			all.WriteString(d.Rig.NDJSON())
			all.WriteString(`{"ev":"Reset"}` + "\n")
			total += len(evs) + 1
			ends = append(ends, total)
			traces = append(traces, [2]int{start, total})
			if d.InSync && anchoredPrefixAgrees(evs, sc.Anchored) {
				modelAgree++
			}
			if nSched%1500 == 1 {
				c.AddSample(map[string]interface{}{"kind": "TLC schedule replayed on the real writer", "script": script, "schedule": sc.Hist, "model_anchored": sc.Anchored, "real_events": len(evs)})
			}
		}
	}
	res, ok := validateWriterTracesCfg(c, all.String(), "WriterPropTrace2.cfg")
	c.Cov.States += res.Distinct
	c.Cov.Transitions += res.Generated
	c.Cov.TracesValidatedAgainstImpl += int64(nSched)
	c.Cov.Evaluations += int64(total)
	c.Cov.DistinctNontrivial += int64(nontriv)
	c.Cov.Extra["schedules"] = nSched
	c.Cov.Extra["schedules_followed_step_by_step"] = inSync
	c.Cov.Extra["schedules_with_fault"] = faulty
	c.Cov.Extra["schedules_with_add_inside_a_round"] = interleaved
	c.Cov.Extra["schedules_whose_anchored_batches_equal_the_model"] = modelAgree
	if nSched > 0 && inSync*2 < nSched {
		c.Note("fewer than half of the schedules could be followed step by step: the code's step sequence differs from BatchWriter.tla (outcomes are still judged against WriterProp)")
	}
	if !ok {
		bad := locateBadRunCfg(c, all.String(), ends, "WriterPropTrace2.cfg")
		lines := strings.Split(all.String(), "\n")
		var tr []string
		if bad >= 0 {
			tr = lines[traces[bad][0]:traces[bad][1]]
		}
		c.Violation("driven-writer-trace-rejected", map[string]interface{}{"schedule_index": bad, "trace": tr, "tlc": lastN(res.Output, 25),
			"note": "the execution of the real batch writer under a TLC-generated schedule is not a behaviour of WriterProp"})
	}
}

func isInterleaved(h []string) bool {
	in := false
	for _, l := range h {
		switch {
		case l == "T0" || l == "T1":
			in = true
		case l == "A" && in:
			return true
		}
	}
	return false
}

// anchoredPrefixAgrees compares the batches anchored by the real run (in order) with the model's, as far as the model goes.
func anchoredPrefixAgrees(evs []wr.Event, model [][]int) bool {
	var real [][]int
	for _, e := range evs {
		if e["ev"] == "Anchor" {
			real = append(real, e["inc"].([]int))
		}
	}
	if len(real) < len(model) {
		return false
	}
	for i := range model {
		if fmt.Sprint(real[i]) != fmt.Sprint(model[i]) {
			return false
		}
	}
	return true
}
