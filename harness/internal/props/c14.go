package props

import (
	"encoding/json"
	"fmt"
	"math/rand"
	"sync"
	"time"

	"github.com/trustbloc/sidetree-core-go/pkg/api/operation"
	"github.com/trustbloc/sidetree-core-go/pkg/api/txn"
	"github.com/trustbloc/sidetree-core-go/pkg/versions/1_0/model"

	"sidever/internal/bf"
	"sidever/internal/ev"
)

// postcondition of a successful read (C14): count = anchor count, distinct suffixes, validated deltas, parseable
// signed data.
func readPostcondition(rig *bf.Rig, anchor string, ops []*operation.AnchoredOperation) string {
	var n int
	if _, err := fmt.Sscanf(anchor, "%d.", &n); err != nil || n != len(ops) {
		return fmt.Sprintf("count %d differs from anchor string %q", len(ops), anchor)
	}
	seen := map[string]bool{}
	for _, o := range ops {
		if seen[o.UniqueSuffix] {
			return "duplicate suffix " + o.UniqueSuffix
		}
		seen[o.UniqueSuffix] = true
		// only what the property names: the delta is valid, the signed data parses (reveal values, signed suffixes etc.
		// are checked at resolution, not by the reader)
		var req struct {
			Delta      *model.DeltaModel `json:"delta"`
			SignedData string            `json:"signedData"`
		}
		if err := json.Unmarshal(o.OperationRequest, &req); err != nil {
			return "request is not JSON: " + err.Error()
		}
		if o.Type != operation.TypeDeactivate {
			if err := rig.Parser.ValidateDelta(req.Delta); err != nil {
				return "delta not valid: " + err.Error()
			}
		}
		var err error
		switch o.Type {
		case operation.TypeUpdate:
			_, err = rig.Parser.ParseSignedDataForUpdate(req.SignedData)
		case operation.TypeRecover:
			_, err = rig.Parser.ParseSignedDataForRecover(req.SignedData)
		case operation.TypeDeactivate:
			_, err = rig.Parser.ParseSignedDataForDeactivate(req.SignedData)
		}
		if err != nil {
			return "signed data not parseable: " + err.Error()
		}
	}
	return ""
}

var _ = model.Operation{}

func mutClass(cs *bf.Case) string {
	s := ""
	for _, m := range cs.Muts {
		s += ":" + m.K
		if m.L != "" {
			s += "-" + m.L
		}
	}
	if cs.Opaque != "none" {
		s += ":" + cs.Opaque
	}
	return s
}

// C14: reading batch files is safe against arbitrary CAS content: never a panic; a successful read satisfies the
// postcondition; every fault class the property names is rejected.
func C14(c *ev.Ctx) {
	cases := runBatchFilesTLC(c, "BatchFiles_C14_"+c.Tier+".cfg")
	pool, err := bf.NewPool(3, KeyTypeForSeed(c.Seed), 4)
	if err != nil {
		ev.Fatal("pool: %v", err)
	}
	var mu sync.Mutex
	var nt, realOkSpecErr, realErrSpecOk int64
	ParallelCases(len(cases), 60*time.Second, func(i int) {
		cs := &cases[i]
		if len(cs.Inc) == 0 {
			return // nothing included: the handler anchors "0.<uri>", which is not a readable anchor string (see DESIGN)
		}
		rig := bf.NewRig(bf.Params())
		q := pool.Queued(cs.Batch)
		info, err := rig.Handler.PrepareTxnFiles(q)
		if err != nil {
			ev.Fatal("handler: %v", err)
		}
		fs, err := rig.Locate(info.AnchorString)
		if err != nil {
			ev.Fatal("locate: %v", err)
		}
		for _, m := range cs.Muts {
			if err := rig.ApplyMut(fs, m, pool); err != nil {
				ev.Fatal("mutation %+v on batch %v: %v", m, cs.Batch, err)
			}
		}
		t := &txn.SidetreeTxn{AnchorString: fs.Anchor, Namespace: "did:sidetree"}
		if cs.Opaque != "none" {
			rig, t, err = rig.ApplyOpaque(fs, cs.Opaque, int(c.Seed)+i)
			if err != nil {
				ev.Fatal("opaque %s: %v", cs.Opaque, err)
			}
		}
		cls := mutClass(cs)
		var ops []*operation.AnchoredOperation
		var rerr error
		func() {
			defer func() {
				if r := recover(); r != nil {
					rerr = fmt.Errorf("PANIC")
					c.Violation("reader-panics"+cls, map[string]interface{}{"batch": cs.Batch, "mutations": cs.Muts, "opaque": cs.Opaque, "panic": fmt.Sprint(r)})
				}
			}()
			ops, rerr = rig.Provider.GetTxnOperations(t)
		}()
		mu.Lock()
		nt++
		mu.Unlock()
		if rerr == nil {
			if bad := readPostcondition(rig, t.AnchorString, ops); bad != "" {
				c.Violation("read-ok-violates-postcondition"+cls, map[string]interface{}{"batch": cs.Batch, "mutations": cs.Muts, "opaque": cs.Opaque, "problem": bad})
			} else if cs.Verdict == "error" {
				c.Violation("must-reject-but-accepted"+cls, map[string]interface{}{"batch": cs.Batch, "mutations": cs.Muts, "opaque": cs.Opaque, "read_ops": len(ops), "anchor": t.AnchorString})
				mu.Lock()
				realOkSpecErr++
				mu.Unlock()
			}
		} else if cs.Verdict == "ok" {
			mu.Lock()
			realErrSpecOk++
			mu.Unlock()
			if cs.Opaque != "none" || len(cs.Muts) == 0 {
				// an alternate source that serves the file / an unmutated file set must be readable
				c.Violation("valid-files-rejected"+cls, map[string]interface{}{"batch": cs.Batch, "opaque": cs.Opaque, "error": rerr.Error()})
			}
		}
		if i%2000 == 29 {
			e := ""
			if rerr != nil {
				e = rerr.Error()
			}
			c.AddSample(map[string]interface{}{"batch": cs.Batch, "mutations": cs.Muts, "opaque": cs.Opaque, "spec_verdict": cs.Verdict, "real_error": e})
		}
	}, func(int) {})
	byteLevel(c, pool)
	c.Cov.TracesValidatedAgainstImpl += nt
	c.Cov.Evaluations += nt
	c.Cov.DistinctNontrivial += nt
	c.Cov.Exhaustive = true
	c.Cov.Extra["spec_ok_but_real_rejects_structurally_mutated_files"] = realErrSpecOk
	c.Cov.Rule = "every batch of <= MaxBatch operations x every structural mutation (single; thorough: pairs) of its real files - index / proof entry or delta dropped, duplicated, retargeted, deltas swapped, proof / chunk / provisional reference removed or added, anchor count +-1 - and every opaque fault class per file (oversize against the file's own limit, decompression bomb, over-long URI, null / type-confused member, CAS read failure with and without a serving alternate source, garbage anchor strings); BatchFiles!Read gives the verdict for structural mutations, MustReject for the named classes; the real provider must not panic, a successful read must satisfy the postcondition (count, distinct suffixes, valid deltas, parseable signed data), and every must-reject case must be an error. Plus a byte-level channel: truncations, bit flips and byte substitutions of the compressed and the decompressed files."
	c.Finish("model_checking")
}

// byteLevel: seeded truncations / bit flips / substitutions of each compressed and decompressed file.
func byteLevel(c *ev.Ctx, pool *bf.Pool) {
	rng := rand.New(rand.NewSource(c.Seed + 1414))
	batch := []bf.Op{{ID: 1, Ty: "C", Sfx: 1}, {ID: 2, Ty: "U", Sfx: 2}, {ID: 3, Ty: "R", Sfx: 3}, {ID: 4, Ty: "D", Sfx: 1}}
	batch[3].Sfx = 1
	batch = []bf.Op{{ID: 1, Ty: "C", Sfx: 1}, {ID: 2, Ty: "U", Sfx: 2}, {ID: 3, Ty: "R", Sfx: 3}}
	n := 300
	if c.Tier == "thorough" {
		n = 6000
	}
	var calls int64
	for k := 0; k < n; k++ {
		rig := bf.NewRig(bf.Params())
		info, err := rig.Handler.PrepareTxnFiles(pool.Queued(batch))
		if err != nil {
			ev.Fatal("handler: %v", err)
		}
		fs, _ := rig.Locate(info.AnchorString)
		files := []string{fs.CoreIndex, fs.CoreProof, fs.ProvIndex, fs.ProvProof, fs.Chunk}
		u := files[rng.Intn(len(files))]
		content := rig.CAS.M[u]
		mode := rng.Intn(4)
		var mutated []byte
		switch mode {
		case 0: // truncate compressed
			mutated = append([]byte{}, content[:rng.Intn(len(content))]...)
		case 1: // flip a bit of the compressed bytes
			mutated = append([]byte{}, content...)
			mutated[rng.Intn(len(mutated))] ^= 1 << uint(rng.Intn(8))
		default: // edit the decompressed JSON bytes, recompress
			raw, _ := bfDecompress(content)
			raw = append([]byte{}, raw...)
			if mode == 2 {
				raw = raw[:rng.Intn(len(raw))]
			} else {
				for j := 0; j < 1+rng.Intn(3); j++ {
					raw[rng.Intn(len(raw))] = "{}[]\",:0a \\"[rng.Intn(11)]
				}
			}
			mutated = bfCompress(raw)
		}
		rig.CAS.M[u] = mutated
		t := &txn.SidetreeTxn{AnchorString: info.AnchorString, Namespace: "did:sidetree"}
		func() {
			defer func() {
				if r := recover(); r != nil {
					c.Violation("reader-panics:byte-level", map[string]interface{}{"file": u, "mode": mode, "content": fmt.Sprintf("%x", mutated), "panic": fmt.Sprint(r)})
				}
			}()
			ops, err := rig.Provider.GetTxnOperations(t)
			calls++
			if err == nil {
				if bad := readPostcondition(rig, t.AnchorString, ops); bad != "" {
					c.Violation("read-ok-violates-postcondition:byte-level", map[string]interface{}{"file": u, "mode": mode, "problem": bad})
				}
			}
		}()
	}
	c.Cov.Evaluations += calls
	c.Cov.Extra["byte_level_reads"] = calls
}

func bfDecompress(b []byte) ([]byte, error) { return bf.Decompress(b) }
func bfCompress(b []byte) []byte            { return bf.Compress(b) }
