// Package bf binds BatchFiles.tla to the REAL OperationHandler (writer of batch files) and OperationProvider
// (reader): batches are concretised into client-style queued operations, files are written by the real handler
// into an in-memory CAS addressed by URI, mutated as the specification says, and read back by the real provider.
package bf

import (
	"encoding/base64"
	"encoding/json"
	"errors"
	"fmt"
	"strings"

	"github.com/trustbloc/sidetree-core-go/pkg/api/operation"
	"github.com/trustbloc/sidetree-core-go/pkg/api/protocol"
	"github.com/trustbloc/sidetree-core-go/pkg/api/txn"
	"github.com/trustbloc/sidetree-core-go/pkg/compression"
	"github.com/trustbloc/sidetree-core-go/pkg/versions/1_0/operationparser"
	"github.com/trustbloc/sidetree-core-go/pkg/versions/1_0/txnprovider"

	"sidever/internal/concr"
	"sidever/internal/wire"
)

// ExpiredMarker makes the time validator report an operation as expired.
const ExpiredMarker = concr.BaseTime - 777

type expiry struct{}

func (expiry) Validate(_, until int64) error {
	if until == ExpiredMarker {
		return operationparser.ErrOperationExpired
	}
	return nil
}

type noMetrics struct{}

func (noMetrics) CASWriteSize(string, int) {}

// Op is a queued operation of a BatchFiles.tla batch.
type Op struct {
	ID  int    `json:"id"`
	Ty  string `json:"ty"`
	Sfx int    `json:"sfx"`
	Exp bool   `json:"exp"`
}

// Mut is a structural mutation.
type Mut struct {
	K  string `json:"k"`
	L  string `json:"l"`
	I  int    `json:"i"`
	To int    `json:"to"`
}

// ReadOp is an operation the specification expects to be read back.
type ReadOp struct {
	Ty    string `json:"ty"`
	Sfx   int    `json:"sfx"`
	ID    int    `json:"id"`
	Proof int    `json:"proof"`
	Delta int    `json:"delta"`
}

// Case is one emitted state of BatchFiles.tla.
type Case struct {
	Batch   []Op     `json:"batch"`
	Muts    []Mut    `json:"muts"`
	Opaque  string   `json:"opaque"`
	Verdict string   `json:"verdict"`
	Ops     []ReadOp `json:"ops"`
	Inc     []int    `json:"inc"`
	Def     []int    `json:"def"`
	Exp     []int    `json:"exp"`
}

// CAS is an in-memory store addressed by URI (content can be replaced in place).
type CAS struct {
	M       map[string][]byte
	n       int
	FailURI string
}

func (c *CAS) Write(b []byte) (string, error) {
	c.n++
	u := fmt.Sprintf("bafkrei%05d", c.n)
	c.M[u] = append([]byte{}, b...)
	return u, nil
}

func (c *CAS) Read(u string) ([]byte, error) {
	if u == c.FailURI && u != "" {
		return nil, errors.New("injected CAS read failure")
	}
	b, ok := c.M[u]
	if !ok {
		return nil, errors.New("content not found")
	}
	return b, nil
}

// Pool pre-builds real requests: a few distinct ones per (type, suffix, expired).
type Pool struct {
	Keys     *concr.Keys
	builders map[int]*concr.Builder
	reqs     map[string][][]byte
	used     map[string]int
	Origin   map[string]interface{} // request bytes -> anchor origin embedded (create / recover)
}

// NewPool builds requests for suffixes 1..nSfx.
func NewPool(nSfx int, kt concr.KeyType, perKind int) (*Pool, error) {
	keys, err := concr.NewKeys(9, concr.SHA256, func(int) concr.KeyType { return kt })
	if err != nil {
		return nil, err
	}
	p := &Pool{Keys: keys, builders: map[int]*concr.Builder{}, reqs: map[string][][]byte{}, Origin: map[string]interface{}{}}
	for s := 1; s <= nSfx; s++ {
		sh := concr.Shape{Ty: "C", Nuc: 4, Nrc: 1, Dl: "ok", Win: "none", P: s * 1000, Sfx: "ok", Sig: "ok"}
		// every second DID carries the optional suffix data property "type"
		typ := ""
		if s%2 == 0 {
			typ = fmt.Sprintf("entity%d", s)
		}
		b, err := concr.NewBuilderTyped(keys, sh, nil, fmt.Sprintf("https://origin-%d.example.com", s), typ)
		if err != nil {
			return nil, err
		}
		p.builders[s] = b
		seq := 0
		for _, ty := range []string{"C", "U", "R", "D"} {
			for _, exp := range []bool{false, true} {
				if ty == "C" && exp {
					continue
				}
				for k := 0; k < perKind; k++ {
					seq++
					bb := *b
					if exp {
						bb.WinOverride = &[2]int64{ExpiredMarker - 100, ExpiredMarker}
					} else if ty != "C" {
						bb.WinOverride = &[2]int64{concr.BaseTime - 100000 - int64(seq), concr.BaseTime + 100000000}
					}
					var req []byte
					switch ty {
					case "C":
						req, err = bb.Request(sh)
					case "U":
						req, err = bb.Request(concr.Shape{Ty: "U", Rk: 4, Sig: "ok", Nuc: 5, Dl: "ok", P: s*1000 + seq, Sfx: "ok"})
					case "R":
						req, err = bb.Request(concr.Shape{Ty: "R", Rk: 1, Sig: "ok", Nuc: 5, Nrc: 2, Dl: "ok", P: s*1000 + seq, Sfx: "ok"})
					case "D":
						req, err = bb.Request(concr.Shape{Ty: "D", Rk: 1, Sig: "ok", Sfx: "ok"})
					}
					if err != nil {
						return nil, err
					}
					key := fmt.Sprintf("%s/%d/%v", ty, s, exp)
					p.reqs[key] = append(p.reqs[key], req)
				}
			}
		}
	}
	return p, nil
}

// Suffix returns the suffix string of abstract suffix s (s = 9: a fresh, well-formed suffix not in any batch).
func (p *Pool) Suffix(s int) string {
	if b, ok := p.builders[s]; ok {
		return b.Suffix
	}
	return "EiDfreshsuffixAAAAAAAAAAAAAAAAAAAAAAAAAAAAAAAAA"
}

// Rig is one write/read environment.
type Rig struct {
	CAS      *CAS
	Params   protocol.Protocol
	Handler  *txnprovider.OperationHandler
	Provider *txnprovider.OperationProvider
	Parser   *operationparser.Parser
}

// NewRig wires a real handler and provider over a fresh CAS.
func NewRig(params protocol.Protocol) *Rig {
	cas := &CAS{M: map[string][]byte{}}
	cp := compression.New(compression.WithDefaultAlgorithms())
	parser := operationparser.New(params, operationparser.WithAnchorTimeValidator(expiry{}))
	return &Rig{CAS: cas, Params: params, Parser: parser,
		Handler: txnprovider.NewOperationHandler(params, cas, cp, parser, noMetrics{}),
		Provider: txnprovider.NewOperationProvider(params, parser, cas, cp,
			txnprovider.WithSourceCASURIFormatter(func(uri, source string) (string, error) { return source + ":" + uri, nil }))}
}

// Params returns the protocol configuration for batch-file checks.
func Params() protocol.Protocol {
	p := wire.Params(concr.SHA256)
	p.MaxOperationCount = 50
	return p
}

// Queued concretises a batch; the k-th use of the same (type, suffix, expired) takes the k-th pooled request.
func (p *Pool) Queued(batch []Op) []*operation.QueuedOperation {
	used := map[string]int{}
	out := make([]*operation.QueuedOperation, len(batch))
	for i, o := range batch {
		key := fmt.Sprintf("%s/%d/%v", o.Ty, o.Sfx, o.Exp)
		list := p.reqs[key]
		req := list[used[key]%len(list)]
		used[key]++
		out[i] = &operation.QueuedOperation{Type: concr.OpType(o.Ty), OperationRequest: req, UniqueSuffix: p.Suffix(o.Sfx), Namespace: "did:sidetree"}
	}
	return out
}

var comp = compression.New(compression.WithDefaultAlgorithms())

func gunzipJSON(b []byte) (map[string]interface{}, error) {
	raw, err := comp.Decompress("GZIP", b)
	if err != nil {
		return nil, err
	}
	var m map[string]interface{}
	if err := json.Unmarshal(raw, &m); err != nil {
		return nil, err
	}
	return m, nil
}

func gzipJSON(m interface{}) []byte {
	raw, _ := json.Marshal(m)
	b, err := comp.Compress("GZIP", raw)
	if err != nil {
		panic(err)
	}
	return b
}

// FileSet locates the files of a written transaction.
type FileSet struct {
	Anchor    string
	CoreIndex string
	CoreProof string
	ProvIndex string
	ProvProof string
	Chunk     string
}

// Locate follows the references from the anchor string.
func (r *Rig) Locate(anchor string) (*FileSet, error) {
	parts := strings.SplitN(anchor, ".", 2)
	if len(parts) != 2 {
		return nil, fmt.Errorf("anchor %q", anchor)
	}
	fs := &FileSet{Anchor: anchor, CoreIndex: parts[1]}
	ci, err := gunzipJSON(r.CAS.M[fs.CoreIndex])
	if err != nil {
		return nil, err
	}
	fs.CoreProof, _ = ci["coreProofFileUri"].(string)
	fs.ProvIndex, _ = ci["provisionalIndexFileUri"].(string)
	if fs.ProvIndex != "" {
		pi, err := gunzipJSON(r.CAS.M[fs.ProvIndex])
		if err != nil {
			return nil, err
		}
		fs.ProvProof, _ = pi["provisionalProofFileUri"].(string)
		if ch, ok := pi["chunks"].([]interface{}); ok && len(ch) > 0 {
			fs.Chunk, _ = ch[0].(map[string]interface{})["chunkFileUri"].(string)
		}
	}
	return fs, nil
}

func (fs *FileSet) uri(name string) string {
	switch name {
	case "coreIndex":
		return fs.CoreIndex
	case "coreProof":
		return fs.CoreProof
	case "provIndex":
		return fs.ProvIndex
	case "provProof":
		return fs.ProvProof
	case "chunk":
		return fs.Chunk
	}
	return ""
}

func opsList(m map[string]interface{}, list string) []interface{} {
	ops, _ := m["operations"].(map[string]interface{})
	if ops == nil {
		return nil
	}
	l, _ := ops[list].([]interface{})
	return l
}

func setOpsList(m map[string]interface{}, list string, v []interface{}) {
	ops, _ := m["operations"].(map[string]interface{})
	if ops == nil {
		ops = map[string]interface{}{}
		m["operations"] = ops
	}
	ops[list] = v
}

func removeAt(l []interface{}, i int) []interface{} {
	out := append([]interface{}{}, l[:i]...)
	return append(out, l[i+1:]...)
}

func dupAt(l []interface{}, i int) []interface{} {
	out := append([]interface{}{}, l[:i+1]...)
	out = append(out, l[i])
	return append(out, l[i+1:]...)
}

// ApplyMut applies one structural mutation to the real files (in place in the CAS) and returns the new anchor string.
func (r *Rig) ApplyMut(fs *FileSet, m Mut, pool *Pool) error {
	edit := func(uri string, f func(map[string]interface{}) error) error {
		if uri == "" {
			return fmt.Errorf("mutation %+v: file not present", m)
		}
		j, err := gunzipJSON(r.CAS.M[uri])
		if err != nil {
			return err
		}
		if err := f(j); err != nil {
			return err
		}
		r.CAS.M[uri] = gzipJSON(j)
		return nil
	}
	idxFile := func() string {
		if m.L == "update" {
			return fs.ProvIndex
		}
		return fs.CoreIndex
	}
	prfFile := func() string {
		if m.L == "update" {
			return fs.ProvProof
		}
		return fs.CoreProof
	}
	switch m.K {
	case "dropIdx", "dupIdx", "retarget":
		return edit(idxFile(), func(j map[string]interface{}) error {
			l := opsList(j, m.L)
			if m.I > len(l) {
				return fmt.Errorf("index out of range")
			}
			switch m.K {
			case "dropIdx":
				setOpsList(j, m.L, removeAt(l, m.I-1))
			case "dupIdx":
				setOpsList(j, m.L, dupAt(l, m.I-1))
			case "retarget":
				l[m.I-1].(map[string]interface{})["didSuffix"] = pool.Suffix(m.To)
			}
			return nil
		})
	case "dropPrf", "dupPrf":
		return edit(prfFile(), func(j map[string]interface{}) error {
			l := opsList(j, m.L)
			if m.I > len(l) {
				return fmt.Errorf("index out of range")
			}
			if m.K == "dropPrf" {
				setOpsList(j, m.L, removeAt(l, m.I-1))
			} else {
				setOpsList(j, m.L, dupAt(l, m.I-1))
			}
			return nil
		})
	case "dropDelta", "dupDelta", "swapDelta":
		return edit(fs.Chunk, func(j map[string]interface{}) error {
			l, _ := j["deltas"].([]interface{})
			switch m.K {
			case "dropDelta":
				j["deltas"] = removeAt(l, m.I-1)
			case "dupDelta":
				j["deltas"] = dupAt(l, m.I-1)
			case "swapDelta":
				l[m.I-1], l[m.I] = l[m.I], l[m.I-1]
			}
			return nil
		})
	case "clearRef":
		switch m.L {
		case "coreProof":
			return edit(fs.CoreIndex, func(j map[string]interface{}) error { delete(j, "coreProofFileUri"); return nil })
		case "provIndex":
			return edit(fs.CoreIndex, func(j map[string]interface{}) error { delete(j, "provisionalIndexFileUri"); return nil })
		case "provProof":
			return edit(fs.ProvIndex, func(j map[string]interface{}) error { delete(j, "provisionalProofFileUri"); return nil })
		case "chunk":
			return edit(fs.ProvIndex, func(j map[string]interface{}) error { j["chunks"] = []interface{}{}; return nil })
		}
	case "addRef":
		u, _ := r.CAS.Write(gzipJSON(map[string]interface{}{"operations": map[string]interface{}{}}))
		switch m.L {
		case "coreProof":
			fs.CoreProof = u
			return edit(fs.CoreIndex, func(j map[string]interface{}) error { j["coreProofFileUri"] = u; return nil })
		case "provProof":
			fs.ProvProof = u
			return edit(fs.ProvIndex, func(j map[string]interface{}) error { j["provisionalProofFileUri"] = u; return nil })
		}
	case "count":
		parts := strings.SplitN(fs.Anchor, ".", 2)
		var n int
		fmt.Sscanf(parts[0], "%d", &n)
		fs.Anchor = fmt.Sprintf("%d.%s", n+m.I, parts[1])
		return nil
	case "dropProvisional":
		// no provisional index reference, and the anchor count says exactly what is left: the deactivate operations
		nD := 0
		if err := edit(fs.CoreIndex, func(j map[string]interface{}) error {
			delete(j, "provisionalIndexFileUri")
			if ops, ok := j["operations"].(map[string]interface{}); ok {
				if d, ok := ops["deactivate"].([]interface{}); ok {
					nD = len(d)
				}
			}
			return nil
		}); err != nil {
			return err
		}
		parts := strings.SplitN(fs.Anchor, ".", 2)
		fs.Anchor = fmt.Sprintf("%d.%s", nD, fs.CoreIndex)
		_ = parts
		return nil
	case "blankChunkRef":
		// a chunk entry that names no file; whatever the CAS would serve under the empty address must not be read
		r.CAS.M[""] = r.CAS.M[fs.Chunk]
		return edit(fs.ProvIndex, func(j map[string]interface{}) error {
			j["chunks"] = []interface{}{[]interface{}{map[string]interface{}{}, map[string]interface{}{"chunkFileUri": ""}, nil}[(m.I-1)%3]}
			return nil
		})
	case "addChunkRef":
		return edit(fs.ProvIndex, func(j map[string]interface{}) error {
			chunks, _ := j["chunks"].([]interface{})
			j["chunks"] = append(chunks, map[string]interface{}{"chunkFileUri": fs.Chunk})
			return nil
		})
	}
	return fmt.Errorf("unknown mutation %+v", m)
}

// ApplyOpaque realises an opaque fault class; it may adjust the protocol parameters (returning a new rig that shares
// the CAS) and the transaction (alternate sources).
func (r *Rig) ApplyOpaque(fs *FileSet, class string, variant int) (*Rig, *txn.SidetreeTxn, error) {
	t := &txn.SidetreeTxn{AnchorString: fs.Anchor, Namespace: "did:sidetree"}
	kind, file := class, ""
	if i := strings.IndexByte(class, ':'); i >= 0 {
		kind, file = class[:i], class[i+1:]
	}
	uri := fs.uri(file)
	params := r.Params
	setMax := func(v uint) {
		switch file {
		case "coreIndex":
			params.MaxCoreIndexFileSize = v
		case "coreProof", "provProof":
			params.MaxProofFileSize = v
		case "provIndex":
			params.MaxProvisionalIndexFileSize = v
		case "chunk":
			params.MaxChunkFileSize = v
		}
	}
	rebuild := func() *Rig {
		nr := NewRig(params)
		nr.CAS = r.CAS
		cp := compression.New(compression.WithDefaultAlgorithms())
		nr.Provider = txnprovider.NewOperationProvider(params, nr.Parser, r.CAS, cp,
			txnprovider.WithSourceCASURIFormatter(func(uri, source string) (string, error) { return source + ":" + uri, nil }))
		return nr
	}
	alt := strings.HasSuffix(kind, "Alt") && kind != "casfailAlt"
	if alt {
		// the primary read fails; the alternate source serves the content
		kind = strings.TrimSuffix(kind, "Alt")
		r.CAS.FailURI = uri
		t.AlternateSources = []string{"missing", "alt"}
		defer func() { r.CAS.M["alt:"+uri] = r.CAS.M[uri] }()
	}
	switch kind {
	case "oversize":
		setMax(uint(len(r.CAS.M[uri]) - 1))
		return rebuild(), t, nil
	case "bomb":
		raw, err := comp.Decompress("GZIP", r.CAS.M[uri])
		if err != nil {
			return nil, nil, err
		}
		padded := append(append([]byte{}, raw...), []byte(strings.Repeat(" ", 300000))...)
		c, _ := comp.Compress("GZIP", padded)
		r.CAS.M[uri] = c
		setMax(uint(len(c)))
		params.MaxMemoryDecompressionFactor = 3
		return rebuild(), t, nil
	case "longuri":
		long := uri + strings.Repeat("x", int(r.Params.MaxCasURILength))
		r.CAS.M[long] = r.CAS.M[uri]
		if file == "coreIndex" { // the URI inside the anchor string
			parts := strings.SplitN(fs.Anchor, ".", 2)
			t.AnchorString = parts[0] + "." + long
			return r, t, nil
		}
		var parent, member string
		switch file {
		case "coreProof":
			parent, member = fs.CoreIndex, "coreProofFileUri"
		case "provIndex":
			parent, member = fs.CoreIndex, "provisionalIndexFileUri"
		case "provProof":
			parent, member = fs.ProvIndex, "provisionalProofFileUri"
		case "chunk":
			parent, member = fs.ProvIndex, "chunks"
		}
		j, err := gunzipJSON(r.CAS.M[parent])
		if err != nil {
			return nil, nil, err
		}
		if member == "chunks" {
			j["chunks"] = []interface{}{map[string]interface{}{"chunkFileUri": long}}
		} else {
			j[member] = long
		}
		r.CAS.M[parent] = gzipJSON(j)
		return r, t, nil
	case "casfail":
		r.CAS.FailURI = uri
		return r, t, nil
	case "casfailAlt":
		r.CAS.FailURI = uri
		r.CAS.M["alt:"+uri] = r.CAS.M[uri]
		t.AlternateSources = []string{"missing", "alt"}
		return r, t, nil
	case "null", "typeconf":
		j, err := gunzipJSON(r.CAS.M[uri])
		if err != nil {
			return nil, nil, err
		}
		member := "operations"
		if file == "chunk" {
			member = "deltas"
		}
		if file == "provIndex" && variant%2 == 1 {
			member = "chunks"
		}
		if kind == "null" {
			j[member] = nil
		} else {
			j[member] = []interface{}{"x", 7, nil, map[string]interface{}{"create": 5}}[variant%4]
		}
		r.CAS.M[uri] = gzipJSON(j)
		return r, t, nil
	case "anchorGarbage":
		g := []string{"", "abc", "1", "0." + fs.CoreIndex, "-1." + fs.CoreIndex, "1.2.3", "01." + fs.CoreIndex, "1.", "1e2." + fs.CoreIndex, " 1." + fs.CoreIndex}
		t.AnchorString = g[variant%len(g)]
		return r, t, nil
	}
	return nil, nil, fmt.Errorf("unknown opaque class %q", class)
}

// AnchorOrigin extracts the anchor origin embedded in a create / recover request.
func AnchorOrigin(req []byte) interface{} {
	var m map[string]interface{}
	if json.Unmarshal(req, &m) != nil {
		return nil
	}
	if sd, ok := m["suffixData"].(map[string]interface{}); ok {
		return sd["anchorOrigin"]
	}
	if s, ok := m["signedData"].(string); ok {
		parts := strings.Split(s, ".")
		if len(parts) == 3 {
			if raw, err := base64.RawURLEncoding.DecodeString(parts[1]); err == nil {
				var pm map[string]interface{}
				if json.Unmarshal(raw, &pm) == nil {
					return pm["anchorOrigin"]
				}
			}
		}
	}
	return nil
}

// Decompress / Compress expose the GZIP codec used by the rig.
func Decompress(b []byte) ([]byte, error) { return comp.Decompress("GZIP", b) }
func Compress(b []byte) []byte {
	c, err := comp.Compress("GZIP", b)
	if err != nil {
		panic(err)
	}
	return c
}
