package wr

import (
	"fmt"
	"strconv"
	"strings"
	"time"

	"github.com/trustbloc/sidetree-core-go/pkg/batch"
)

// ScriptEntry is one scripted client submission of the BatchWriter model.
type ScriptEntry struct {
	Sfx int    `json:"sfx"`
	Ver uint64 `json:"ver"`
	Exp bool   `json:"exp"`
}

type gateReq struct {
	kind  string
	reply chan bool
}

// Driven executes one TLC-generated schedule on the real writer, single-stepping the writer goroutine through its
// gated steps and performing client submissions exactly where the schedule interleaves them.
type Driven struct {
	Rig    *Rig
	W      *batch.Writer
	Adds   []*OpMeta
	nextAd int

	gateCh  chan gateReq
	doneCh  chan struct{}
	pending *gateReq
	inRound bool

	InSync        bool
	Desync        string
	pendingFaults []string
}

// NewDriven prepares the writer (not started) for the script.
func NewDriven(f *Factory, script []ScriptEntry, maxCount uint, setCurrent func(*Rig)) (*Driven, error) {
	rig := NewRig([]uint64{0, 5}, maxCount)
	setCurrent(rig)
	rig.GateReAdds = true
	d := &Driven{Rig: rig, gateCh: make(chan gateReq), doneCh: make(chan struct{}), InSync: true}
	rig.Gate = func(kind string) bool {
		rq := gateReq{kind, make(chan bool)}
		d.gateCh <- rq
		return <-rq.reply
	}
	seen := map[int]bool{}
	for _, e := range script {
		kind := "U"
		if !seen[e.Sfx] && !e.Exp {
			kind = "C"
		}
		seen[e.Sfx] = true
		q, err := f.Op(e.Sfx, kind, e.Exp)
		if err != nil {
			return nil, err
		}
		d.Adds = append(d.Adds, rig.Register(q, e.Sfx, e.Ver, e.Exp))
	}
	w, err := batch.New("did:sidetree", rig, batch.WithBatchTimeout(time.Hour), batch.WithMonitorInterval(time.Hour))
	if err != nil {
		return nil, err
	}
	d.W = w
	return d, nil
}

func (d *Driven) startRound(force bool) {
	d.inRound = true
	go func() {
		d.W.VerifProcessAvailable(force)
		d.doneCh <- struct{}{}
	}()
}

// advance waits until the writer goroutine is blocked at a gate (pending set) or the round has ended.
func (d *Driven) advance() {
	if !d.inRound || d.pending != nil {
		return
	}
	select {
	case rq := <-d.gateCh:
		d.pending = &rq
	case <-d.doneCh:
		d.inRound = false
	}
}

func (d *Driven) release(fail bool) {
	d.pending.reply <- fail
	d.pending = nil
	d.advance()
}

func labelKind(l string) string {
	switch {
	case l == "L":
		return "Len"
	case l == "P":
		return "Peek"
	case l == "R":
		return "Remove"
	case l == "C" || strings.HasPrefix(l, "Cf"):
		return "Cas"
	case l == "W" || l == "Wf":
		return "Anchor"
	case l == "Ra":
		return "ReAdd"
	case l == "K":
		return "Ack"
	case l == "N":
		return "Nack"
	}
	return "?"
}

func (d *Driven) desync(why string, rest []string) {
	if d.InSync {
		d.InSync = false
		d.Desync = why
		for _, l := range rest {
			if strings.HasPrefix(l, "Cf") || l == "Wf" {
				d.pendingFaults = append(d.pendingFaults, l)
			}
		}
	}
}

// freeRun lets the current round finish, still injecting the schedule's remaining faults at the matching gates.
func (d *Driven) freeRun() {
	for d.inRound {
		d.advance()
		if d.pending == nil {
			return
		}
		fail := false
		for i, l := range d.pendingFaults {
			if labelKind(l) == d.pending.kind {
				fail = true
				d.pendingFaults = append(d.pendingFaults[:i], d.pendingFaults[i+1:]...)
				break
			}
		}
		d.release(fail)
	}
}

// Run executes the schedule; afterwards fault-free forced rounds run until the rig is at rest.
func (d *Driven) Run(schedule []string) error {
	for i, l := range schedule {
		switch {
		case l == "A":
			if d.nextAd >= len(d.Adds) {
				return fmt.Errorf("schedule has more submissions than the script")
			}
			m := d.Adds[d.nextAd]
			d.nextAd++
			if err := d.Rig.ClientAdd(func() error { return d.W.Add(m.Q, m.Ver) }); err != nil {
				return err
			}
		case l == "T0" || l == "T1":
			if d.inRound {
				d.desync("tick while a round is still running", schedule[i:])
				d.freeRun()
			}
			d.startRound(l == "T1")
			d.advance()
		default:
			if !d.InSync {
				continue
			}
			d.advance()
			if d.pending == nil {
				d.desync("round ended before "+l, schedule[i:])
				continue
			}
			want := labelKind(l)
			if d.pending.kind != want {
				d.desync(fmt.Sprintf("step %d: model %s, code at %s", i, l, d.pending.kind), schedule[i:])
				d.freeRun()
				continue
			}
			switch {
			case l == "C":
				// all CAS writes of this batch succeed
				for d.pending != nil && d.pending.kind == "Cas" {
					d.release(false)
				}
			case strings.HasPrefix(l, "Cf"):
				k, _ := strconv.Atoi(l[2:])
				for j := 1; j < k && d.pending != nil && d.pending.kind == "Cas"; j++ {
					d.release(false)
				}
				if d.pending == nil || d.pending.kind != "Cas" {
					d.desync("fewer CAS writes than the fault ordinal", schedule[i:])
					d.freeRun()
					continue
				}
				d.release(true)
			case l == "Wf":
				d.release(true)
			default:
				d.release(false)
			}
		}
	}
	// finish the running round, then fault-free forced rounds until rest
	d.pendingFaults = nil
	d.Rig.Gate = func(string) bool { return false }
	if d.inRound {
		if d.pending != nil {
			d.pending.reply <- false
			d.pending = nil
		}
		// remaining gates no longer block (Gate replaced), but one may already be waiting in the old closure
		for d.inRound {
			select {
			case rq := <-d.gateCh:
				rq.reply <- false
			case <-d.doneCh:
				d.inRound = false
			}
		}
	}
	for d.nextAd < len(d.Adds) {
		m := d.Adds[d.nextAd]
		d.nextAd++
		if err := d.Rig.ClientAdd(func() error { return d.W.Add(m.Q, m.Ver) }); err != nil {
			return err
		}
	}
	for i := 0; i < 25 && !d.Rig.AtRest(); i++ {
		d.W.VerifProcessAvailable(true)
	}
	return nil
}
