package wr

import (
	"fmt"

	"github.com/trustbloc/sidetree-core-go/pkg/api/operation"

	"sidever/internal/concr"
)

// Factory produces distinct, well-formed, client-style requests for a set of DIDs.
type Factory struct {
	Keys     *concr.Keys
	builders []*concr.Builder
	creates  [][]byte
	seq      int
}

// NewFactory prepares nDID DIDs.
func NewFactory(nDID int, kt concr.KeyType) (*Factory, error) {
	keys, err := concr.NewKeys(9, concr.SHA256, func(int) concr.KeyType { return kt })
	if err != nil {
		return nil, err
	}
	f := &Factory{Keys: keys}
	for d := 1; d <= nDID; d++ {
		sh := concr.Shape{Ty: "C", Nuc: 4, Nrc: 1, Dl: "ok", Win: "none", P: 100000 * d, Sfx: "ok", Sig: "ok"}
		b, err := concr.NewBuilder(keys, sh)
		if err != nil {
			return nil, err
		}
		req, err := b.Request(sh)
		if err != nil {
			return nil, err
		}
		f.builders = append(f.builders, b)
		f.creates = append(f.creates, req)
	}
	return f, nil
}

// Suffix returns the suffix of DID d (1-based).
func (f *Factory) Suffix(d int) string { return f.builders[d-1].Suffix }

// Op returns a fresh queued operation for DID d: kind "C" (create; the same request every time - use once),
// "U" (update, unique content), "D" (deactivate), "R" (recover); expired makes the rig's time validator reject it.
func (f *Factory) Op(d int, kind string, expired bool) (*operation.QueuedOperation, error) {
	b := f.builders[d-1]
	f.seq++
	var req []byte
	var err error
	bb := *b
	if expired {
		bb.WinOverride = &[2]int64{ExpiredMarker - 100, ExpiredMarker}
	} else if kind != "C" {
		// a unique, harmless window keeps otherwise identical requests (e.g. deactivates) distinct
		bb.WinOverride = &[2]int64{concr.BaseTime - 100000 - int64(f.seq), concr.BaseTime + 100000000}
	}
	switch kind {
	case "C":
		req = f.creates[d-1]
	case "U":
		req, err = bb.Request(concr.Shape{Ty: "U", Rk: 4, Sig: "ok", Nuc: 5, Dl: "ok", P: 100000*d + f.seq, Sfx: "ok"})
	case "R":
		req, err = bb.Request(concr.Shape{Ty: "R", Rk: 1, Sig: "ok", Nuc: 5, Nrc: 2, Dl: "ok", P: 100000*d + f.seq, Sfx: "ok"})
	case "D":
		req, err = bb.Request(concr.Shape{Ty: "D", Rk: 1, Sig: "ok", Sfx: "ok"})
	default:
		err = fmt.Errorf("unknown kind %q", kind)
	}
	if err != nil {
		return nil, err
	}
	return &operation.QueuedOperation{Type: concr.OpType(kind), OperationRequest: req, UniqueSuffix: b.Suffix, Namespace: "did:sidetree"}, nil
}
