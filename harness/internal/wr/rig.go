// Package wr is the test rig around the REAL batch.Writer + cutter + MemQueue + txnprovider.OperationHandler:
// it decorates the caller-provided interfaces (operation queue, CAS, anchor writer, operation handler via the
// protocol version) to record one event per specification action and to inject faults / gate steps.
package wr

import (
	"encoding/json"
	"errors"
	"fmt"
	"sort"
	"strings"
	"sync"
	"sync/atomic"

	"github.com/trustbloc/sidetree-core-go/pkg/api/operation"
	"github.com/trustbloc/sidetree-core-go/pkg/api/protocol"
	"github.com/trustbloc/sidetree-core-go/pkg/api/txn"
	"github.com/trustbloc/sidetree-core-go/pkg/batch"
	"github.com/trustbloc/sidetree-core-go/pkg/batch/cutter"
	"github.com/trustbloc/sidetree-core-go/pkg/batch/opqueue"
	"github.com/trustbloc/sidetree-core-go/pkg/compression"
	"github.com/trustbloc/sidetree-core-go/pkg/versions/1_0/operationparser"
	"github.com/trustbloc/sidetree-core-go/pkg/versions/1_0/txnprovider"

	"sidever/internal/concr"
	"sidever/internal/wire"
)

// ExpiredMarker is the anchorUntil value that makes the rig's time validator report an operation as expired.
const ExpiredMarker = concr.BaseTime - 777

// Event is one trace event.
type Event map[string]interface{}

// OpMeta describes a registered operation.
type OpMeta struct {
	ID      int
	Sfx     int
	Ver     uint64
	Expired bool
	Q       *operation.QueuedOperation
}

// Rig holds the instrumented environment of one writer run.
type Rig struct {
	mu     sync.Mutex // the trace mutex: held across every wrapped state-changing call
	Events []Event
	byReq  map[string]*OpMeta
	Ops    []*OpMeta

	Queue  *opqueue.MemQueue
	CAS    map[string][]byte
	casN   int
	parts  map[string]*partition
	Ledger []txn.SidetreeTxn

	// Gate, when set, is called (outside the trace mutex) before each gated step with its kind:
	// "Len", "Peek", "Remove", "Cas", "Anchor", "Ack", "Nack", "ReAdd". It may block (scheduler) and, for "Cas" and
	// "Anchor", its return value true injects a failure.
	Gate func(kind string) bool

	// GateReAdds makes an Add that does not come from ClientAdd (i.e. the writer re-queueing a deferred operation)
	// pass through the gate (schedule-driven mode only).
	GateReAdds   bool
	clientAdding int32
	afterLen     int32

	// Unserialised: Add goes to the real queue WITHOUT the trace mutex and without an event (stress mode: truly
	// parallel submissions; only the final accounting is checked).
	Unserialised bool
	AnchorCount  map[int]int // how many anchored batches included each operation
	Oversize     int         // anchored batches larger than MaxCount

	Versions  []uint64
	PC        *wire.Client
	MaxCount  uint
	anchored  map[int]bool
	discarded map[int]bool
	accepted  map[int]bool
}

type partition struct {
	inc, exp, def []int
}

type expiryValidator struct{}

func (expiryValidator) Validate(_, until int64) error {
	if until == ExpiredMarker {
		return operationparser.ErrOperationExpired
	}
	return nil
}

type noMetrics struct{}

func (noMetrics) CASWriteSize(string, int) {}

// NewRig builds the rig with the given protocol versions (genesis times) and maximum batch size.
func NewRig(versions []uint64, maxCount uint) *Rig {
	return NewRigMax(versions, maxCount, maxCount)
}

// NewRigMax: the first protocol version has maximum operation count maxFirst, every later version maxLater.
func NewRigMax(versions []uint64, maxFirst, maxLater uint) *Rig {
	maxCount := maxFirst
	if maxLater > maxCount {
		maxCount = maxLater
	}
	r := &Rig{byReq: map[string]*OpMeta{}, Queue: &opqueue.MemQueue{}, CAS: map[string][]byte{}, parts: map[string]*partition{},
		Versions: versions, MaxCount: maxCount, anchored: map[int]bool{}, discarded: map[int]bool{}, accepted: map[int]bool{}, AnchorCount: map[int]int{}}
	cp := compression.New(compression.WithDefaultAlgorithms())
	pc := &wire.Client{}
	for i, g := range versions {
		p := wire.Params(concr.SHA256)
		p.GenesisTime = g
		p.MaxOperationCount = maxFirst
		if i > 0 {
			p.MaxOperationCount = maxLater
		}
		parser := operationparser.New(p, operationparser.WithAnchorTimeValidator(expiryValidator{}))
		v := &wire.Version{P: p, Parser: parser, Name: "1.0"}
		v.Handler = &handlerWrap{rig: r, inner: txnprovider.NewOperationHandler(p, &casGate{r}, cp, parser, noMetrics{})}
		pc.Versions = append(pc.Versions, v)
	}
	r.PC = pc
	return r
}

func (r *Rig) gate(kind string) bool {
	if g := r.Gate; g != nil {
		return g(kind)
	}
	return false
}

func (r *Rig) log(e Event) { r.Events = append(r.Events, e) }

// Register makes an operation known to the rig (before it is added).
func (r *Rig) Register(q *operation.QueuedOperation, sfx int, ver uint64, expired bool) *OpMeta {
	r.mu.Lock()
	defer r.mu.Unlock()
	m := &OpMeta{ID: len(r.Ops) + 1, Sfx: sfx, Ver: ver, Expired: expired, Q: q}
	r.Ops = append(r.Ops, m)
	r.byReq[string(q.OperationRequest)] = m
	return m
}

func (r *Rig) idsOf(ops []*operation.QueuedOperation) []int {
	out := make([]int, 0, len(ops))
	for _, o := range ops {
		m := r.byReq[string(o.OperationRequest)]
		if m == nil {
			out = append(out, -1)
			continue
		}
		out = append(out, m.ID)
	}
	return out
}

// queueIDs projects the real queue's content (called under the trace mutex).
func (r *Rig) queueIDs() []int {
	items, err := r.Queue.Peek(r.Queue.Len())
	if err != nil {
		return []int{}
	}
	return r.idsOf(items.QueuedOperations())
}

// ---- batch.Context ----

func (r *Rig) Protocol() protocol.Client             { return r.PC }
func (r *Rig) Anchor() batch.AnchorWriter            { return (*anchorGate)(r) }
func (r *Rig) OperationQueue() cutter.OperationQueue { return (*queueWrap)(r) }

// ---- operation queue decorator ----

type queueWrap Rig

func (qw *queueWrap) Add(op *operation.QueuedOperation, ver uint64) (uint, error) {
	r := (*Rig)(qw)
	if r.GateReAdds && atomic.LoadInt32(&r.clientAdding) == 0 {
		r.gate("ReAdd")
	}
	if r.Unserialised {
		n, err := r.Queue.Add(op, ver)
		if err == nil {
			r.mu.Lock()
			if m := r.byReq[string(op.OperationRequest)]; m != nil {
				r.accepted[m.ID] = true
			}
			r.mu.Unlock()
		}
		return n, err
	}
	r.mu.Lock()
	defer r.mu.Unlock()
	n, err := r.Queue.Add(op, ver)
	if err == nil {
		m := r.byReq[string(op.OperationRequest)]
		if m == nil {
			r.log(Event{"ev": "Add", "id": -1, "sfx": 0, "ver": ver})
		} else {
			r.accepted[m.ID] = true
			r.log(Event{"ev": "Add", "id": m.ID, "sfx": m.Sfx, "ver": ver, "q": r.queueIDs()})
		}
	}
	return n, err
}

func (qw *queueWrap) Len() uint {
	r := (*Rig)(qw)
	r.gate("Len")
	n := r.Queue.Len()
	if n > 0 {
		atomic.StoreInt32(&r.afterLen, 1)
	}
	return n
}

func (qw *queueWrap) Peek(n uint) (operation.QueuedOperationsAtTime, error) {
	r := (*Rig)(qw)
	// the cutter reads the protocol version of the head operation right after the length (Peek(1)): that probe belongs
	// to the model's "length read" step - the head of the queue cannot change between the two calls
	if n == 1 && atomic.CompareAndSwapInt32(&r.afterLen, 1, 0) {
		return r.Queue.Peek(n)
	}
	atomic.StoreInt32(&r.afterLen, 0)
	r.gate("Peek")
	return r.Queue.Peek(n)
}

func (qw *queueWrap) Remove(n uint) (operation.QueuedOperationsAtTime, func() uint, func(error), error) {
	r := (*Rig)(qw)
	r.gate("Remove")
	r.mu.Lock()
	defer r.mu.Unlock()
	ops, ack, nack, err := r.Queue.Remove(n)
	if err != nil {
		return ops, ack, nack, err
	}
	r.log(Event{"ev": "Remove", "ids": r.idsOf(ops.QueuedOperations())})
	wAck := func() uint {
		r.gate("Ack")
		return ack()
	}
	wNack := func(e error) {
		r.gate("Nack")
		r.mu.Lock()
		defer r.mu.Unlock()
		nack(e)
		r.log(Event{"ev": "Nack"})
	}
	return ops, wAck, wNack, nil
}

// ---- CAS with fault gate ----

type casGate struct{ r *Rig }

func (c *casGate) Write(content []byte) (string, error) {
	if c.r.gate("Cas") {
		return "", errors.New("injected CAS write failure")
	}
	c.r.mu.Lock()
	defer c.r.mu.Unlock()
	c.r.casN++
	addr := fmt.Sprintf("cas-%d", c.r.casN)
	c.r.CAS[addr] = append([]byte{}, content...)
	return addr, nil
}

func (c *casGate) Read(addr string) ([]byte, error) {
	c.r.mu.Lock()
	defer c.r.mu.Unlock()
	b, ok := c.r.CAS[addr]
	if !ok {
		return nil, errors.New("not found")
	}
	return b, nil
}

// ---- operation handler wrapper: remembers how the real handler partitioned each batch ----

type handlerWrap struct {
	rig   *Rig
	inner protocol.OperationHandler
}

func (h *handlerWrap) PrepareTxnFiles(ops []*operation.QueuedOperation) (*protocol.AnchoringInfo, error) {
	info, err := h.inner.PrepareTxnFiles(ops)
	if err != nil {
		return nil, err
	}
	r := h.rig
	r.mu.Lock()
	defer r.mu.Unlock()
	p := &partition{inc: []int{}, exp: r.idsOf(info.ExpiredOperations), def: r.idsOf(info.AdditionalOperations)}
	skip := map[int]bool{}
	for _, id := range p.exp {
		skip[id] = true
	}
	for _, id := range p.def {
		skip[id] = true
	}
	for _, id := range r.idsOf(ops) {
		if !skip[id] {
			p.inc = append(p.inc, id)
		}
	}
	r.parts[info.AnchorString] = p
	return info, nil
}

// ---- anchor writer gate ----

type anchorGate Rig

func (a *anchorGate) WriteAnchor(anchor string, _ []*protocol.AnchorDocument, refs []*operation.Reference, ver uint64) error {
	r := (*Rig)(a)
	if r.gate("Anchor") {
		return errors.New("injected anchor write failure")
	}
	r.mu.Lock()
	defer r.mu.Unlock()
	p := r.parts[anchor]
	if p == nil {
		p = &partition{inc: []int{-2}, exp: []int{}, def: []int{}}
	}
	// the anchor string's operation count and the references must describe the included operations
	cnt := strings.SplitN(anchor, ".", 2)[0]
	r.log(Event{"ev": "Anchor", "inc": p.inc, "exp": p.exp, "def": p.def, "ver": ver, "count": cnt, "refs": len(refs)})
	for _, id := range p.inc {
		r.anchored[id] = true
		r.AnchorCount[id]++
	}
	if uint(len(p.inc)+len(p.exp)+len(p.def)) > r.MaxCount {
		r.Oversize++
	}
	for _, id := range p.exp {
		r.discarded[id] = true
	}
	r.Ledger = append(r.Ledger, txn.SidetreeTxn{AnchorString: anchor, ProtocolVersion: ver, TransactionNumber: uint64(len(r.Ledger) + 1)})
	return nil
}

func (a *anchorGate) Read(int) (bool, *txn.SidetreeTxn) { return false, nil }

// ClientAdd performs a client submission through add (the writer's Add), bypassing the re-add gate.
func (r *Rig) ClientAdd(add func() error) error {
	atomic.StoreInt32(&r.clientAdding, 1)
	defer atomic.StoreInt32(&r.clientAdding, 0)
	return add()
}

// Tick records the start of a processing round (tick hook).
func (r *Rig) Tick(force bool) {
	r.mu.Lock()
	defer r.mu.Unlock()
	r.log(Event{"ev": "Tick", "force": force})
}

// AtRest reports whether every accepted operation has been anchored or discarded and the queue is empty.
func (r *Rig) AtRest() bool {
	r.mu.Lock()
	defer r.mu.Unlock()
	if r.Queue.Len() != 0 {
		return false
	}
	for id := range r.accepted {
		if !r.anchored[id] && !r.discarded[id] {
			return false
		}
	}
	return true
}

// NDJSON renders the recorded events.
func (r *Rig) NDJSON() string {
	r.mu.Lock()
	defer r.mu.Unlock()
	var b strings.Builder
	for _, e := range r.Events {
		j, _ := json.Marshal(e)
		b.Write(j)
		b.WriteByte('\n')
	}
	return b.String()
}

// Snapshot returns a copy of the events.
func (r *Rig) Snapshot() []Event {
	r.mu.Lock()
	defer r.mu.Unlock()
	return append([]Event{}, r.Events...)
}

// StressResult is the final accounting of a stress run.
type StressResult struct {
	Submitted  int   `json:"submitted"`
	Accepted   int   `json:"accepted"`
	AtRest     bool  `json:"at_rest"`
	Lost       []int `json:"lost"`       // accepted, never anchored
	Duplicated []int `json:"duplicated"` // anchored more than once
	Oversize   int   `json:"oversize_batches"`
	Batches    int   `json:"batches"`
}

// Accounting returns the final accounting (call after the writer stopped).
func (r *Rig) Accounting(submitted int, atRest bool) StressResult {
	r.mu.Lock()
	defer r.mu.Unlock()
	res := StressResult{Submitted: submitted, Accepted: len(r.accepted), AtRest: atRest, Oversize: r.Oversize, Batches: len(r.Ledger), Lost: []int{}, Duplicated: []int{}}
	for id := range r.accepted {
		switch n := r.AnchorCount[id]; {
		case n == 0 && !r.discarded[id]:
			res.Lost = append(res.Lost, id)
		case n > 1:
			res.Duplicated = append(res.Duplicated, id)
		}
	}
	sort.Ints(res.Lost)
	sort.Ints(res.Duplicated)
	return res
}
