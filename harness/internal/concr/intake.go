package concr

import (
	"encoding/base64"
	"encoding/json"
	"fmt"
	"strings"

	"github.com/trustbloc/sidetree-core-go/pkg/api/operation"
	"github.com/trustbloc/sidetree-core-go/pkg/api/protocol"
	"github.com/trustbloc/sidetree-core-go/pkg/commitment"
	"github.com/trustbloc/sidetree-core-go/pkg/hashing"
	"github.com/trustbloc/sidetree-core-go/pkg/jws"
	"github.com/trustbloc/sidetree-core-go/pkg/patch"
	"github.com/trustbloc/sidetree-core-go/pkg/versions/1_0/model"
)

// IntakeReq is a request of the Intake specification: one class per protocol rule.
type IntakeReq struct {
	Ty        string `json:"ty"`
	OpSize    string `json:"opSize"`
	DeltaSize string `json:"deltaSize"`
	HashLen   string `json:"hashLen"`
	HashAlg   struct {
		Class string `json:"class"`
		Field string `json:"field"`
	} `json:"hashAlg"`
	Alg      string `json:"alg"`
	HdrExtra bool   `json:"hdrExtra"`
	Crv      string `json:"crv"`
	Nonce    string `json:"nonce"`
	Patch    string `json:"patch"`
	Reveal   string `json:"reveal"`
	Next     string `json:"next"`
	Missing  string `json:"missing"`
	Dsfx     string `json:"dsfx"`
	Cdh      string `json:"cdh"`
}

type hdrSigner struct {
	Signer
	h jws.Headers
}

func (s hdrSigner) Headers() jws.Headers { return s.h }

func without(list []string, x string) []string {
	out := []string{}
	for _, s := range list {
		if s != x {
			out = append(out, s)
		}
	}
	return out
}

// BuildIntake realises an IntakeReq: the request bytes and the protocol configuration under which every class of
// the request holds exactly as named. base is the configuration everything not named stays at. variant (seed)
// rotates equivalent spellings of a malformation.
func BuildIntake(r IntakeReq, kt KeyType, base protocol.Protocol, variant int) ([]byte, protocol.Protocol, error) {
	p := base
	p.MultihashAlgorithms = []uint{SHA256}
	priv, pub, signer, err := NewKeyPair(kt)
	_ = priv
	if err != nil {
		return nil, p, err
	}
	jwk, err := pubkeyJWK(pub)
	if err != nil {
		return nil, p, err
	}
	switch r.Nonce {
	case "N":
		jwk.Nonce = base64.RawURLEncoding.EncodeToString(make([]byte, p.NonceSize))
	case "Nminus":
		jwk.Nonce = base64.RawURLEncoding.EncodeToString(make([]byte, p.NonceSize-1))
	case "Nplus":
		jwk.Nonce = base64.RawURLEncoding.EncodeToString(make([]byte, p.NonceSize+1))
	case "badB64":
		jwk.Nonce = []string{"!!!!", "a b", "===="}[variant%3]
	}
	alg := func(field string) uint {
		if r.HashAlg.Class == "notAllowed" && r.HashAlg.Field == field {
			return SHA512
		}
		return SHA256
	}
	mal := func(field, v string) string {
		if r.HashAlg.Class == "respelled" && r.HashAlg.Field == field {
			return Respell(v, variant)
		}
		if r.HashAlg.Class == "malformed" && r.HashAlg.Field == field {
			return []string{"***not-base64***", "AAAA", "EiA", base64.RawURLEncoding.EncodeToString([]byte("not a multihash at all"))}[variant%4]
		}
		return v
	}
	otherPub := func() *jws.JWK {
		_, pb, _, _ := NewKeyPair(kt)
		j, _ := pubkeyJWK(pb)
		return j
	}
	nextKey := otherPub()
	nextRec := otherPub()
	commit := func(j *jws.JWK, a uint) string {
		c, err := commitment.GetCommitment(j, a)
		if err != nil {
			panic(err)
		}
		return c
	}
	// patches
	var patches []patch.Patch
	switch r.Patch {
	case "enabled":
		patches = DeltaPatches("ok", 1)
	case "disabled":
		patches = DeltaPatches("invalid", 1)
		p.Patches = without(without(p.Patches, "add-also-known-as"), "remove-also-known-as")
	case "disabledFirst", "disabledLast", "disabledMiddle":
		en, dis := DeltaPatches("ok", 1), DeltaPatches("invalid", 1)[1:] // dis: only the patch with the disabled action
		switch r.Patch {
		case "disabledFirst":
			patches = append(append(patches, dis...), en...)
		case "disabledLast":
			patches = append(append(patches, en...), dis...)
		default:
			patches = append(append(append(patches, en...), dis...), DeltaPatches("ok", 2)...)
		}
		p.Patches = without(without(p.Patches, "add-also-known-as"), "remove-also-known-as")
	case "emptyList":
		patches = DeltaPatches("ok", 1)
		p.Patches = [][]string{nil, {}}[variant%2]
	case "empty":
		patches = []patch.Patch{}
	}
	// next commitments
	uc := commit(nextKey, alg("updateCommitment"))
	rc := commit(nextRec, alg("signedRecoveryCommitment"))
	if r.Ty == "C" {
		rc = commit(nextRec, alg("recoveryCommitment"))
	}
	switch r.Next {
	case "selfCommit":
		if r.Ty == "U" {
			uc = commit(jwk, SHA256)
		} else {
			rc = commit(jwk, SHA256)
		}
	case "selfCommitOtherAlg":
		p.MultihashAlgorithms = []uint{SHA256, SHA512}
		if r.Ty == "U" {
			uc = commit(jwk, SHA512)
		} else {
			rc = commit(jwk, SHA512)
		}
	case "ucEqRc":
		uc = rc
	case "selfCommitRespelled": // the commitment of the revealed key in another base64url spelling of the same bytes
		if r.Ty == "U" {
			uc = Respell(commit(jwk, SHA256), variant)
		} else {
			rc = Respell(commit(jwk, SHA256), variant)
		}
	case "ucEqRcRespelled":
		uc = Respell(rc, variant)
	case "recoverUcIsRevealedKey": // the next UPDATE commitment is the commitment of the recovery key being revealed
		uc = commit(jwk, SHA256)
	}
	uc = mal("updateCommitment", uc)
	delta := &model.DeltaModel{UpdateCommitment: uc, Patches: patches}
	deltaHash := func(field string) string {
		h, err := hashing.CalculateModelMultihash(delta, alg(field))
		if err != nil {
			panic(err)
		}
		return mal(field, h)
	}
	rv, err := hashing.CalculateModelMultihash(jwk, alg("revealValue"))
	if err != nil {
		return nil, p, err
	}
	if r.Reveal == "mismatch" {
		rv, _ = hashing.CalculateModelMultihash(otherPub(), alg("revealValue"))
	}
	rv = mal("revealValue", rv)
	// protected header
	hdr := jws.Headers{}
	switch r.Alg {
	case "allowed":
		hdr["alg"] = kt.Alg()
	case "notAllowed":
		hdr["alg"] = kt.Alg()
		p.SignatureAlgorithms = without(p.SignatureAlgorithms, kt.Alg())
	case "emptyList":
		hdr["alg"] = kt.Alg()
		p.SignatureAlgorithms = [][]string{nil, {}}[variant%2]
	case "empty":
		hdr["alg"] = ""
	case "missing":
		hdr["kid"] = "key-1"
	}
	if r.HdrExtra {
		hdr[[]string{"typ", "crit", "b64x"}[variant%3]] = "JWT"
	}
	if r.Crv == "notAllowed" {
		p.KeyAlgorithms = without(p.KeyAlgorithms, kt.String())
	}
	if r.Crv == "emptyList" {
		p.KeyAlgorithms = [][]string{nil, {}}[variant%2]
	}
	if r.HashAlg.Class == "emptyList" {
		p.MultihashAlgorithms = [][]uint{nil, {}}[variant%2]
	}
	sign := func(v interface{}) string {
		c, err := SignCompact(canon(v), hdrSigner{signer, hdr})
		if err != nil {
			panic(err)
		}
		return c
	}
	suffix := "EiDahaOGH-liLLdDtTxEAdc8i-cfCz-WUcQdRJheMVNn3A"
	if r.Dsfx == "tooLong" { // one character beyond the maximum hash length (the limit the batch file reader applies)
		suffix = suffix + strings.Repeat("A", int(p.MaxOperationHashLength)+1-len(suffix))
	}
	var reqObj interface{}
	switch r.Ty {
	case "C":
		dh := deltaHash("suffixDeltaHash")
		if r.Cdh == "mismatch" {
			other := &model.DeltaModel{UpdateCommitment: uc, Patches: DeltaPatches("ok", 2)}
			dh, _ = hashing.CalculateModelMultihash(other, SHA256)
		}
		sd := &model.SuffixDataModel{DeltaHash: dh, RecoveryCommitment: mal("recoveryCommitment", rc)}
		reqObj = &model.CreateRequest{Operation: operation.TypeCreate, SuffixData: sd, Delta: delta}
	case "U":
		sd := &model.UpdateSignedDataModel{UpdateKey: jwk, DeltaHash: deltaHash("signedDeltaHash")}
		reqObj = &model.UpdateRequest{Operation: operation.TypeUpdate, DidSuffix: suffix, RevealValue: rv, SignedData: sign(sd), Delta: delta}
	case "R":
		sd := &model.RecoverSignedDataModel{RecoveryKey: jwk, DeltaHash: deltaHash("signedDeltaHash"), RecoveryCommitment: mal("signedRecoveryCommitment", rc)}
		reqObj = &model.RecoverRequest{Operation: operation.TypeRecover, DidSuffix: suffix, RevealValue: rv, SignedData: sign(sd), Delta: delta}
	case "D":
		ss := suffix
		if r.Dsfx == "mismatch" {
			ss = suffix + "x"
		}
		sd := &model.DeactivateSignedDataModel{DidSuffix: ss, RecoveryKey: jwk}
		reqObj = &model.DeactivateRequest{Operation: operation.TypeDeactivate, DidSuffix: suffix, RevealValue: rv, SignedData: sign(sd)}
	default:
		return nil, p, fmt.Errorf("type %q", r.Ty)
	}
	raw := canon(reqObj)
	var m map[string]interface{}
	if err := json.Unmarshal(raw, &m); err != nil {
		return nil, p, err
	}
	if r.Missing != "none" {
		delete(m, r.Missing)
	}
	req := canon(m)
	// sizes: each limit relative to its own parameter
	L := len(req)
	switch r.OpSize {
	case "max":
		p.MaxOperationSize = uint(L)
	case "over":
		p.MaxOperationSize = uint(L - 1)
	case "huge":
		p.MaxOperationSize = hugeLimits[variant%2]
	case "overByWhitespace":
		p.MaxOperationSize = uint(L)
		req = [][]byte{append(append([]byte{}, req...), '\n'), append([]byte(" "), req...), append(append([]byte("\t"), req...), ' ', ' '), append(append([]byte{}, req...), '\r', '\n')}[variant%4]
	}
	if r.Ty != "D" && r.Missing != "delta" {
		Ld := len(canon(delta))
		switch r.DeltaSize {
		case "max":
			p.MaxDeltaSize = uint(Ld)
		case "over":
			p.MaxDeltaSize = uint(Ld - 1)
		case "huge":
			p.MaxDeltaSize = hugeLimits[variant%2]
		}
	}
	maxlen := 0
	for _, hstr := range hashStrings(m) {
		if len(hstr) > maxlen {
			maxlen = len(hstr)
		}
	}
	switch r.HashLen {
	case "max":
		p.MaxOperationHashLength = uint(maxlen)
	case "over":
		p.MaxOperationHashLength = uint(maxlen - 1)
	case "huge":
		p.MaxOperationHashLength = hugeLimits[variant%2]
	}
	return req, p, nil
}

// hugeLimits: limits beyond the range of a signed 64-bit integer.
var hugeLimits = []uint{1 << 63, ^uint(0)}

// hashStrings collects the hash-valued strings of a request (top level, suffix data, delta, signed payload).
func hashStrings(m map[string]interface{}) []string {
	var out []string
	add := func(v interface{}) {
		if s, ok := v.(string); ok && s != "" {
			out = append(out, s)
		}
	}
	add(m["revealValue"])
	if sd, ok := m["suffixData"].(map[string]interface{}); ok {
		add(sd["deltaHash"])
		add(sd["recoveryCommitment"])
	}
	if d, ok := m["delta"].(map[string]interface{}); ok {
		add(d["updateCommitment"])
	}
	if s, ok := m["signedData"].(string); ok {
		parts := strings.Split(s, ".")
		if len(parts) == 3 {
			if raw, err := base64.RawURLEncoding.DecodeString(parts[1]); err == nil {
				var pm map[string]interface{}
				if json.Unmarshal(raw, &pm) == nil {
					add(pm["deltaHash"])
					add(pm["recoveryCommitment"])
				}
			}
		}
	}
	return out
}

// Respell returns another base64url spelling that the lenient decoder maps to the same bytes: the unused trailing bits of
// the last character set (variant even) or a line break inserted / appended (variant odd).
func Respell(s string, variant int) string {
	const abc = "ABCDEFGHIJKLMNOPQRSTUVWXYZabcdefghijklmnopqrstuvwxyz0123456789-_"
	if variant%2 == 1 || len(s)%4 == 0 || len(s) == 0 {
		if variant%4 == 1 {
			return s + "\n"
		}
		return s[:len(s)/2] + "\r\n" + s[len(s)/2:]
	}
	i := strings.IndexByte(abc, s[len(s)-1])
	if i < 0 {
		return s + "\n"
	}
	return s[:len(s)-1] + string(abc[i^1])
}
