package concr

import (
	"encoding/base64"
	"encoding/json"
	"fmt"
	"strings"

	"github.com/trustbloc/sidetree-core-go/pkg/api/operation"
	"github.com/trustbloc/sidetree-core-go/pkg/canonicalizer"
	"github.com/trustbloc/sidetree-core-go/pkg/hashing"
	"github.com/trustbloc/sidetree-core-go/pkg/jws"
	"github.com/trustbloc/sidetree-core-go/pkg/patch"
	"github.com/trustbloc/sidetree-core-go/pkg/versions/1_0/model"
)

// Shape is an operation shape of the specification (SidetreeCore.tla).
type Shape struct {
	Ty  string `json:"ty"`
	Rk  int    `json:"rk"`
	Sig string `json:"sig"`
	Nuc int    `json:"nuc"`
	Nrc int    `json:"nrc"`
	Dl  string `json:"dl"`
	Win string `json:"win"`
	P   int    `json:"p"`
	Sfx string `json:"sfx"`
}

// BaseTime is the concrete epoch second that abstract transaction time 0 maps to.
const BaseTime = 1700000000

// AttackerKey is the abstract id of the key used for forged signatures / foreign signed data.
const AttackerKey = 9

// Window returns the concrete (anchorFrom, anchorUntil) of a window class; every abstract anchoring time
// (BaseTime + 0..50) is inside "in", after "late" and before "early".
func Window(win string) (int64, int64) {
	switch win {
	case "in":
		return BaseTime - 100, BaseTime + 1000
	case "late":
		return BaseTime - 1000, BaseTime - 1
	case "early":
		return BaseTime + 5000, BaseTime + 6000
	case "until2": // ends exactly at abstract transaction time 2
		return BaseTime - 100, BaseTime + 2
	case "from2": // begins exactly at abstract transaction time 2
		return BaseTime + 2, BaseTime + 1000
	}
	return 0, 0
}

// KeyPatchJSON is the add-public-keys value for content token p.
func KeyPatchJSON(p int) string {
	return fmt.Sprintf(`[{"id":"k%d","type":"JsonWebKey2020","purposes":["authentication"],"publicKeyJwk":{"kty":"EC","crv":"P-256","x":"PUymIqdtF_qxaAqPABSw-C-owT1KYYQbsMKFM-L9fJA","y":"nM84jDHCMOTGTh_ZdHq4dBBdo4Z5PkEOW9jA8z8IsGc"}}]`, p)
}

func mustPatch(p patch.Patch, err error) patch.Patch {
	if err != nil {
		panic(err)
	}
	return p
}

// DeltaPatches returns the patch list for a delta class and content token.
//
//	ok:       [add key k<p>]
//	fail:     [add key k<p>, JSON patch removing a missing member]   (valid, application fails as a whole)
//	invalid:  [add key k<p>, add-also-known-as]                      (action disabled in the harness protocol)
func DeltaPatches(dl string, p int) []patch.Patch {
	add := mustPatch(patch.NewAddPublicKeysPatch(KeyPatchJSON(p)))
	switch dl {
	case "fail":
		return []patch.Patch{add, mustPatch(patch.NewJSONPatch(`[{"op":"remove","path":"/nonexistent"}]`))}
	case "invalid":
		return []patch.Patch{add, mustPatch(patch.NewAddAlsoKnownAs(`["https://disabled.example.com"]`))}
	}
	return []patch.Patch{add}
}

// Builder concretises shapes for one DID.
type Builder struct {
	Keys   *Keys
	Suffix string
	// SuffixData of the base create (shared by duplicate creates).
	suffixData *model.SuffixDataModel
	// WinOverride, when set, replaces the window class of the shape by explicit (anchorFrom, anchorUntil) values.
	WinOverride *[2]int64
	// Origin is the anchor origin embedded in the create's suffix data and in recover requests.
	Origin interface{}
	// OriginPerShape: every recover carries its own anchor origin "https://origin-<p>.example.com" (p = the shape's
	// content token) instead of Origin.
	OriginPerShape bool
	// Extra patches are appended to every delta this builder produces (used to make requests version-specific).
	Extra []patch.Patch
	// KidPad > 0: the protected header carries a kid of that many characters.
	KidPad int
}

// kidSigner adds a kid member to the signer's protected header.
type kidSigner struct {
	Signer
	kid string
}

func (k kidSigner) Headers() jws.Headers {
	h := jws.Headers{}
	for n, v := range k.Signer.Headers() {
		h[n] = v
	}
	h["kid"] = k.kid
	return h
}

const bigNumber = "100000000000000000000" // 1e20 written out, as canonical JSON spells it

// InflatingRequest builds the request of an update / recover shape that is as large as intake allows in the spelling
// the client submits (numbers as 1e20, a long kid) and whose canonical re-serialisation - what the library stores for an
// anchored operation - is larger than maxOperationSize.  The delta stays within maxDeltaSize in canonical form.
// ok = false when the shape cannot be inflated (not a well-formed update / recover).
func (b *Builder) InflatingRequest(sh Shape, maxOperationSize, maxDeltaSize int) (req []byte, ok bool, err error) {
	if (sh.Ty != "U" && sh.Ty != "R") || sh.Sig != "ok" || sh.Dl != "ok" {
		return nil, false, nil
	}
	plain, err := b.Request(sh)
	if err != nil {
		return nil, false, err
	}
	var pm struct {
		Delta json.RawMessage `json:"delta"`
	}
	if json.Unmarshal(plain, &pm) != nil {
		return nil, false, nil
	}
	n := (maxDeltaSize - len(pm.Delta) - 160) / (len(bigNumber) + 1)
	if n < 10 {
		return nil, false, nil
	}
	nums := strings.TrimSuffix(strings.Repeat("1e20,", n), ",")
	bb := *b
	bb.Extra = append(append([]patch.Patch{}, b.Extra...), mustPatch(patch.NewAddServiceEndpointsPatch(`[{"id":"inflate","type":"T","serviceEndpoint":"https://e.example.com","n":[`+nums+`]}]`)))
	build := func(pad int) ([]byte, error) {
		bb.KidPad = pad
		r, e := bb.Request(sh)
		if e != nil {
			return nil, e
		}
		return []byte(strings.ReplaceAll(string(r), bigNumber, "1e20")), nil
	}
	r0, err := build(1)
	if err != nil {
		return nil, false, err
	}
	pad := (maxOperationSize - len(r0) - 8) * 3 / 4
	if pad < 1 {
		pad = 1
	}
	r1, err := build(pad)
	if err != nil {
		return nil, false, err
	}
	stored := len(r1) + n*(len(bigNumber)-len("1e20"))
	if len(r1) > maxOperationSize || stored <= maxOperationSize {
		return nil, false, nil
	}
	return r1, true, nil
}

func (b *Builder) patches(dl string, p int) []patch.Patch {
	return append(DeltaPatches(dl, p), b.Extra...)
}

func (b *Builder) recoverOrigin(sh Shape) interface{} {
	if b.OriginPerShape {
		return fmt.Sprintf("https://origin-%d.example.com", sh.P)
	}
	return b.Origin
}

func (b *Builder) window(win string) (int64, int64) {
	if b.WinOverride != nil {
		return b.WinOverride[0], b.WinOverride[1]
	}
	return Window(win)
}

func canon(v interface{}) []byte {
	b, err := canonicalizer.MarshalCanonical(v)
	if err != nil {
		panic(err)
	}
	return b
}

// NewBuilder prepares the DID from the base create shape (the first create of the alphabet whose delta class is not
// "mismatch"): suffix data = {deltaHash(base delta), recoveryCommitment}.
func NewBuilder(keys *Keys, base Shape) (*Builder, error) {
	return NewBuilderExtra(keys, base, nil)
}

// NewBuilderExtra is NewBuilder with extra patches appended to every delta (including the base create's).
func NewBuilderExtra(keys *Keys, base Shape, extra []patch.Patch) (*Builder, error) {
	return NewBuilderOrigin(keys, base, extra, nil)
}

// NewBuilderOrigin additionally embeds an anchor origin in the create's suffix data and in every recover.
func NewBuilderOrigin(keys *Keys, base Shape, extra []patch.Patch, origin interface{}) (*Builder, error) {
	return NewBuilderTyped(keys, base, extra, origin, "")
}

// NewBuilderTyped additionally sets the optional suffix data property "type".
func NewBuilderTyped(keys *Keys, base Shape, extra []patch.Patch, origin interface{}, typ string) (*Builder, error) {
	delta := &model.DeltaModel{UpdateCommitment: keys.C(base.Nuc), Patches: append(DeltaPatches(base.Dl, base.P), extra...)}
	dh, err := hashing.CalculateModelMultihash(delta, keys.Hash)
	if err != nil {
		return nil, err
	}
	sd := &model.SuffixDataModel{DeltaHash: dh, RecoveryCommitment: keys.C(base.Nrc), AnchorOrigin: origin, Type: typ}
	sfx, err := hashing.CalculateModelMultihash(sd, keys.Hash)
	if err != nil {
		return nil, err
	}
	return &Builder{Keys: keys, Suffix: sfx, suffixData: sd, Extra: extra, Origin: origin}, nil
}

func splitJWS(c string) (h, p, s string) {
	parts := strings.Split(c, ".")
	return parts[0], parts[1], parts[2]
}

// tamperSig applies the signature deviation class to a compact JWS produced for signing key rk.
func (b *Builder) tamperSig(compact string, sh Shape, payloadAlt func(map[string]interface{})) string {
	switch sh.Sig {
	case "bad":
		h, p, s := splitJWS(compact)
		sig, _ := base64.RawURLEncoding.DecodeString(s)
		sig[len(sig)/2] ^= 0x55
		return h + "." + p + "." + base64.RawURLEncoding.EncodeToString(sig)
	case "payload":
		h, p, s := splitJWS(compact)
		raw, _ := base64.RawURLEncoding.DecodeString(p)
		m := map[string]interface{}{}
		d := json.NewDecoder(strings.NewReader(string(raw)))
		d.UseNumber()
		if err := d.Decode(&m); err != nil {
			panic(err)
		}
		payloadAlt(m)
		return h + "." + base64.RawURLEncoding.EncodeToString(canon(m)) + "." + s
	}
	return compact
}

// signingKey returns the key whose JWK is embedded in the signed data and the signer that signs it.
func (b *Builder) signingKey(sh Shape) (*Key, Signer) {
	k, s := b.signingKey0(sh)
	if b.KidPad > 0 {
		return k, kidSigner{s, strings.Repeat("k", b.KidPad)}
	}
	return k, s
}

func (b *Builder) signingKey0(sh Shape) (embedded *Key, signer Signer) {
	rk := b.Keys.ByID[sh.Rk]
	att := b.Keys.ByID[AttackerKey]
	switch sh.Sig {
	case "keymismatch": // reveal value claims rk, the JWS is entirely the attacker's
		return att, att.Signer
	case "forged": // carries rk's public key but was signed with the attacker's private key
		return rk, att.Signer
	}
	return rk, rk.Signer
}

// Request builds the concrete request bytes of a shape.
func (b *Builder) Request(sh Shape) ([]byte, error) {
	if sh.Dl == "absent" {
		// a request without any delta member: built as a well-formed one, then the member is removed
		ok := sh
		ok.Dl = "ok"
		req, err := b.Request(ok)
		if err != nil {
			return nil, err
		}
		var m map[string]interface{}
		d := json.NewDecoder(strings.NewReader(string(req)))
		d.UseNumber()
		if err := d.Decode(&m); err != nil {
			return nil, err
		}
		delete(m, "delta")
		return canon(m), nil
	}
	ks := b.Keys
	switch sh.Ty {
	case "C":
		delta := &model.DeltaModel{UpdateCommitment: ks.C(sh.Nuc), Patches: b.patches(sh.Dl, sh.P)}
		if sh.Dl == "mismatch" {
			delta.Patches = b.patches("ok", sh.P)
		}
		return canon(&model.CreateRequest{Operation: operation.TypeCreate, SuffixData: b.suffixData, Delta: delta}), nil
	case "U":
		emb, signer := b.signingKey(sh)
		delta := &model.DeltaModel{UpdateCommitment: ks.C(sh.Nuc), Patches: b.patches(sh.Dl, sh.P)}
		dh, err := hashing.CalculateModelMultihash(delta, ks.Hash)
		if err != nil {
			return nil, err
		}
		from, until := b.window(sh.Win)
		if sh.Sig == "payload" { // signed for a window that has passed; the attacker lifts the window
			from, until = Window("late")
		}
		sd := &model.UpdateSignedDataModel{UpdateKey: emb.JWK, DeltaHash: dh, AnchorFrom: from, AnchorUntil: until}
		compact, err := SignCompact(canon(sd), signer)
		if err != nil {
			return nil, err
		}
		reqDelta := delta
		if sh.Dl == "mismatch" { // delta swapped, signed hash intact
			reqDelta = &model.DeltaModel{UpdateCommitment: ks.C(sh.Nuc), Patches: DeltaPatches("ok", sh.P+500)}
		}
		if sh.Sig == "payload" { // the attacker re-targets the signed hash at an own delta and lifts the window
			reqDelta = &model.DeltaModel{UpdateCommitment: ks.C(sh.Nuc), Patches: DeltaPatches("ok", sh.P+700)}
			ndh, _ := hashing.CalculateModelMultihash(reqDelta, ks.Hash)
			compact = b.tamperSig(compact, sh, func(m map[string]interface{}) {
				m["deltaHash"] = ndh
				delete(m, "anchorFrom")
				delete(m, "anchorUntil")
			})
		} else {
			compact = b.tamperSig(compact, sh, nil)
		}
		return canon(&model.UpdateRequest{Operation: operation.TypeUpdate, DidSuffix: b.Suffix,
			RevealValue: ks.ByID[sh.Rk].RV, SignedData: compact, Delta: reqDelta}), nil
	case "R":
		emb, signer := b.signingKey(sh)
		delta := &model.DeltaModel{UpdateCommitment: ks.C(sh.Nuc), Patches: b.patches(sh.Dl, sh.P)}
		dh, err := hashing.CalculateModelMultihash(delta, ks.Hash)
		if err != nil {
			return nil, err
		}
		from, until := b.window(sh.Win)
		if sh.Sig == "payload" {
			from, until = Window("late")
		}
		sd := &model.RecoverSignedDataModel{RecoveryKey: emb.JWK, DeltaHash: dh, RecoveryCommitment: ks.C(sh.Nrc),
			AnchorOrigin: b.recoverOrigin(sh), AnchorFrom: from, AnchorUntil: until}
		compact, err := SignCompact(canon(sd), signer)
		if err != nil {
			return nil, err
		}
		reqDelta := delta
		if sh.Dl == "mismatch" {
			reqDelta = &model.DeltaModel{UpdateCommitment: ks.C(sh.Nuc), Patches: DeltaPatches("ok", sh.P+500)}
		}
		if sh.Sig == "payload" {
			reqDelta = &model.DeltaModel{UpdateCommitment: ks.C(sh.Nuc), Patches: DeltaPatches("ok", sh.P+700)}
			ndh, _ := hashing.CalculateModelMultihash(reqDelta, ks.Hash)
			compact = b.tamperSig(compact, sh, func(m map[string]interface{}) {
				m["deltaHash"] = ndh
				m["recoveryCommitment"] = ks.C(AttackerKey - 1)
				delete(m, "anchorFrom")
				delete(m, "anchorUntil")
			})
		} else {
			compact = b.tamperSig(compact, sh, nil)
		}
		return canon(&model.RecoverRequest{Operation: operation.TypeRecover, DidSuffix: b.Suffix,
			RevealValue: ks.ByID[sh.Rk].RV, SignedData: compact, Delta: reqDelta}), nil
	case "D":
		emb, signer := b.signingKey(sh)
		from, until := b.window(sh.Win)
		if sh.Sig == "payload" {
			from, until = Window("late")
		}
		signedSuffix := b.Suffix
		if sh.Sfx != "ok" {
			signedSuffix = b.Suffix + "x"
		}
		sd := &model.DeactivateSignedDataModel{DidSuffix: signedSuffix, RecoveryKey: emb.JWK, AnchorFrom: from, AnchorUntil: until}
		compact, err := SignCompact(canon(sd), signer)
		if err != nil {
			return nil, err
		}
		if sh.Sig == "payload" {
			compact = b.tamperSig(compact, sh, func(m map[string]interface{}) {
				m["didSuffix"] = b.Suffix
				delete(m, "anchorFrom")
				delete(m, "anchorUntil")
			})
		} else {
			compact = b.tamperSig(compact, sh, nil)
		}
		return canon(&model.DeactivateRequest{Operation: operation.TypeDeactivate, DidSuffix: b.Suffix,
			RevealValue: ks.ByID[sh.Rk].RV, SignedData: compact}), nil
	}
	return nil, fmt.Errorf("unknown shape type %q", sh.Ty)
}

// OpType maps the abstract type letter to the library's operation type.
func OpType(ty string) operation.Type {
	return map[string]operation.Type{"C": operation.TypeCreate, "U": operation.TypeUpdate, "R": operation.TypeRecover, "D": operation.TypeDeactivate}[ty]
}
