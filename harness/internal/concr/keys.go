// Package concr concretises the abstract objects of the specification (keys, commitments, operation shapes,
// documents) into real keys, real JWS signatures and real request bytes, and abstracts real results back (alpha).
package concr

import (
	"crypto/ecdsa"
	"crypto/ed25519"
	"crypto/elliptic"
	"crypto/rand"
	"encoding/base64"
	"encoding/json"
	"fmt"
	"sync"

	"github.com/btcsuite/btcd/btcec"

	"github.com/trustbloc/sidetree-core-go/pkg/commitment"
	"github.com/trustbloc/sidetree-core-go/pkg/jws"
	"github.com/trustbloc/sidetree-core-go/pkg/util/ecsigner"
	"github.com/trustbloc/sidetree-core-go/pkg/util/edsigner"
	"github.com/trustbloc/sidetree-core-go/pkg/util/pubkey"
)

// KeyType enumerates the five supported signing key types.
type KeyType int

const (
	Ed25519 KeyType = iota
	P256
	P384
	P521
	Secp256k1
)

// KeyTypes lists all key types.
var KeyTypes = []KeyType{Ed25519, P256, P384, P521, Secp256k1}

func (k KeyType) String() string {
	return [...]string{"Ed25519", "P-256", "P-384", "P-521", "secp256k1"}[k]
}

// Alg is the JWS signature algorithm of the key type.
func (k KeyType) Alg() string {
	return [...]string{"EdDSA", "ES256", "ES384", "ES512", "ES256K"}[k]
}

// Signer is the client-side signer interface (same shape as the library's).
type Signer interface {
	Sign(data []byte) ([]byte, error)
	Headers() jws.Headers
}

// Key is one concrete key pair with its derived Sidetree values.
type Key struct {
	ID     int
	Type   KeyType
	Priv   interface{}
	JWK    *jws.JWK
	Signer Signer
	C      string // commitment (under the table's hash algorithm)
	RV     string // reveal value
}

// Keys maps abstract key ids to concrete keys; commitments map back (alpha).
type Keys struct {
	Hash uint
	ByID map[int]*Key
	byC  map[string]int
}

// SHA256 / SHA512 multihash codes.
const (
	SHA256 uint = 18
	SHA512 uint = 19
)

// NewKeyPair generates a key pair of the given type.
func NewKeyPair(kt KeyType) (priv interface{}, pub interface{}, signer Signer, err error) {
	switch kt {
	case Ed25519:
		pk, sk, e := ed25519.GenerateKey(rand.Reader)
		if e != nil {
			return nil, nil, nil, e
		}
		return sk, pk, edsigner.New(sk, kt.Alg(), ""), nil
	case P256, P384, P521:
		curve := map[KeyType]elliptic.Curve{P256: elliptic.P256(), P384: elliptic.P384(), P521: elliptic.P521()}[kt]
		sk, e := ecdsa.GenerateKey(curve, rand.Reader)
		if e != nil {
			return nil, nil, nil, e
		}
		return sk, &sk.PublicKey, ecsigner.New(sk, kt.Alg(), ""), nil
	case Secp256k1:
		bk, e := btcec.NewPrivateKey(btcec.S256())
		if e != nil {
			return nil, nil, nil, e
		}
		sk := bk.ToECDSA()
		return sk, &sk.PublicKey, ecsigner.New(sk, kt.Alg(), ""), nil
	}
	return nil, nil, nil, fmt.Errorf("unknown key type %d", kt)
}

// NewKeyPairShort generates EC key pairs until the chosen coordinate ("x" or "y") has a leading zero byte, i.e. its
// minimal big-endian encoding is shorter than the curve's coordinate size (1 key in 256; 1 in 2 for P-521) - the case in
// which fixed-width JWK coordinate encoding matters.  Other key types / other values of coord: an ordinary key pair.
func NewKeyPairShort(kt KeyType, coord string) (priv interface{}, pub interface{}, signer Signer, err error) {
	for tries := 0; ; tries++ {
		priv, pub, signer, err = NewKeyPair(kt)
		if err != nil || kt == Ed25519 || (coord != "x" && coord != "y") || tries > 100000 {
			return
		}
		pk := pub.(*ecdsa.PublicKey)
		size := (pk.Curve.Params().BitSize + 7) / 8
		v := pk.X
		if coord == "y" {
			v = pk.Y
		}
		if len(v.Bytes()) < size {
			return
		}
	}
}

type pooledKey struct {
	priv, pub interface{}
	signer    Signer
}

var (
	shortMu   sync.Mutex
	shortPool = map[string][]pooledKey{}
)

// pooledShort returns the k-th short-coordinate key of a type from a process-wide pool (finding one takes ~256 key
// generations, so the keys are shared between key sets; within one set they are distinct).  Ordinary keys are fresh.
func pooledShort(kt KeyType, coord string, k int) (interface{}, interface{}, Signer, error) {
	if kt == Ed25519 || coord == "" {
		return NewKeyPair(kt)
	}
	shortMu.Lock()
	defer shortMu.Unlock()
	id := fmt.Sprintf("%d/%s", kt, coord)
	for len(shortPool[id]) <= k {
		priv, pub, signer, err := NewKeyPairShort(kt, coord)
		if err != nil {
			return nil, nil, nil, err
		}
		shortPool[id] = append(shortPool[id], pooledKey{priv, pub, signer})
	}
	e := shortPool[id][k]
	return e.priv, e.pub, e.signer, nil
}

// NewKeys generates n keys; typeOf chooses the key type per id.  Every third key has a short x coordinate and every
// third a short y coordinate (see NewKeyPairShort).
func NewKeys(n int, hash uint, typeOf func(id int) KeyType) (*Keys, error) {
	ks := &Keys{Hash: hash, ByID: map[int]*Key{}, byC: map[string]int{}}
	for i := 1; i <= n; i++ {
		kt := typeOf(i)
		priv, pub, signer, err := pooledShort(kt, []string{"", "x", "y"}[i%3], i/3)
		if err != nil {
			return nil, err
		}
		j, err := pubkey.GetPublicKeyJWK(pub)
		if err != nil {
			return nil, err
		}
		c, err := commitment.GetCommitment(j, hash)
		if err != nil {
			return nil, err
		}
		rv, err := commitment.GetRevealValue(j, hash)
		if err != nil {
			return nil, err
		}
		ks.ByID[i] = &Key{ID: i, Type: kt, Priv: priv, JWK: j, Signer: signer, C: c, RV: rv}
		ks.byC[c] = i
	}
	return ks, nil
}

// C returns the concrete commitment of abstract key id (0 -> "").
func (ks *Keys) C(id int) string {
	if id == 0 {
		return ""
	}
	return ks.ByID[id].C
}

// Abs maps a concrete commitment string back to the abstract key id: "" -> 0, unknown -> -1.
func (ks *Keys) Abs(c string) int {
	if c == "" {
		return 0
	}
	if id, ok := ks.byC[c]; ok {
		return id
	}
	return -1
}

// SignCompact builds a compact JWS over payload with header {"alg":...} (sorted, compact), independently of the
// library's signing utilities.
func SignCompact(payload []byte, signer Signer) (string, error) {
	hdr, err := json.Marshal(signer.Headers())
	if err != nil {
		return "", err
	}
	input := base64.RawURLEncoding.EncodeToString(hdr) + "." + base64.RawURLEncoding.EncodeToString(payload)
	sig, err := signer.Sign([]byte(input))
	if err != nil {
		return "", err
	}
	return input + "." + base64.RawURLEncoding.EncodeToString(sig), nil
}

func pubkeyJWK(pub interface{}) (*jws.JWK, error) { return pubkey.GetPublicKeyJWK(pub) }
