// Package pipe wires the REAL end-to-end pipeline (DocumentHandler -> batch.Writer -> OperationHandler -> CAS ->
// ledger -> Observer -> TxnProcessor -> operation store -> OperationProcessor -> DID transformer) over an in-memory
// environment with fault switches, executes Pipeline.tla behaviours on it and records one trace event per action.
package pipe

import (
	"bytes"
	"encoding/base64"
	"net/http"
	"net/http/httptest"
	"net/url"
	"os"
	"sync/atomic"

	"encoding/json"
	"errors"
	"fmt"
	"github.com/gorilla/mux"
	"sort"
	"strconv"
	"strings"
	"sync"
	"time"

	"github.com/trustbloc/sidetree-core-go/pkg/api/operation"
	"github.com/trustbloc/sidetree-core-go/pkg/api/protocol"
	"github.com/trustbloc/sidetree-core-go/pkg/api/txn"
	"github.com/trustbloc/sidetree-core-go/pkg/batch"
	"github.com/trustbloc/sidetree-core-go/pkg/batch/cutter"
	"github.com/trustbloc/sidetree-core-go/pkg/batch/opqueue"
	"github.com/trustbloc/sidetree-core-go/pkg/canonicalizer"
	"github.com/trustbloc/sidetree-core-go/pkg/compression"
	"github.com/trustbloc/sidetree-core-go/pkg/dochandler"
	"github.com/trustbloc/sidetree-core-go/pkg/document"
	"github.com/trustbloc/sidetree-core-go/pkg/observer"
	"github.com/trustbloc/sidetree-core-go/pkg/patch"
	"github.com/trustbloc/sidetree-core-go/pkg/processor"
	restdoc "github.com/trustbloc/sidetree-core-go/pkg/restapi/dochandler"
	"github.com/trustbloc/sidetree-core-go/pkg/versions/1_0/doccomposer"
	"github.com/trustbloc/sidetree-core-go/pkg/versions/1_0/doctransformer/didtransformer"
	"github.com/trustbloc/sidetree-core-go/pkg/versions/1_0/docvalidator/didvalidator"
	"github.com/trustbloc/sidetree-core-go/pkg/versions/1_0/operationapplier"
	"github.com/trustbloc/sidetree-core-go/pkg/versions/1_0/operationparser"
	"github.com/trustbloc/sidetree-core-go/pkg/versions/1_0/txnprocessor"
	"github.com/trustbloc/sidetree-core-go/pkg/versions/1_0/txnprovider"

	"sidever/internal/concr"
	"sidever/internal/wire"
)

const NS = "did:sidetree"

var allTypes = []operation.Type{operation.TypeCreate, operation.TypeUpdate, operation.TypeRecover, operation.TypeDeactivate}

// Step is one action of a Pipeline.tla behaviour.
type Step struct {
	A string `json:"a"`
	D int    `json:"d"`
	K string `json:"k"`
	F string `json:"f"`
}

type clientState struct {
	created, dead bool
	uk, rk, seq   int
}

// Pipe is one wired pipeline instance.
type Pipe struct {
	mu sync.Mutex

	Keys        *concr.Keys
	builders    map[string]*concr.Builder // key: "<d>/<ver>"
	clients     map[int]*clientState
	ids         map[string]int  // canonical request -> submission id
	meta        map[int]subMeta // submission id -> kind and DID
	suffix      map[int]string
	long        map[int]string
	nsub        int
	ForeignNS   bool // Garbage entries are transactions of a foreign namespace (set by C15 for every other behaviour)
	late        bool // the server clock has passed ExpiringUntil
	nFlushFails int  // FlushFails steps so far (chooses which CAS write fails)
	Inflated    int  // submitted updates built by InflatingRequest
	InflatedIDs []int
	curver      uint64
	unpubOn     bool

	pc       *verClient
	queue    *opqueue.MemQueue
	writer   *batch.Writer
	handler  *dochandler.DocumentHandler
	store    *wire.OpStore
	unpub    *unpubStore
	cas      *memCAS
	ledger   []txn.SidetreeTxn
	observed int
	txnCh    chan []txn.SidetreeTxn
	doneCh   chan obsSnap
	contCh   chan struct{}
	obs      *observer.Observer

	// ViaREST routes submissions and resolutions through the real REST handlers (UpdateHandler / ResolveHandler)
	ViaREST    bool
	addFails   bool
	casWriteKO bool
	dupTxn     map[int]bool
	lastAnch   []int

	Events []map[string]interface{}
}

type obsSnap struct {
	store []map[string]interface{}
	unpub []int
	puts  int
}

type noMetrics struct{}

func (noMetrics) ProcessOperation(time.Duration)             {}
func (noMetrics) GetProtocolVersionTime(time.Duration)       {}
func (noMetrics) ParseOperationTime(time.Duration)           {}
func (noMetrics) ValidateOperationTime(time.Duration)        {}
func (noMetrics) DecorateOperationTime(time.Duration)        {}
func (noMetrics) AddUnpublishedOperationTime(time.Duration)  {}
func (noMetrics) AddOperationToBatchTime(time.Duration)      {}
func (noMetrics) GetCreateOperationResultTime(time.Duration) {}
func (noMetrics) CASWriteSize(string, int)                   {}
func (noMetrics) HTTPCreateUpdateTime(time.Duration)         {}
func (noMetrics) HTTPResolveTime(time.Duration)              {}

// ---- environment ----

type memCAS struct {
	mu       sync.Mutex
	m        map[string][]byte
	n        int
	failRead bool
	failWrt  *bool
	failAt   int  // fail the k-th write from now on (0: none)
	failed   bool // a write failure was injected since the last arming
}

func (c *memCAS) Write(b []byte) (string, error) {
	c.mu.Lock()
	defer c.mu.Unlock()
	if c.failWrt != nil && *c.failWrt {
		c.failed = true
		return "", errors.New("injected CAS write failure")
	}
	if c.failAt > 0 {
		c.failAt--
		if c.failAt == 0 {
			c.failed = true
			return "", errors.New("injected CAS write failure")
		}
	}
	c.n++
	a := fmt.Sprintf("cas%d", c.n)
	c.m[a] = append([]byte{}, b...)
	return a, nil
}

func (c *memCAS) Read(a string) ([]byte, error) {
	c.mu.Lock()
	defer c.mu.Unlock()
	if c.failRead {
		return nil, errors.New("injected CAS read failure")
	}
	b, ok := c.m[a]
	if !ok {
		return nil, errors.New("content not found")
	}
	return b, nil
}

type unpubStore struct {
	mu      sync.Mutex
	ops     []*operation.AnchoredOperation
	putFail bool
}

func (u *unpubStore) Put(op *operation.AnchoredOperation) error {
	u.mu.Lock()
	defer u.mu.Unlock()
	if u.putFail {
		return errors.New("injected unpublished-operation store failure")
	}
	u.ops = append(u.ops, op)
	return nil
}

func (u *unpubStore) del(op *operation.AnchoredOperation) {
	for i, o := range u.ops {
		if o.UniqueSuffix == op.UniqueSuffix && o.Type == op.Type && jsonEq(o.OperationRequest, op.OperationRequest) {
			u.ops = append(u.ops[:i], u.ops[i+1:]...)
			return
		}
	}
}

func (u *unpubStore) Delete(op *operation.AnchoredOperation) error {
	u.mu.Lock()
	defer u.mu.Unlock()
	u.del(op)
	return nil
}

func (u *unpubStore) DeleteAll(ops []*operation.AnchoredOperation) error {
	u.mu.Lock()
	defer u.mu.Unlock()
	for _, op := range ops {
		u.del(op)
	}
	return nil
}

func (u *unpubStore) Get(suffix string) ([]*operation.AnchoredOperation, error) {
	u.mu.Lock()
	defer u.mu.Unlock()
	var out []*operation.AnchoredOperation
	for _, o := range u.ops {
		if o.UniqueSuffix == suffix {
			out = append(out, o)
		}
	}
	if len(out) == 0 {
		return nil, errors.New("not found")
	}
	return out, nil
}

func canonKey(b []byte) string {
	var v interface{}
	if json.Unmarshal(b, &v) != nil {
		return string(b)
	}
	c, err := canonicalizer.MarshalCanonical(v)
	if err != nil {
		return string(b)
	}
	return string(c)
}

func jsonEq(a, b []byte) bool { return canonKey(a) == canonKey(b) }

type verClient struct {
	vs  []protocol.Version
	cur int
}

func (c *verClient) Current() (protocol.Version, error) { return c.vs[c.cur], nil }
func (c *verClient) Get(t uint64) (protocol.Version, error) {
	for i := len(c.vs) - 1; i >= 0; i-- {
		if t >= c.vs[i].Protocol().GenesisTime {
			return c.vs[i], nil
		}
	}
	return nil, fmt.Errorf("protocol parameters are not defined for anchoring time: %d", t)
}

type clientProvider struct {
	c protocol.Client
	p *Pipe
}

// ForNamespace knows the pipeline's namespace only; for an entry of a foreign namespace it takes the snapshot the
// transaction processor spy would have taken (the observer never gets that far) and reports the error.
func (cp clientProvider) ForNamespace(ns string) (protocol.Client, error) {
	if ns != NS && cp.p != nil {
		cp.p.doneCh <- obsSnap{store: cp.p.storeProj(), unpub: cp.p.unpubIDs(), puts: 0}
		<-cp.p.contCh
		return nil, errors.New("no protocol client for namespace " + ns)
	}
	return cp.c, nil
}

// writer adapter with the queue-add fault
type writerGate struct{ p *Pipe }

func (w writerGate) Add(op *operation.QueuedOperation, ver uint64) error {
	if w.p.addFails {
		return errors.New("injected queue add failure")
	}
	return w.p.writer.Add(op, ver)
}

// batch.Context
func (p *Pipe) Protocol() protocol.Client             { return p.pc }
func (p *Pipe) Anchor() batch.AnchorWriter            { return (*ledgerWriter)(p) }
func (p *Pipe) OperationQueue() cutter.OperationQueue { return p.queue }

type ledgerWriter Pipe

func (l *ledgerWriter) WriteAnchor(anchor string, _ []*protocol.AnchorDocument, refs []*operation.Reference, ver uint64) error {
	p := (*Pipe)(l)
	i := len(p.ledger) + 1
	p.ledger = append(p.ledger, txn.SidetreeTxn{TransactionTime: uint64(i), TransactionNumber: uint64(i), AnchorString: anchor, Namespace: NS,
		ProtocolVersion: ver, CanonicalReference: "ref" + strconv.Itoa(i), EquivalentReferences: []string{"eq" + strconv.Itoa(i)}})
	return nil
}
func (l *ledgerWriter) Read(int) (bool, *txn.SidetreeTxn) { return false, nil }

func (p *Pipe) RegisterForSidetreeTxn() <-chan []txn.SidetreeTxn { return p.txnCh }

// handler wrapper: remembers which submissions the last anchored batch included
type handlerSpy struct {
	p     *Pipe
	inner protocol.OperationHandler
}

func (h handlerSpy) PrepareTxnFiles(ops []*operation.QueuedOperation) (*protocol.AnchoringInfo, error) {
	info, err := h.inner.PrepareTxnFiles(ops)
	if err != nil {
		return nil, err
	}
	skip := map[string]bool{}
	for _, o := range info.AdditionalOperations {
		skip[canonKey(o.OperationRequest)] = true
	}
	for _, o := range info.ExpiredOperations {
		skip[canonKey(o.OperationRequest)] = true
	}
	h.p.lastAnch = []int{}
	for _, o := range ops {
		k := canonKey(o.OperationRequest)
		if !skip[k] {
			h.p.lastAnch = append(h.p.lastAnch, h.p.ids[k])
		}
	}
	return info, nil
}

// provider wrapper: adversarial duplication of a transaction's operations
type providerDup struct {
	p     *Pipe
	inner protocol.OperationProvider
}

func (d providerDup) GetTxnOperations(t *txn.SidetreeTxn) ([]*operation.AnchoredOperation, error) {
	ops, err := d.inner.GetTxnOperations(t)
	if err != nil {
		return nil, err
	}
	if d.p.dupTxn[int(t.TransactionNumber)] {
		var dup []*operation.AnchoredOperation
		for _, o := range ops {
			c := *o
			dup = append(dup, &c)
			// and a second operation for the same DID under another operation type
			c2 := *o
			if c2.Type == operation.TypeDeactivate {
				c2.Type = operation.TypeUpdate
			} else {
				c2.Type = operation.TypeDeactivate
			}
			dup = append(dup, &c2)
		}
		ops = append(ops, dup...)
	}
	return ops, nil
}

// transaction processor wrapper: snapshots the state after each transaction (runs in the observer goroutine)
type txnSpy struct {
	p     *Pipe
	inner protocol.TxnProcessor
}

func (s txnSpy) Process(t txn.SidetreeTxn, suffixes ...string) (int, error) {
	before := s.p.store.PutCalls
	n, err := s.inner.Process(t, suffixes...)
	s.p.doneCh <- obsSnap{store: s.p.storeProj(), unpub: s.p.unpubIDs(), puts: s.p.store.PutCalls - before}
	<-s.p.contCh // the harness arms the next entry's fault before the observer moves on
	return n, err
}

// VersionPatches returns the version-specific marker patch: v0 uses a JSON patch (disabled in v10), v10 an
// also-known-as patch (disabled in v0), so that an operation is valid only under the version it was accepted by.
func VersionPatches(ver uint64, tag int) []patch.Patch {
	if ver == 0 {
		p, err := patch.NewJSONPatch(fmt.Sprintf(`[{"op":"add","path":"/m%d","value":1}]`, tag))
		if err != nil {
			panic(err)
		}
		return []patch.Patch{p}
	}
	p, err := patch.NewAddAlsoKnownAs(fmt.Sprintf(`["https://v10.example.com/%d"]`, tag))
	if err != nil {
		panic(err)
	}
	return []patch.Patch{p}
}

// serverClock is the server-time validator of intake and of the operation handler: the clock stands at ClockEarly until
// the Clock step moves it to ClockLate, beyond the anchorUntil (ExpiringUntil) of the expiring updates (kind E).
type serverClock struct{ p *Pipe }

const (
	ClockEarly    = 100
	ExpiringUntil = 500
	ClockLate     = 1000
)

func (c serverClock) Validate(from, until int64) error {
	now := int64(ClockEarly)
	if c.p.late {
		now = ClockLate
	}
	if from > now {
		return operationparser.ErrOperationEarly
	}
	if until > 0 && now > until {
		return operationparser.ErrOperationExpired
	}
	return nil
}

// Alias is a second namespace the document handler answers to (longer than NS by more than one character).
const Alias = "did:alias.example.com"

// Suffix returns the unique suffix of DID d ("" before its create was accepted).
func (p *Pipe) Suffix(d int) string { return p.suffix[d] }

// New wires a pipeline.
func New(unpubOn bool, kt concr.KeyType) (*Pipe, error) {
	keys, err := concr.NewKeys(24, concr.SHA256, func(int) concr.KeyType { return kt })
	if err != nil {
		return nil, err
	}
	p := &Pipe{Keys: keys, builders: map[string]*concr.Builder{}, clients: map[int]*clientState{}, ids: map[string]int{}, meta: map[int]subMeta{}, suffix: map[int]string{}, long: map[int]string{}, unpubOn: unpubOn,
		queue: &opqueue.MemQueue{}, store: wire.NewOpStore(), unpub: &unpubStore{}, cas: &memCAS{m: map[string][]byte{}},
		txnCh: make(chan []txn.SidetreeTxn), doneCh: make(chan obsSnap), contCh: make(chan struct{}, 1), dupTxn: map[int]bool{}}
	p.cas.failWrt = &p.casWriteKO
	cp := compression.New(compression.WithDefaultAlgorithms())
	p.pc = &verClient{}
	for _, g := range []uint64{0, 10} {
		pr := wire.Params(concr.SHA256)
		pr.GenesisTime = g
		pr.MaxOperationCount = 10
		if g == 0 {
			pr.Patches = []string{"add-public-keys", "remove-public-keys", "add-services", "remove-services", "ietf-json-patch"}
		} else {
			pr.Patches = []string{"add-public-keys", "remove-public-keys", "add-services", "remove-services", "add-also-known-as", "remove-also-known-as"}
		}
		parser := operationparser.New(pr, operationparser.WithAnchorTimeValidator(serverClock{p}))
		dc := doccomposer.New()
		v := &wire.Version{P: pr, Parser: parser, Composer: dc, Applier: operationapplier.New(pr, parser, dc), Name: "1.0",
			Validator: didvalidator.New(), Transformer: didtransformer.New()}
		v.Handler = handlerSpy{p, txnprovider.NewOperationHandler(pr, p.cas, cp, parser, noMetrics{})}
		v.Provider = providerDup{p, txnprovider.NewOperationProvider(pr, parser, p.cas, cp)}
		var tpOpts []txnprocessor.Option
		if unpubOn {
			tpOpts = append(tpOpts, txnprocessor.WithUnpublishedOperationStore(p.unpub, allTypes))
		}
		v.TxnProc = txnSpy{p, txnprocessor.New(&txnprocessor.Providers{OpStore: p.store, OperationProtocolProvider: v.Provider}, tpOpts...)}
		p.pc.vs = append(p.pc.vs, v)
	}
	w, err := batch.New(NS, p, batch.WithBatchTimeout(time.Hour), batch.WithMonitorInterval(time.Hour))
	if err != nil {
		return nil, err
	}
	p.writer = w
	var procOpts []processor.Option
	var dhOpts []dochandler.Option
	if unpubOn {
		procOpts = append(procOpts, processor.WithUnpublishedOperationStore(p.unpub))
		dhOpts = append(dhOpts, dochandler.WithUnpublishedOperationStore(p.unpub, allTypes))
	}
	proc := processor.New(NS, p.store, p.pc, procOpts...)
	p.handler = dochandler.New(NS, []string{Alias}, p.pc, writerGate{p}, proc, noMetrics{}, dhOpts...)
	p.obs = observer.New(&observer.Providers{Ledger: p, ProtocolClientProvider: clientProvider{c: p.pc, p: p}})
	p.obs.Start()
	return p, nil
}

// Close stops the observer.
func (p *Pipe) Close() { p.obs.Stop() }

func (p *Pipe) builder(d int) (*concr.Builder, error) {
	k := fmt.Sprintf("%d/%d", d, p.curver)
	b, ok := p.builders[k]
	if !ok {
		base := concr.Shape{Ty: "C", Nuc: 4, Nrc: 1, Dl: "ok", Win: "none", P: d * 100, Sfx: "ok", Sig: "ok"}
		var err error
		b, err = concr.NewBuilderExtra(p.Keys, base, VersionPatches(p.curver, d*100))
		if err != nil {
			return nil, err
		}
		p.builders[k] = b
	}
	// the DID (suffix) is fixed by the create that intake ACCEPTED; later operations, possibly built under another
	// protocol version, address that suffix.
	bb := *b
	if sfx, ok := p.suffix[d]; ok {
		bb.Suffix = sfx
	}
	return &bb, nil
}

func (p *Pipe) client(d int) *clientState {
	c, ok := p.clients[d]
	if !ok {
		c = &clientState{uk: 4, rk: 1}
		p.clients[d] = c
	}
	return c
}

// flushFailCounter cycles the failing write position over all pipelines of a run (every position of every batch
// composition gets its turn).
var flushFailCounter int64

type subMeta struct {
	k string
	d int
}

// roundWrites predicts how many files the next forced round of the writer puts into CAS: chunk, provisional proof (if
// an update is included), provisional index - unless only deactivates are included -, core proof (if a recover or
// deactivate is included), core index.  Included: the first live operation per DID in the same-version prefix of the queue.
func (p *Pipe) roundWrites() int {
	items, _ := p.queue.Peek(p.queue.Len())
	if len(items) == 0 {
		return 1
	}
	seen := map[int]bool{}
	var nC, nU, nR, nD int
	for i, it := range items {
		if it.ProtocolVersion != items[0].ProtocolVersion || i >= 10 {
			break
		}
		m := p.meta[p.ids[canonKey(it.OperationRequest)]]
		if (m.k == "E" && p.late) || seen[m.d] {
			continue
		}
		seen[m.d] = true
		switch m.k {
		case "C":
			nC++
		case "U", "E", "X":
			nU++
		case "R":
			nR++
		case "D":
			nD++
		}
	}
	n := 1 // core index
	if nC+nU+nR > 0 {
		n += 2 // chunk, provisional index
		if nU > 0 {
			n++
		}
	}
	if nR+nD > 0 {
		n++
	}
	return n
}

func (p *Pipe) queueIDs() []int {
	items, _ := p.queue.Peek(p.queue.Len())
	out := []int{}
	for _, it := range items {
		out = append(out, p.ids[canonKey(it.OperationRequest)])
	}
	return out
}

func (p *Pipe) unpubIDs() []int {
	p.unpub.mu.Lock()
	defer p.unpub.mu.Unlock()
	out := []int{}
	for _, o := range p.unpub.ops {
		out = append(out, p.ids[canonKey(o.OperationRequest)])
	}
	sort.Ints(out)
	return out
}

func refNum(s, prefix string) int {
	if !strings.HasPrefix(s, prefix) {
		return -1
	}
	n, err := strconv.Atoi(s[len(prefix):])
	if err != nil {
		return -1
	}
	return n
}

func (p *Pipe) storeProj() []map[string]interface{} {
	out := []map[string]interface{}{}
	for _, o := range p.store.All() {
		eq := -1
		if len(o.EquivalentReferences) == 1 {
			eq = refNum(o.EquivalentReferences[0], "eq")
		}
		id, ok := p.ids[canonKey(o.OperationRequest)]
		if !ok {
			id = -1
		}
		out = append(out, map[string]interface{}{"id": id, "t": o.TransactionTime, "n": o.TransactionNumber, "ver": o.ProtocolVersion,
			"ref": refNum(o.CanonicalReference, "ref"), "eq": eq})
	}
	return out
}

func (p *Pipe) log(e map[string]interface{}) { p.Events = append(p.Events, e) }

// DID returns the short-form DID of d (a never-created DID gets a syntactically valid unknown suffix).
func (p *Pipe) DID(d int) string {
	if sfx, ok := p.suffix[d]; ok {
		return NS + ":" + sfx
	}
	return NS + ":" + "EiD" + strings.Repeat("A", 42) + strconv.Itoa(d)
}

// View abstracts an external resolution result.
type View struct {
	Exists bool  `json:"exists"`
	Deact  bool  `json:"deact"`
	Doc    []int `json:"doc"`
	Uc     int   `json:"uc"`
	Rc     int   `json:"rc"`
}

func (p *Pipe) view(rr *document.ResolutionResult, err error) View {
	v := View{Doc: []int{}}
	if err != nil || rr == nil {
		return v
	}
	v.Exists = true
	if d, ok := rr.DocumentMetadata[document.DeactivatedProperty].(bool); ok {
		v.Deact = d
	}
	var m map[string]interface{}
	switch t := rr.DocumentMetadata[document.MethodProperty].(type) {
	case document.Metadata:
		m = t
	case map[string]interface{}: // after a JSON round trip (REST)
		m = t
	}
	if s, ok := m[document.UpdateCommitmentProperty].(string); ok {
		v.Uc = p.Keys.Abs(s)
	}
	if s, ok := m[document.RecoveryCommitmentProperty].(string); ok {
		v.Rc = p.Keys.Abs(s)
	}
	raw, _ := json.Marshal(rr.Document["verificationMethod"])
	var vms []map[string]interface{}
	_ = json.Unmarshal(raw, &vms)
	for _, vm := range vms {
		id, _ := vm["id"].(string)
		if i := strings.LastIndex(id, "#k"); i >= 0 {
			n, err := strconv.Atoi(id[i+2:])
			if err == nil {
				v.Doc = append(v.Doc, n)
				continue
			}
		}
		v.Doc = append(v.Doc, -8)
	}
	return v
}

// Exec executes one step on the real pipeline and records its event. next is the rest of the behaviour (look-ahead
// for delivering consecutive Observe steps to the observer as ONE notification).
func (p *Pipe) Exec(s Step, dids []int) error {
	switch s.A {
	case "Submit", "SubmitAddFails", "SubmitPutFails":
		c := p.client(s.D)
		b, err := p.builder(s.D)
		if err != nil {
			return err
		}
		var sh concr.Shape
		tok := s.D*100 + c.seq + 1
		switch s.K {
		case "C":
			sh = concr.Shape{Ty: "C", Nuc: 4, Nrc: 1, Dl: "ok", Win: "none", P: s.D * 100, Sfx: "ok", Sig: "ok"}
		case "U", "E":
			sh = concr.Shape{Ty: "U", Rk: c.uk, Sig: "ok", Nuc: c.uk + 1, Dl: "ok", P: tok, Sfx: "ok"}
		case "B": // a create with a key that validation accepts but the transformer cannot convert: refused
			sh = concr.Shape{Ty: "C", Nuc: 4, Nrc: 1, Dl: "ok", Win: "none", P: s.D*100 + 99, Sfx: "ok", Sig: "ok"}
		case "X": // re-commits to the DID's first update key
			sh = concr.Shape{Ty: "U", Rk: c.uk, Sig: "ok", Nuc: 4, Dl: "ok", P: tok, Sfx: "ok"}
		case "R":
			sh = concr.Shape{Ty: "R", Rk: c.rk, Sig: "ok", Nuc: c.uk + 1, Nrc: c.rk + 1, Dl: "ok", P: tok, Sfx: "ok"}
		case "D":
			sh = concr.Shape{Ty: "D", Rk: c.rk, Sig: "ok", Sfx: "ok"}
		}
		bb := *b
		if s.K == "B" {
			bad, perr := patch.NewAddPublicKeysPatch(`[{"id":"badkey","type":"Ed25519VerificationKey2018","purposes":["authentication"],"publicKeyJwk":{"kty":"EC","crv":"P-256","x":"PUymIqdtF_qxaAqPABSw-C-owT1KYYQbsMKFM-L9fJA","y":"nM84jDHCMOTGTh_ZdHq4dBBdo4Z5PkEOW9jA8z8IsGc"}}]`)
			if perr != nil {
				return perr
			}
			nb, nerr := concr.NewBuilderExtra(p.Keys, sh, append(VersionPatches(p.curver, s.D*100+99), bad))
			if nerr != nil {
				return nerr
			}
			bb = *nb
		}
		if s.K != "C" && s.K != "B" {
			bb.Extra = VersionPatches(p.curver, tok)
			// deterministic signature schemes (Ed25519) would make repeated requests byte-identical: a unique,
			// always-satisfied window (no anchorFrom, far-away anchorUntil) keeps every submission distinct
			bb.WinOverride = &[2]int64{0, 1000000000000 + int64(p.nsub)}
			if s.K == "E" { // the signed window ends at a server time that the Clock step passes
				bb.WinOverride = &[2]int64{0, ExpiringUntil}
			}
		}
		req, err := bb.Request(sh)
		if err != nil {
			return err
		}
		if s.K == "U" && (s.D+c.seq)%2 == 0 {
			// every other update is as large as intake allows in the client's spelling (numbers as 1e20, a long kid) and
			// larger than the operation size limit once the library has re-serialised it for the operation store
			params := wire.Params(p.Keys.Hash)
			if big, ok, ierr := bb.InflatingRequest(sh, int(params.MaxOperationSize), int(params.MaxDeltaSize)); ierr != nil {
				return ierr
			} else if ok {
				req = big
				p.Inflated++
				p.InflatedIDs = append(p.InflatedIDs, p.nsub+1)
			}
		}
		p.nsub++
		p.ids[canonKey(req)] = p.nsub
		p.meta[p.nsub] = subMeta{k: s.K, d: s.D}
		p.addFails = s.A == "SubmitAddFails"
		p.unpub.mu.Lock()
		p.unpub.putFail = s.A == "SubmitPutFails"
		p.unpub.mu.Unlock()
		perr := p.submit(req)
		p.addFails = false
		p.unpub.mu.Lock()
		p.unpub.putFail = false
		p.unpub.mu.Unlock()
		if perr == nil {
			switch s.K {
			case "C":
				c.created = true
				p.suffix[s.D] = b.Suffix
				p.long[s.D] = longForm(NS+":"+b.Suffix, req)
			case "U", "E":
				c.uk++
				c.seq++
			case "X":
				c.uk = 4
				c.seq++
			case "R":
				c.uk++
				c.rk++
				c.seq++
			case "D":
				c.dead = true
			}
		}
		e := map[string]interface{}{"ev": "Submit", "d": s.D, "k": s.K, "addFails": s.A == "SubmitAddFails", "putFails": s.A == "SubmitPutFails", "accepted": perr == nil,
			"q": p.queueIDs(), "unpub": p.unpubIDs()}
		if perr != nil {
			e["error"] = perr.Error()
		}
		p.log(e)
	case "Flush", "FlushFails":
		// FlushFails: one CAS write of the round fails - the first, second, ... fifth in turn (a round writes up to five
		// files; a position beyond the last write means that nothing fails, and the event says so)
		p.cas.mu.Lock()
		p.cas.failed = false
		p.cas.failAt = 0
		if s.A == "FlushFails" {
			p.cas.failAt = 1 + int(atomic.AddInt64(&flushFailCounter, 1))%p.roundWrites()
			if os.Getenv("VERIF_DEBUG_FLUSH") != "" {
				fmt.Fprintf(os.Stderr, "FLUSHFAILS writes=%d pos=%d q=%v\n", p.roundWrites(), p.cas.failAt, p.queueIDs())
			}
			p.nFlushFails++
		}
		p.cas.mu.Unlock()
		p.lastAnch = []int{}
		before := len(p.ledger)
		p.writer.VerifProcessAvailable(true)
		p.cas.mu.Lock()
		failed := p.cas.failed
		p.cas.failAt = 0
		p.cas.mu.Unlock()
		if s.A == "FlushFails" && !failed {
			// the round wrote fewer files than predicted: the harness, not the code under test, is at fault
			return fmt.Errorf("FlushFails: no CAS write at the predicted position (roundWrites mispredicted)")
		}
		anch := []int{}
		if len(p.ledger) > before {
			anch = p.lastAnch
		}
		p.log(map[string]interface{}{"ev": "Flush", "fails": failed, "anchored": anch, "q": p.queueIDs(), "unpub": p.unpubIDs()})
	case "Clock":
		p.late = true
		p.log(map[string]interface{}{"ev": "Clock"})
	case "Garbage":
		i := len(p.ledger) + 1
		ns := NS
		if p.ForeignNS {
			// the other way in which a transaction cannot be read: it belongs to a namespace this node has no protocol for
			ns = "did:foreign"
		}
		p.ledger = append(p.ledger, txn.SidetreeTxn{TransactionTime: uint64(i), TransactionNumber: uint64(i), AnchorString: "1.garbage-" + strconv.Itoa(i),
			Namespace: ns, ProtocolVersion: p.curver, CanonicalReference: "ref" + strconv.Itoa(i), EquivalentReferences: []string{"eq" + strconv.Itoa(i)}})
		p.log(map[string]interface{}{"ev": "Garbage"})
	case "Dup":
		p.dupTxn[p.observed+1] = true
		p.log(map[string]interface{}{"ev": "Dup"})
	case "Upgrade":
		p.curver = 10
		p.pc.cur = 1
		p.log(map[string]interface{}{"ev": "Upgrade"})
	case "ResolveAll":
		views := map[string]View{}
		for _, d := range dids {
			views[strconv.Itoa(d)] = p.view(p.resolve(p.DID(d)))
		}
		arr := make([]View, len(dids))
		for i, d := range dids {
			arr[i] = views[strconv.Itoa(d)]
		}
		p.log(map[string]interface{}{"ev": "ResolveAll", "views": arr})
	case "ResolveHist":
		// every DID at every version time 1..len(ledger) and at the reference of every ledger entry (C06 through the
		// document handler / the REST query parameters)
		L := len(p.ledger)
		times := make([][]View, len(dids))
		versions := make([][]View, len(dids))
		timesLong := make([][]View, len(dids))
		versionsLong := make([][]View, len(dids))
		for i, d := range dids {
			times[i], versions[i], timesLong[i], versionsLong[i] = []View{}, []View{}, []View{}, []View{}
			long := p.LongDID(d)
			if long == "" {
				long = p.DID(d)
			}
			for T := 1; T <= L; T++ {
				vt := time.Unix(int64(T), 0).UTC().Format(time.RFC3339)
				times[i] = append(times[i], p.view(p.resolveAt(p.DID(d), "versionTime", vt)))
				versions[i] = append(versions[i], p.view(p.resolveAt(p.DID(d), "versionId", "ref"+strconv.Itoa(T))))
				// the same cuts asked for with the long-form DID (compared for anchored DIDs only: an unanchored
				// long-form DID legitimately resolves from its initial state)
				timesLong[i] = append(timesLong[i], p.view(p.resolveAt(long, "versionTime", vt)))
				versionsLong[i] = append(versionsLong[i], p.view(p.resolveAt(long, "versionId", "ref"+strconv.Itoa(T))))
			}
		}
		// cuts that select nothing: a version time before 1970, an unknown version id whose text contains "not found"
		odd := make([][]View, len(dids))
		for i, d := range dids {
			long := p.LongDID(d)
			if long == "" {
				long = p.DID(d)
			}
			for _, did := range []string{p.DID(d), long} {
				odd[i] = append(odd[i], p.view(p.resolveAt(did, "versionTime", "1969-12-31T23:59:59Z")), p.view(p.resolveAt(did, "versionId", "ref not found")))
				if p.ViaREST {
					// query strings that name a version but cannot be decoded: whatever they select, it is not the latest state
					for _, q := range []string{"versionId=%ZZ", "versionId=nope%", "versionId=nope;a=b", "versionTime=1969-12-31T23:59:59Z;a=b",
						"versionTime=1969-12-31T23:59:59Z%", "versionTime=garbage%ZZ&versionId=nope%"} {
						odd[i] = append(odd[i], p.view(p.resolveRaw(did, q)))
					}
				}
			}
		}
		p.log(map[string]interface{}{"ev": "ResolveHist", "times": times, "versions": versions, "timesLong": timesLong, "versionsLong": versionsLong, "odd": odd})
	default:
		return fmt.Errorf("unknown step %q", s.A)
	}
	return nil
}

// ObserveMany delivers the next len(faults) ledger entries to the real Observer as ONE notification and records one
// Observe event per entry with the state the transaction processor left behind.
func (p *Pipe) ObserveMany(faults []string) {
	var txns []txn.SidetreeTxn
	for range faults {
		if p.observed+len(txns) < len(p.ledger) {
			txns = append(txns, p.ledger[p.observed+len(txns)])
		}
	}
	if len(txns) == 0 {
		return
	}
	// the fault of entry i is armed when entry i-1 completes (the spy runs in the observer goroutine)
	arm := func(f string) {
		p.cas.mu.Lock()
		p.cas.failRead = f == "cas"
		p.cas.mu.Unlock()
		if f == "put" {
			p.store.PutErr = func([]*operation.AnchoredOperation) error { return errors.New("injected store failure") }
		} else {
			p.store.PutErr = nil
		}
	}
	arm(faults[0])
	p.txnCh <- txns
	for i := range txns {
		var snap obsSnap
		select {
		case snap = <-p.doneCh:
		case <-time.After(20 * time.Second):
			snap = obsSnap{store: p.storeProj(), unpub: p.unpubIDs(), puts: 0}
			snap.store = append(snap.store, map[string]interface{}{"id": -99, "t": 0, "n": 0, "ver": 0, "ref": 0, "eq": 0}) // observer never processed this entry
		}
		if i+1 < len(txns) {
			arm(faults[i+1])
		} else {
			arm("none")
		}
		select {
		case p.contCh <- struct{}{}:
		default:
		}
		p.observed++
		p.log(map[string]interface{}{"ev": "Observe", "f": faults[i], "store": snap.store, "unpub": snap.unpub, "puts": snap.puts})
	}
	arm("none")
}

// NDJSON renders the events.
func (p *Pipe) NDJSON() string {
	var b strings.Builder
	for _, e := range p.Events {
		j, _ := json.Marshal(e)
		b.Write(j)
		b.WriteByte('\n')
	}
	return b.String()
}

// CreateViews submits a create for DID d and returns the three views C20 compares: the immediate response, the
// long-form resolution (before submission, i.e. purely from the initial state) and the short-form resolution after
// anchoring and observing - each normalised by replacing the respective DID string with "DID".
func (p *Pipe) CreateViews(d int) (map[string]string, error) {
	b, err := p.builder(d)
	if err != nil {
		return nil, err
	}
	svc, err := patch.NewAddServiceEndpointsPatch(fmt.Sprintf(`[{"id":"svc%d","type":"LinkedDomains","serviceEndpoint":"https://example.com/%d","priority":1}]`, d, d))
	if err != nil {
		return nil, err
	}
	sh := concr.Shape{Ty: "C", Nuc: 4, Nrc: 1, Dl: "ok", Win: "none", P: d * 100, Sfx: "ok", Sig: "ok"}
	bb, err := concr.NewBuilderExtra(p.Keys, sh, append(VersionPatches(p.curver, d*100), svc))
	if err != nil {
		return nil, err
	}
	_ = b
	req, err := bb.Request(sh)
	if err != nil {
		return nil, err
	}
	var m map[string]interface{}
	if err := json.Unmarshal(req, &m); err != nil {
		return nil, err
	}
	delete(m, "type")
	initial, err := canonicalizer.MarshalCanonical(m)
	if err != nil {
		return nil, err
	}
	short := NS + ":" + bb.Suffix
	long := short + ":" + b64(initial)
	norm := func(rr *document.ResolutionResult, err error, did string) string {
		if err != nil {
			return "ERROR: " + err.Error()
		}
		raw, _ := canonicalizer.MarshalCanonical(rr.Document)
		_ = did
		return strings.ReplaceAll(strings.ReplaceAll(string(raw), long, "DID"), short, "DID")
	}
	out := map[string]string{}
	rrL, errL := p.handler.ResolveDocument(long)
	out["long_form_before_anchoring"] = norm(rrL, errL, long)
	p.nsub++
	p.ids[canonKey(req)] = p.nsub
	rr, perr := p.handler.ProcessOperation(req, p.curver)
	out["create_response"] = norm(rr, perr, short)
	if perr != nil {
		return out, nil
	}
	p.suffix[d] = bb.Suffix
	p.writer.VerifProcessAvailable(true)
	p.ObserveMany([]string{"none"})
	rrS, errS := p.handler.ResolveDocument(short)
	out["short_form_after_anchoring"] = norm(rrS, errS, short)
	rrL2, errL2 := p.handler.ResolveDocument(long)
	out["long_form_after_anchoring"] = norm(rrL2, errL2, long)
	return out, nil
}

// longForm: the long-form DID of a create request (short form + ":" + base64url of the canonical initial state).
func longForm(short string, createReq []byte) string {
	var m map[string]interface{}
	if json.Unmarshal(createReq, &m) != nil {
		return short
	}
	delete(m, "type")
	initial, err := canonicalizer.MarshalCanonical(m)
	if err != nil {
		return short
	}
	return short + ":" + b64(initial)
}

// ResubmitCreate hands the (byte-identical) create request of DID d to intake once more; it reports whether intake
// accepted it and how many operations the batch queue holds afterwards.
func (p *Pipe) ResubmitCreate(d int) (bool, int, error) {
	b, err := p.builder(d)
	if err != nil {
		return false, 0, err
	}
	req, err := b.Request(concr.Shape{Ty: "C", Nuc: 4, Nrc: 1, Dl: "ok", Win: "none", P: d * 100, Sfx: "ok", Sig: "ok"})
	if err != nil {
		return false, 0, err
	}
	perr := p.submit(req)
	return perr == nil, len(p.queueIDs()), nil
}

// LongDID returns the long-form DID of d ("" if d was never created through Exec).
func (p *Pipe) LongDID(d int) string { return p.long[d] }

// Handler exposes the real document handler.
func (p *Pipe) Handler() *dochandler.DocumentHandler { return p.handler }

func b64(b []byte) string { return base64.RawURLEncoding.EncodeToString(b) }

// SetVersion switches the protocol version in force (0 or 10).
func (p *Pipe) SetVersion(v uint64) {
	p.curver = v
	if v == 10 {
		p.pc.cur = 1
	} else {
		p.pc.cur = 0
	}
}

// submit hands a request to intake: directly to the DocumentHandler or, with ViaREST, as an HTTP POST to the real
// UpdateHandler (which takes the protocol version in force from the protocol client).
func (p *Pipe) submit(req []byte) error {
	if !p.ViaREST {
		_, err := p.handler.ProcessOperation(req, p.curver)
		return err
	}
	h := restdoc.NewUpdateHandler(p.handler, p.pc, noMetrics{})
	rw := httptest.NewRecorder()
	h.Update(rw, httptest.NewRequest(http.MethodPost, "/operations", bytes.NewReader(req)))
	if rw.Code == http.StatusOK {
		return nil
	}
	return fmt.Errorf("HTTP %d: %s", rw.Code, strings.TrimSpace(rw.Body.String()))
}

// resolveAt is resolve with a version option (versionTime / versionId): a resolution option of the document handler or,
// with ViaREST, a query parameter of the resolve endpoint.
func (p *Pipe) resolveAt(did, param, value string) (*document.ResolutionResult, error) {
	if !p.ViaREST {
		if param == "versionTime" {
			return p.handler.ResolveDocument(did, document.WithVersionTime(value))
		}
		return p.handler.ResolveDocument(did, document.WithVersionID(value))
	}
	return p.resolveRaw(did, url.Values{param: {value}}.Encode())
}

// resolveRaw sends GET /identifiers/{id}?<raw query> to the real ResolveHandler.
func (p *Pipe) resolveRaw(did, q string) (*document.ResolutionResult, error) {
	h := restdoc.NewResolveHandler(p.handler, noMetrics{})
	rw := httptest.NewRecorder()
	req, err := http.NewRequest(http.MethodGet, "http://example.com/identifiers/"+did, nil)
	if err != nil {
		return nil, err
	}
	req.URL.RawQuery = q
	r := mux.SetURLVars(req, map[string]string{"id": did})
	h.Resolve(rw, r)
	if rw.Code != http.StatusOK {
		return nil, fmt.Errorf("HTTP %d: %s", rw.Code, strings.TrimSpace(rw.Body.String()))
	}
	var rr document.ResolutionResult
	if err := json.Unmarshal(rw.Body.Bytes(), &rr); err != nil {
		return nil, err
	}
	return &rr, nil
}

// resolve resolves a DID directly or, with ViaREST, through the real ResolveHandler (GET /identifiers/{id}).
func (p *Pipe) resolve(did string) (*document.ResolutionResult, error) {
	if !p.ViaREST {
		return p.handler.ResolveDocument(did)
	}
	h := restdoc.NewResolveHandler(p.handler, noMetrics{})
	rw := httptest.NewRecorder()
	r := mux.SetURLVars(httptest.NewRequest(http.MethodGet, "/identifiers/"+did, nil), map[string]string{"id": did})
	h.Resolve(rw, r)
	if rw.Code != http.StatusOK {
		return nil, fmt.Errorf("HTTP %d: %s", rw.Code, strings.TrimSpace(rw.Body.String()))
	}
	var rr document.ResolutionResult
	if err := json.Unmarshal(rw.Body.Bytes(), &rr); err != nil {
		return nil, err
	}
	return &rr, nil
}
