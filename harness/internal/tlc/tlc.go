// Package tlc runs the TLC model checker on a configuration of the specification in a scratch directory
// and parses what it prints: statistics, emitted CASE/ALPHA lines, invariant violations.
package tlc

import (
	"bufio"
	"bytes"
	"encoding/json"
	"fmt"
	"os"
	"os/exec"
	"path/filepath"
	"regexp"
	"strconv"
	"strings"
	"time"
)

// Result is what one TLC run produced.
type Result struct {
	Generated, Distinct, Depth int64
	Cases                      []json.RawMessage // payloads of emitted "CASE <json>" lines
	Tagged                     map[string][]json.RawMessage
	InvariantViolated          string // name of a violated invariant / property ("" if none)
	Completed                  bool   // "Model checking completed" or simulation finished
	Output                     string // tail of the raw output (diagnostics)
	WallS                      float64
	Cmd                        string
}

// Opts configure a run.
type Opts struct {
	SpecDir    string // directory holding *.tla and *.cfg
	Module     string // e.g. MC_C03 (without .tla)
	Config     string // e.g. MC_C03_quick.cfg
	Workers    int
	Timeout    time.Duration
	Simulate   string   // "" or e.g. "num=500" for -simulate
	Depth      int      // -depth for simulation
	Seed       int64    // -seed (simulation)
	Extra      []string // extra args
	WorkDir    string   // scratch parent directory
	KeepLines  bool
	JavaOpts   string
	ExtraFiles map[string]string // name -> content, written into the scratch copy (e.g. trace files)
}

var statsRe = regexp.MustCompile(`(\d+) states generated, (\d+) distinct states found`)
var depthRe = regexp.MustCompile(`depth of the complete state graph search is (\d+)`)
var invRe = regexp.MustCompile(`Invariant (\S+) is violated`)
var propRe = regexp.MustCompile(`(?:Action property|Temporal properties|property) (\S+)? ?(?:is|were) violated`)

// Run executes TLC. A non-nil error means the machinery failed (never a property verdict).
func Run(o Opts) (*Result, error) {
	if o.Workers == 0 {
		o.Workers = 16
	}
	if o.Timeout == 0 {
		o.Timeout = 10 * time.Minute
	}
	scratch, err := os.MkdirTemp(o.WorkDir, "tlc-"+o.Module+"-")
	if err != nil {
		return nil, err
	}
	defer os.RemoveAll(scratch)
	ents, err := os.ReadDir(o.SpecDir)
	if err != nil {
		return nil, err
	}
	for _, e := range ents {
		if e.IsDir() {
			continue
		}
		if strings.HasSuffix(e.Name(), ".tla") || e.Name() == o.Config {
			b, err := os.ReadFile(filepath.Join(o.SpecDir, e.Name()))
			if err != nil {
				return nil, err
			}
			if err := os.WriteFile(filepath.Join(scratch, e.Name()), b, 0o644); err != nil {
				return nil, err
			}
		}
	}
	for name, content := range o.ExtraFiles {
		if err := os.WriteFile(filepath.Join(scratch, name), []byte(content), 0o644); err != nil {
			return nil, err
		}
	}
	args := []string{fmt.Sprintf("%ds", int(o.Timeout.Seconds())), "tlc", "-workers", strconv.Itoa(o.Workers),
		"-metadir", filepath.Join(scratch, "meta"), "-config", o.Config}
	if o.Simulate != "" {
		args = append(args, "-simulate", o.Simulate, "-depth", strconv.Itoa(o.Depth), "-seed", strconv.FormatInt(o.Seed, 10))
	}
	args = append(args, o.Extra...)
	args = append(args, o.Module+".tla")
	cmd := exec.Command("timeout", args...)
	cmd.Dir = scratch
	cmd.Env = append(os.Environ(), "TRACE_DIR="+scratch)
	if o.JavaOpts != "" {
		cmd.Env = append(cmd.Env, "JAVA_TOOL_OPTIONS="+o.JavaOpts)
	}
	outFile := filepath.Join(scratch, "tlc.out")
	f, err := os.Create(outFile)
	if err != nil {
		return nil, err
	}
	cmd.Stdout = f
	cmd.Stderr = f
	start := time.Now()
	runErr := cmd.Run()
	f.Close()
	res := &Result{Tagged: map[string][]json.RawMessage{}, WallS: time.Since(start).Seconds(), Cmd: "tlc " + strings.Join(args[2:], " ")}
	rf, err := os.Open(outFile)
	if err != nil {
		return nil, err
	}
	defer rf.Close()
	sc := bufio.NewScanner(rf)
	sc.Buffer(make([]byte, 1<<20), 1<<28)
	var tail []string
	for sc.Scan() {
		line := sc.Text()
		if strings.HasPrefix(line, `"`) {
			s, err := strconv.Unquote(line)
			if err == nil {
				if i := strings.IndexByte(s, ' '); i > 0 {
					tag := s[:i]
					payload := json.RawMessage(s[i+1:])
					if tag == "CASE" {
						res.Cases = append(res.Cases, payload)
					} else {
						res.Tagged[tag] = append(res.Tagged[tag], payload)
					}
					continue
				}
			}
		}
		if m := statsRe.FindStringSubmatch(line); m != nil {
			res.Generated, _ = strconv.ParseInt(m[1], 10, 64)
			res.Distinct, _ = strconv.ParseInt(m[2], 10, 64)
		}
		if m := depthRe.FindStringSubmatch(line); m != nil {
			res.Depth, _ = strconv.ParseInt(m[1], 10, 64)
		}
		if m := invRe.FindStringSubmatch(line); m != nil {
			res.InvariantViolated = m[1]
		}
		if strings.Contains(line, "is violated") || strings.Contains(line, "were violated") {
			if res.InvariantViolated == "" {
				res.InvariantViolated = strings.TrimSpace(line)
			}
		}
		if strings.Contains(line, "Model checking completed") || strings.Contains(line, "simulation") && strings.Contains(line, "finished") {
			res.Completed = true
		}
		tail = append(tail, line)
		if len(tail) > 60 {
			tail = tail[1:]
		}
	}
	res.Output = strings.Join(tail, "\n")
	if res.InvariantViolated != "" {
		return res, nil
	}
	if runErr != nil {
		// exit 124 = timeout; anything else without a violation is a machinery failure
		return res, fmt.Errorf("tlc failed (%v): %s", runErr, lastLines(res.Output, 25))
	}
	if o.Simulate == "" && !res.Completed {
		return res, fmt.Errorf("tlc did not complete: %s", lastLines(res.Output, 25))
	}
	return res, nil
}

func lastLines(s string, n int) string {
	ls := strings.Split(s, "\n")
	if len(ls) > n {
		ls = ls[len(ls)-n:]
	}
	return strings.Join(ls, "\n")
}

// Decode unmarshals a payload, failing loudly.
func Decode(raw json.RawMessage, v interface{}) error {
	d := json.NewDecoder(bytes.NewReader(raw))
	return d.Decode(v)
}
