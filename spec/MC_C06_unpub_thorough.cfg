\* C06 thorough, unpublished operations allowed (smaller alphabet)
INIT Init
NEXT Next
CONSTANTS
  AlphaSeq <- AlphaUnpub
  Coords <- CoordsQuick
  MaxOps = 5
  AllowUnpub = TRUE
  Monotone = FALSE
  AttackerKeys = {8, 9}
INVARIANT TypeOK
INVARIANT HistoricalIsTruncation
INVARIANT EmitCase
PROPERTY PastIsImmutable
CHECK_DEADLOCK FALSE
