\* behaviour generation by simulation (history variable on)
INIT Init
NEXT NextGen
CONSTANTS
  Dids <- D2
  MaxSubmits = 8
  MaxLedger = 6
  MaxFaults = 0
  UnpubOn = FALSE
  TwoVersions = TRUE
  Expiry = FALSE
  KeepExpiredUnpublished = FALSE
  MaxSteps = 22
INVARIANT Emit
CHECK_DEADLOCK FALSE
