\* exhaustive check of the pipeline design: 2 DIDs, <= 4 submissions, <= 3 ledger entries, <= 1 fault, unpublished store on
INIT Init
NEXT Next
CONSTANTS
  Dids <- D2
  MaxSubmits = 4
  MaxLedger = 3
  MaxFaults = 1
  UnpubOn = TRUE
  TwoVersions = TRUE
  Expiry = FALSE
  KeepExpiredUnpublished = FALSE
  MaxSteps = 0
VIEW MCView
INVARIANT OnePerSuffixPerTxn
INVARIANT Stamped
INVARIANT AllOrNothing
INVARIANT FailedTxnIsolated
INVARIANT NoTrace
INVARIANT DeactivatedRefuses
INVARIANT IntendedState
INVARIANT NoOrphanUnpublished
INVARIANT QuiescentMeansPublished
PROPERTY HistoryStable
CHECK_DEADLOCK FALSE
