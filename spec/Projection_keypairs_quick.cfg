\* C19 quick, part keypairs
INIT Init
NEXT Next
CONSTANTS
  MaxKeys = 1
  Part = "keypairs"
INVARIANT EachKeyOnce
INVARIANT RelationshipsExact
INVARIANT ContextsCover
INVARIANT IdsQualified
INVARIANT Emit
CHECK_DEADLOCK FALSE
