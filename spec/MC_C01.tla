------------------------------ MODULE MC_C01 ------------------------------
(* C01: only the holder of the committed key changes the resolved state.  *)
(* Owner keys 1..7 (1,2,3 recovery; 4..7 update); attacker keys 8, 9      *)
(* (9 also signs the forgeries).  Every unauthorised shape is built so    *)
(* that it WOULD change the result if it were accepted.                   *)
EXTENDS Resolution

LegitChain == <<
  C(1, 4, "ok", 10),
  U(4, 5, "ok", "ok", "none", 11),
  U(5, 6, "ok", "ok", "none", 12),
  R(1, 2, 7, "ok", "ok", "none", 30),
  D(2, "ok", "ok", "none")
>>

ForgeriesQuick == <<
  C(1, 4, "mismatch", 19),
  U(4, 8, "bad", "ok", "none", 41),
  U(4, 8, "payload", "ok", "none", 42),
  U(4, 8, "keymismatch", "ok", "none", 43),
  U(4, 8, "ok", "mismatch", "none", 44),
  R(1, 8, 8, "forged", "ok", "none", 51),
  R(1, 8, 8, "payload", "ok", "none", 52),
  D(1, "bad", "ok", "none"),
  D(1, "keymismatch", "ok", "none"),
  U(8, 9, "ok", "ok", "none", 45),
  U(5, 4, "bad", "ok", "none", 48),    \* next commitment already consumed earlier in the chain
  U(4, 8, "bad", "absent", "none", 49), \* no delta member at all
  R(1, 8, 8, "forged", "mismatch", "none", 56)  \* forged signature AND a delta that does not match the signed hash
>>

ForgeriesMore == <<
  U(4, 8, "forged", "ok", "none", 46),
  U(5, 8, "bad", "ok", "none", 47),
  R(1, 8, 8, "bad", "ok", "none", 53),
  R(1, 8, 8, "keymismatch", "ok", "none", 54),
  R(8, 9, 9, "ok", "ok", "none", 55),
  R(1, 8, 8, "bad", "invalid", "none", 57),
  U(4, 8, "bad", "fail", "none", 58),
  D(1, "forged", "ok", "none"),
  D(1, "payload", "ok", "none"),
  D(2, "bad", "ok", "none"),
  D(8, "ok", "ok", "none"),
  C(1, 4, "ok", 10)
>>

AlphaQuick    == LegitChain \o ForgeriesQuick
AlphaThorough == LegitChain \o ForgeriesQuick \o SubSeq(ForgeriesMore, 1, 11)

CoordsQuick    == {<<1, 0>>, <<2, 1>>, <<2, 2>>, <<3, 0>>}
CoordsThorough == {<<1, 0>>, <<1, 1>>, <<2, 1>>, <<2, 2>>, <<3, 0>>}

(* Non-triviality: some unauthorised operation in the store would change  *)
(* the result if its signature / delta were genuine.                      *)
Authorise(o) == [o EXCEPT !.sh.sig = "ok", !.sh.dl = IF o.sh.dl = "mismatch" THEN "ok" ELSE o.sh.dl]
WouldMatter ==
  \E o \in store : /\ o.sh.ty # "C"
                   /\ Unauthorised(o.sh, AttackerKeys)
                   /\ View(ResolveRef((store \ {o}) \cup {Authorise(o)})) # res

EmitC01 == PrintT("CASE " \o ToJson([ops |-> OpsJson, res |-> res, ao |-> AoNow, na |-> IF WouldMatter THEN 1 ELSE 0, legit |-> LegitJson]))
=============================================================================
