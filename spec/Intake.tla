------------------------------- MODULE Intake -------------------------------
(***************************************************************************)
(* C10 / C12 (intake half): the acceptance predicate of operation intake   *)
(* (Parser.Parse, i.e. non-batch mode) as a decision table over a request  *)
(* described by one CLASS per protocol rule, with every limit expressed    *)
(* relative to its OWN protocol parameter:                                 *)
(*   "small"  the parameter is generous                                    *)
(*   "max"    the parameter is set to exactly the request's size           *)
(*   "over"   the parameter is one less than the request's size            *)
(* so that the concretiser realises a class by choosing the protocol       *)
(* configuration, each parameter independently of all others.              *)
(*                                                                         *)
(* State machine: start from the valid baseline of each operation type and *)
(* apply up to MaxDev single-field deviations (Deviate); TLC thus          *)
(* enumerates the baseline, every single deviation and every combination   *)
(* of up to MaxDev deviations.                                             *)
(***************************************************************************)
EXTENDS Integers, Sequences, FiniteSets, TLC, Json

CONSTANTS MaxDev

VARIABLES req, devs

vars == <<req, devs>>

Types == {"C", "U", "R", "D"}
Signed(ty)   == ty \in {"U", "R", "D"}
HasDelta(ty) == ty \in {"C", "U", "R"}

(* hash fields per type *)
HashFields(ty) ==
  CASE ty = "C" -> {"recoveryCommitment", "suffixDeltaHash", "updateCommitment"}
    [] ty = "U" -> {"revealValue", "signedDeltaHash", "updateCommitment"}
    [] ty = "R" -> {"revealValue", "signedDeltaHash", "signedRecoveryCommitment", "updateCommitment"}
    [] ty = "D" -> {"revealValue"}

MissingFields(ty) ==
  CASE ty = "C" -> {"suffixData", "delta"}
    [] ty = "U" -> {"didSuffix", "signedData", "delta", "revealValue"}
    [] ty = "R" -> {"didSuffix", "signedData", "delta", "revealValue"}
    [] ty = "D" -> {"didSuffix", "signedData", "revealValue"}

Baseline(ty) ==
  [ty |-> ty,
   opSize |-> "small", deltaSize |-> "small", hashLen |-> "small",
   hashAlg |-> <<"allowed", "">>, \* or <<"notAllowed", field>> / <<"malformed", field>>
   alg |-> "allowed", hdrExtra |-> FALSE, crv |-> "allowed", nonce |-> "absent",
   patch |-> "enabled", reveal |-> "match", next |-> "fresh", missing |-> "none",
   dsfx |-> "match", cdh |-> "match"]

(* the values each field may deviate to, per type *)
Domain(ty, f) ==
  \* "overByWhitespace": the request exceeds the maximum only through JSON whitespace around the (maximal) operation
  \* "huge": the limit itself is 2^63 or 2^64 - 1 (the parameters are unsigned): far above every request
  CASE f = "opSize"    -> {"small", "max", "over", "overByWhitespace", "huge"}
    [] f = "deltaSize" -> IF HasDelta(ty) THEN {"small", "max", "over", "huge"} ELSE {"small"}
    [] f = "hashLen"   -> {"small", "max", "over", "huge"}
    \* "emptyList": the protocol version enables NO algorithm / curve / patch action at all (an empty allow-list allows nothing)
    \* "respelled": the right multihash in a non-canonical base64url spelling (unused trailing bits set, line break inside)
    [] f = "hashAlg"   -> {<<"allowed", "">>, <<"emptyList", "">>} \cup {<<"notAllowed", h>> : h \in HashFields(ty)} \cup {<<"malformed", h>> : h \in HashFields(ty)}
                          \cup {<<"respelled", h>> : h \in HashFields(ty)}
    [] f = "alg"       -> IF Signed(ty) THEN {"allowed", "notAllowed", "emptyList", "empty", "missing"} ELSE {"allowed"}
    [] f = "hdrExtra"  -> IF Signed(ty) THEN BOOLEAN ELSE {FALSE}
    [] f = "crv"       -> IF Signed(ty) THEN {"allowed", "notAllowed", "emptyList"} ELSE {"allowed"}
    [] f = "nonce"     -> IF Signed(ty) THEN {"absent", "N", "Nminus", "Nplus", "badB64"} ELSE {"absent"}
    \* a disabled action alone, or before / after / between patches with an enabled action
    [] f = "patch"     -> IF HasDelta(ty) THEN {"enabled", "disabled", "disabledFirst", "disabledLast", "disabledMiddle", "emptyList", "empty"} ELSE {"enabled"}
    [] f = "reveal"    -> IF Signed(ty) THEN {"match", "mismatch"} ELSE {"match"}
    [] f = "next"      -> (CASE ty = "U" -> {"fresh", "selfCommit", "selfCommitOtherAlg", "selfCommitRespelled"}
                             [] ty = "R" -> {"fresh", "selfCommit", "selfCommitOtherAlg", "ucEqRc", "selfCommitRespelled", "ucEqRcRespelled", "recoverUcIsRevealedKey"}
                             [] ty = "C" -> {"fresh", "ucEqRc", "ucEqRcRespelled"}
                             [] ty = "D" -> {"fresh"})
    [] f = "missing"   -> {"none"} \cup MissingFields(ty)
    \* "tooLong": the request's DID suffix is longer than the maximum hash length (for a deactivate: in the signed data too)
    [] f = "dsfx"      -> IF ty = "D" THEN {"match", "mismatch", "tooLong"} ELSE IF ty = "C" THEN {"match"} ELSE {"match", "tooLong"}
    [] f = "cdh"       -> IF ty = "C" THEN {"match", "mismatch"} ELSE {"match"}

Fields == {"opSize", "deltaSize", "hashLen", "hashAlg", "alg", "hdrExtra", "crv", "nonce", "patch", "reveal", "next", "missing", "dsfx", "cdh"}

(* The acceptance predicate: every rule of C10 / C12, every limit inclusive. *)
Accept(r) ==
  /\ r.opSize \in {"small", "max", "huge"}
  /\ r.deltaSize \in {"small", "max", "huge"}
  /\ r.hashLen \in {"small", "max", "huge"}
  /\ r.hashAlg[1] = "allowed"
  /\ r.alg = "allowed" /\ ~r.hdrExtra
  /\ r.crv = "allowed"
  /\ r.nonce \in {"absent", "N"}
  /\ r.patch = "enabled"
  /\ r.reveal = "match"
  /\ r.next = "fresh"
  /\ r.missing = "none"
  /\ r.dsfx = "match"
  /\ r.cdh = "match"

(* combinations the concretiser cannot realise independently are excluded: a dropped member removes the fields    *)
(* inside it, so deviations of those fields would be meaningless                                                   *)
Compatible(r) ==
  /\ r.missing = "delta" => (r.deltaSize = "small" /\ r.patch = "enabled" /\ r.cdh = "match"
                              /\ ~(r.hashAlg[1] # "allowed" /\ r.hashAlg[2] = "updateCommitment")
                              /\ r.next \in {"fresh"} \cup (IF r.ty = "R" THEN {"selfCommit", "selfCommitOtherAlg"} ELSE {}))
  /\ r.missing = "signedData" => (r.alg = "allowed" /\ ~r.hdrExtra /\ r.crv = "allowed" /\ r.nonce = "absent" /\ r.reveal = "match"
                              /\ r.next = "fresh" /\ r.dsfx = "match"
                              /\ ~(r.hashAlg[1] # "allowed" /\ r.hashAlg[2] \in {"signedDeltaHash", "signedRecoveryCommitment"}))
  /\ r.missing = "suffixData" => (r.cdh = "match" /\ r.next = "fresh"
                              /\ ~(r.hashAlg[1] # "allowed" /\ r.hashAlg[2] \in {"recoveryCommitment", "suffixDeltaHash"}))
  /\ r.missing = "revealValue" => (r.reveal = "match" /\ ~(r.hashAlg[1] # "allowed" /\ r.hashAlg[2] = "revealValue"))
  /\ r.alg \in {"missing", "empty"} => ~r.hdrExtra
  /\ r.patch = "empty" => r.deltaSize = "small"
  \* a hash field computed with the other algorithm or malformed changes lengths: keep the length classes apart from it
  /\ r.hashAlg[1] # "allowed" => r.hashLen = "small"
  /\ r.next = "selfCommitOtherAlg" => (r.hashLen = "small" /\ r.hashAlg[1] = "allowed")
  /\ r.next \in {"selfCommitRespelled", "ucEqRcRespelled"} => r.hashLen = "small"
  /\ r.dsfx = "tooLong" => (r.hashLen = "small" /\ r.opSize = "small")
  \* the delta-size and operation-size classes are realised by parameters, they combine with everything

Init == /\ \E ty \in Types : req = Baseline(ty)
        /\ devs = {}

Deviate(f, v) ==
  /\ Cardinality(devs) < MaxDev
  /\ f \notin devs
  /\ v \in Domain(req.ty, f) /\ v # req[f]
  /\ req' = [req EXCEPT ![f] = v]
  /\ Compatible(req')
  /\ devs' = devs \cup {f}

Next == \E f \in Fields : \E v \in Domain(req.ty, f) : Deviate(f, v)

---------------------------------------------------------------------------
(* Properties of the table (tautologies of Accept, kept as executable documentation of C10's wording). *)
BoundaryExact ==
  /\ (devs = {"opSize"}) => (Accept(req) <=> req.opSize \in {"max", "huge"})
  /\ (devs = {"deltaSize"}) => (Accept(req) <=> req.deltaSize \in {"max", "huge"})
  /\ (devs = {"hashLen"}) => (Accept(req) <=> req.hashLen \in {"max", "huge"})
  /\ (devs = {"nonce"}) => (Accept(req) <=> req.nonce = "N")
OneViolationSuffices == (\E f \in devs : ~Accept([Baseline(req.ty) EXCEPT ![f] = req[f]])) => ~Accept(req)
Recommit == req.next # "fresh" => ~Accept(req)

HashAlgJson(h) == [class |-> h[1], field |-> h[2]]
Emit == PrintT("CASE " \o ToJson([req |-> [req EXCEPT !.hashAlg = HashAlgJson(req.hashAlg)], accept |-> Accept(req), ndev |-> Cardinality(devs)]))
=============================================================================
