\* C19 thorough, part metadata
INIT Init
NEXT Next
CONSTANTS
  MaxKeys = 2
  Part = "metadata"
INVARIANT EachKeyOnce
INVARIANT RelationshipsExact
INVARIANT ContextsCover
INVARIANT IdsQualified
INVARIANT Emit
CHECK_DEADLOCK FALSE
