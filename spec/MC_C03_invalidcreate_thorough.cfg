\* C03 thorough: the base create takes effect through a partial-failure branch (AlphaInvalidCreate), <= 5 operations, published and unpublished
INIT Init
NEXT Next
CONSTANTS
  AlphaSeq <- AlphaInvalidCreate
  Coords <- CoordsThorough
  MaxOps = 5
  AllowUnpub = TRUE
  Monotone = FALSE
  AttackerKeys = {8, 9}
INVARIANT TypeOK
INVARIANT ImplMatchesRef
INVARIANT ConsumeOnce
INVARIANT NoRevisit
INVARIANT LogBounded
INVARIANT EmitCase
CHECK_DEADLOCK FALSE
