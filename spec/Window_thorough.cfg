\* C05 thorough: 3 types x from 0..6 x until 0..9 x t 0..12 x delta {2,5,7} x 4 decoy settings
INIT Init
NEXT Next
CONSTANTS
  Types = {"U", "R", "D"}
  Froms <- FromsThorough
  Untils = {0, 1, 2, 3, 4, 5, 6, 7, 8, 9}
  Times = {0, 1, 2, 3, 4, 5, 6, 7, 8, 9, 10, 11, 12, 2000000}
  Deltas = {2, 5, 7, 1000000}
  Decoys = {0, 1, 2, 3}
INVARIANT WindowEffect
INVARIANT OnlyDelta
INVARIANT Emit
CHECK_DEADLOCK FALSE
