------------------------------ MODULE MC_C04 ------------------------------
(* C04: deactivation is terminal; a recover supersedes everything before. *)
(* The alphabet contains operations signed with keys that are still known *)
(* after the deactivate / recover (old update keys, old recovery keys),   *)
(* recovers that re-commit to an update key revealed before the recover,  *)
(* and unpublished operations.  Monotone = TRUE: every step anchors AFTER *)
(* everything already anchored, which makes the action properties speak   *)
(* about "whatever further operations are anchored".                      *)
EXTENDS Resolution

AlphaQuick == <<
  C(1, 4, "ok", 10),
  U(4, 5, "ok", "ok", "none", 11),
  U(5, 6, "ok", "ok", "none", 12),
  R(1, 2, 4, "ok", "ok", "none", 30),
  R(1, 2, 5, "ok", "ok", "none", 31),
  R(2, 3, 6, "ok", "ok", "none", 32),
  D(1, "ok", "ok", "none"),
  D(2, "ok", "ok", "none"),
  U(4, 6, "ok", "ok", "none", 13)
>>
AlphaThorough == AlphaQuick \o <<
  U(6, 7, "ok", "ok", "none", 14),
  R(1, 3, 4, "ok", "fail", "none", 33),
  R(2, 1, 4, "ok", "ok", "none", 34),
  D(3, "ok", "ok", "none")
>>

CoordsQuick    == {<<1, 0>>, <<2, 1>>, <<2, 2>>, <<3, 0>>}
CoordsThorough == {<<1, 0>>, <<1, 1>>, <<2, 1>>, <<2, 2>>, <<3, 0>>}

(* non-trivial: the result is deactivated or a recover was applied, and   *)
(* the store holds an operation ordered after that deactivate/recover     *)
AfterFull ==
  LET st == ResolveRef(store)
      fs == SelectSeq(st.log, LAMBDA e : e.ty \in {"R", "D"})
  IN fs # <<>> /\ LET f == fs[Len(fs)] IN
       \E o \in store : ~o.pub \/ f.t < o.t \/ (f.t = o.t /\ f.n < o.n)

EmitC04 == PrintT("CASE " \o ToJson([ops |-> OpsJson, res |-> res, ao |-> AoNow, na |-> IF AfterFull THEN 1 ELSE 0, log |-> LogJson]))
=============================================================================
