--------------------------------- MODULE Jcs ---------------------------------
(***************************************************************************)
(* C07: RFC 8785 canonical JSON, as far as it is a rule and not arithmetic. *)
(*  keys     member ORDER: names are compared as sequences of UTF-16 code   *)
(*           units (not code points: U+1F600 = D83D DE00 sorts BEFORE       *)
(*           U+FB33).  TLC sorts every subset of 2..MaxKeys names of a      *)
(*           tricky alphabet.                                               *)
(*  number   the ECMAScript Number::toString LAYOUT of a value given as     *)
(*           shortest digit string + decimal exponent (fixed notation for   *)
(*           1e-6 <= x < 1e21, exponent notation otherwise, "e+"/"e-",      *)
(*           no trailing zeros, no leading "+").  Digit generation (which   *)
(*           digits are the shortest round-trip digits of a double) is      *)
(*           arithmetic and is NOT modelled; it is covered by the RFC 8785  *)
(*           Appendix B vectors in the harness.                             *)
(*  malformed the rejection classes the property names.                     *)
(***************************************************************************)
EXTENDS Integers, Sequences, FiniteSets, SequencesExt, FiniteSetsExt, TLC, Json

CONSTANTS MaxKeys, MaxDigits

VARIABLES cs, out

(* alphabet of member names: id -> UTF-16 code units *)
Units == <<
  <<>>,              \* 1  ""
  <<97>>,            \* 2  a
  <<97, 97>>,        \* 3  aa
  <<98>>,            \* 4  b
  <<34>>,            \* 5  "
  <<92>>,            \* 6  \
  <<47>>,            \* 7  /
  <<0>>,             \* 8  U+0000
  <<31>>,            \* 9  U+001F
  <<127>>,           \* 10 U+007F
  <<128>>,           \* 11 U+0080
  <<246>>,           \* 12 o-umlaut
  <<8364>>,          \* 13 euro sign
  <<64307>>,         \* 14 U+FB33
  <<55357, 56832>>,  \* 15 U+1F600 (surrogate pair)
  <<65>>,            \* 16 A
  <<49>>,            \* 17 1
  <<10>>,            \* 18 line feed
  <<97, 0>>,         \* 19 a U+0000
  <<65533>>,         \* 20 U+FFFD (an ordinary character, although decoders use it as an error marker)
  <<65535>>,         \* 21 U+FFFF
  <<55295>>,         \* 22 U+D7FF (last code unit below the surrogates)
  <<57344>>          \* 23 U+E000 (first code unit above the surrogates)
>>
Names == DOMAIN Units

RECURSIVE LexLess(_, _)
LexLess(a, b) ==
  IF b = <<>> THEN FALSE
  ELSE IF a = <<>> THEN TRUE
  ELSE IF Head(a) # Head(b) THEN Head(a) < Head(b)
  ELSE LexLess(Tail(a), Tail(b))

SortNames(S) == SortSeq(SetToSeq(S), LAMBDA x, y : LexLess(Units[x], Units[y]))

KeySets == {S \in SUBSET Names : Cardinality(S) \in 2..MaxKeys}

(* ECMAScript Number::toString for the value 0.d1..dk x 10^n *)
RECURSIVE Str(_)
Str(ds) == IF ds = <<>> THEN "" ELSE ToString(Head(ds)) \o Str(Tail(ds))
RECURSIVE Zeros(_)
Zeros(m) == IF m <= 0 THEN "" ELSE "0" \o Zeros(m - 1)
AbsI(x) == IF x < 0 THEN -x ELSE x

Layout(ds, n) ==
  LET k == Len(ds) IN
  IF k <= n /\ n <= 21 THEN Str(ds) \o Zeros(n - k)
  ELSE IF 0 < n /\ n <= 21 THEN Str(SubSeq(ds, 1, n)) \o "." \o Str(SubSeq(ds, n + 1, k))
  ELSE IF -6 < n /\ n <= 0 THEN "0." \o Zeros(-n) \o Str(ds)
  ELSE LET e == n - 1
           sgn == IF e < 0 THEN "-" ELSE "+"
       IN IF k = 1 THEN Str(ds) \o "e" \o sgn \o ToString(AbsI(e))
          ELSE Str(SubSeq(ds, 1, 1)) \o "." \o Str(SubSeq(ds, 2, k)) \o "e" \o sgn \o ToString(AbsI(e))

(* digit strings without leading or trailing zero *)
Digs == {<<a>> : a \in 1..9}
        \cup (IF MaxDigits >= 2 THEN {<<a, b>> : a \in 1..9, b \in 1..9} ELSE {})
        \cup (IF MaxDigits >= 3 THEN {<<a, b, d>> : a \in 1..9, b \in 0..9, d \in 1..9} ELSE {})
Exps == (-9..24) \cup {-300, 100, 308}
(* input spellings of the same value *)
Lits(ds, n) == {Str(ds) \o "e" \o ToString(n - Len(ds)),
                Str(ds) \o "E+" \o ToString(n - Len(ds) + 400) \o "e-400"} \* second form is replaced by the harness (see there)
NumCases == [ds : Digs, n : Exps, neg : BOOLEAN]

Malformed == {"duplicateMember", "duplicateMemberViaEscape", "unterminatedString", "unterminatedObject", "unterminatedArray", "invalidEscape", "shortUnicodeEscape",
              "loneHighSurrogate", "loneLowSurrogate", "reversedSurrogates", "highHighSurrogates", "highThenNonSurrogateEscape",
              "rawControlCharacter", "rawNewline", "controlCharacterBetweenTokens", "trailingContent", "trailingComma", "leadingComma", "missingColon", "bareWord", "emptyInput",
              \* a token in number position that is no JSON number (hexadecimal float, digit separators, leading + / zeros, bare point)
              "malformedNumber"}

Init == \/ \E S \in KeySets : cs = [kind |-> "keys", set |-> S] /\ out = [order |-> SortNames(S)]
        \/ \E c \in NumCases : cs = [kind |-> "number", ds |-> c.ds, n |-> c.n, neg |-> c.neg,
                                     lit |-> (IF c.neg THEN "-" ELSE "") \o Str(c.ds) \o "e" \o ToString(c.n - Len(c.ds))]
                               /\ out = [text |-> (IF c.neg THEN "-" ELSE "") \o Layout(c.ds, c.n)]
        \/ \E m \in Malformed : cs = [kind |-> "malformed", class |-> m] /\ out = [text |-> "error"]
Next == UNCHANGED <<cs, out>>

(* the order is total and is NOT code-point order for astral vs. high BMP characters *)
OrderIsTotal == cs.kind = "keys" => Len(out.order) = Cardinality(cs.set)
Utf16NotCodePoint == (cs.kind = "keys" /\ {14, 15} \subseteq cs.set) =>
                       \E i, j \in DOMAIN out.order : i < j /\ out.order[i] = 15 /\ out.order[j] = 14
(* layout: exponent notation exactly outside [1e-6, 1e21) *)
HasE(s) == \E i \in 1..Len(s) : SubSeq(s, i, i) = "e"
FixedRange == cs.kind = "number" => (HasE(out.text) <=> ~(-6 < cs.n /\ cs.n <= 21))

Emit == PrintT("CASE " \o ToJson([c |-> cs, out |-> out]))
=============================================================================
