------------------------------ MODULE MC_Patch ------------------------------
EXTENDS Patch
K(id, v) == [id |-> id, v |-> v]
P(a, e, e2, ids, uris) == [a |-> a, entries |-> e, entries2 |-> e2, ids |-> ids, uris |-> uris]
AlphaQuick == <<
  P("addKeys", <<K("a", 1)>>, <<>>, {}, <<>>),
  P("addKeys", <<K("b", 1), K("a", 2)>>, <<>>, {}, <<>>),
  P("removeKeys", <<>>, <<>>, {"a", "z"}, <<>>),
  P("removeKeys", <<>>, <<>>, {"a", "b"}, <<>>),
  P("addSvcs", <<K("s", 1)>>, <<>>, {}, <<>>),
  P("addSvcs", <<K("t", 1), K("s", 2)>>, <<>>, {}, <<>>),
  P("removeSvcs", <<>>, <<>>, {"q", "s"}, <<>>),
  P("removeSvcs", <<>>, <<>>, {"s", "t"}, <<>>),
  P("addAkas", <<>>, <<>>, {}, <<"u1", "u2">>),
  P("addAkas", <<>>, <<>>, {}, <<"u2", "u3">>),
  P("removeAkas", <<>>, <<>>, {"u1", "u9"}, <<>>),
  P("replace", <<K("c", 1)>>, <<K("r", 1)>>, {}, <<>>),
  P("jsonAdd", <<>>, <<>>, {"m1"}, <<>>),
  P("jsonFail", <<>>, <<>>, {}, <<>>),
  \* an id / URI repeated WITHIN one add patch (validation rejects such a patch; the composer must still keep set semantics)
  P("addKeys", <<K("d", 1), K("e", 1), K("d", 2)>>, <<>>, {}, <<>>),
  P("addSvcs", <<K("w", 1), K("w", 2)>>, <<>>, {}, <<>>),
  P("addAkas", <<>>, <<>>, {}, <<"u4", "u1", "u4">>)
>>
AlphaThorough == AlphaQuick \o <<
  P("addKeys", <<K("c", 2), K("b", 2)>>, <<>>, {}, <<>>),
  P("removeKeys", <<>>, <<>>, {"b"}, <<>>),
  P("removeSvcs", <<>>, <<>>, {"t", "q"}, <<>>),
  P("replace", <<K("a", 2), K("b", 1)>>, <<>>, {}, <<>>),
  P("jsonAdd", <<>>, <<>>, {"m2"}, <<>>)
>>
=============================================================================
