\* behaviour generation with expiring updates and the Clock action (fault-free, one version)
INIT Init
NEXT NextGen
CONSTANTS
  Dids <- D2
  MaxSubmits = 6
  MaxLedger = 5
  MaxFaults = 0
  UnpubOn = FALSE
  TwoVersions = FALSE
  Expiry = TRUE
  KeepExpiredUnpublished = FALSE
  MaxSteps = 16
INVARIANT Emit
CHECK_DEADLOCK FALSE
