------------------------------- MODULE MC_BW -------------------------------
EXTENDS BatchWriter
\* submissions: suffixes 1/2, protocol versions 0/5 (0 = the mocks' default genesis time), one expired
Script3 == << [sfx |-> 1, ver |-> 0, exp |-> FALSE], [sfx |-> 1, ver |-> 5, exp |-> FALSE], [sfx |-> 2, ver |-> 5, exp |-> FALSE] >>
Script4 == << [sfx |-> 1, ver |-> 0, exp |-> FALSE], [sfx |-> 1, ver |-> 0, exp |-> FALSE], [sfx |-> 2, ver |-> 5, exp |-> TRUE], [sfx |-> 2, ver |-> 5, exp |-> FALSE] >>
Script5 == << [sfx |-> 1, ver |-> 0, exp |-> FALSE], [sfx |-> 1, ver |-> 0, exp |-> FALSE], [sfx |-> 1, ver |-> 0, exp |-> TRUE],
              [sfx |-> 2, ver |-> 5, exp |-> FALSE], [sfx |-> 2, ver |-> 5, exp |-> FALSE] >>
ScriptA == << [sfx |-> 1, ver |-> 0, exp |-> FALSE], [sfx |-> 1, ver |-> 0, exp |-> FALSE], [sfx |-> 2, ver |-> 0, exp |-> FALSE] >>
ScriptB == << [sfx |-> 1, ver |-> 5, exp |-> FALSE], [sfx |-> 2, ver |-> 0, exp |-> TRUE], [sfx |-> 2, ver |-> 0, exp |-> FALSE] >>
=============================================================================
