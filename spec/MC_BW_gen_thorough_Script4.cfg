\* schedule generation, thorough
INIT Init
NEXT NextGen
CONSTANTS
  AddScript <- Script4
  MaxCount = 2
  MaxFaults = 1
  MaxTicks = 2
  MaxCasK = 2
  BuggyCutter = FALSE
INVARIANT Conservation
INVARIANT BatchBounds
INVARIANT EmitSchedule
CHECK_DEADLOCK FALSE
