\* C12 quick: cyclic-commitment alphabet, <= 4 operations
INIT Init
NEXT Next
CONSTANTS
  AlphaSeq <- AlphaQuick
  Coords <- CoordsQuick
  MaxOps = 4
  AllowUnpub = FALSE
  Monotone = FALSE
  AttackerKeys = {8, 9}
INVARIANT TypeOK
INVARIANT ImplMatchesRef
INVARIANT ConsumeOnce
INVARIANT NoRevisit
INVARIANT LogBounded
INVARIANT EmitC12
CHECK_DEADLOCK FALSE
