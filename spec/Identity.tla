------------------------------ MODULE Identity ------------------------------
(***************************************************************************)
(* C08: identifiers and hashes depend only on the JSON VALUE of the hashed *)
(* model and bind their content.  Hashing is symbolic: H(alg, v) is the    *)
(* pair <<alg, v>>; a model value v has several SPELLINGS (serialisations) *)
(* whose canonical form is v itself; an ALTERATION yields another value.   *)
(*                                                                         *)
(* Four case families, each with the expected outcome:                     *)
(*  hash      same multihash for every spelling, another for every         *)
(*            alteration                                                   *)
(*  validate  a model is accepted against a multihash exactly when the     *)
(*            multihash is H(alg it names, value)                          *)
(*  commit    commitment(key) = hash of the decoded reveal value of key    *)
(*  opreveal  the reveal value of an update / recover / deactivate request *)
(*            is the hash of the key in its signed data - at intake AND    *)
(*            when an anchored request is parsed (batch mode): the reveal  *)
(*            value is what resolution derives the consumed commitment     *)
(*            from, the key is what the signature is verified with         *)
(*  longform  an unanchored long-form DID resolves iff its initial state   *)
(*            is canonically encoded, the suffix is the hash of the suffix *)
(*            data and the delta matches the delta hash                    *)
(***************************************************************************)
EXTENDS Integers, Sequences, FiniteSets, TLC, Json

VARIABLES cs, out

Algs == {18, 19}
Spellings == {"canonical", "reordered", "whitespace", "escapes", "numberSpelling"}
Alterations == {"none", "memberValueChanged", "memberAdded", "memberRemoved", "byteChanged"}

H(alg, v) == <<alg, v>>
ValueOf(base, alt) == <<base, alt>>     \* an alteration ("none" excepted) is a different value

HashCases == [kind : {"hash"}, alg : Algs, spelling : Spellings, alteration : Alterations]
HashExpected(c) == IF H(c.alg, ValueOf("m", c.alteration)) = H(c.alg, ValueOf("m", "none")) THEN "same" ELSE "different"

(* how the presented multihash was made *)
MhForms == {"ownAlgOwnValue", "otherAlgOwnValue", "ownAlgOtherValue", "digestRelabelled", "digestTruncated", "garbage", "empty"}
ValidateCases == [kind : {"validate"}, alg : Algs, spelling : Spellings, mh : MhForms]
ValidateExpected(c) == IF c.mh \in {"ownAlgOwnValue", "otherAlgOwnValue"} THEN "accept" ELSE "reject"

CommitCases == [kind : {"commit"}, alg : Algs, kt : 0..4, nonce : BOOLEAN]
CommitExpected(c) == "equal"

\* the reveal value presented with the request: the hash of the signing key in the signed data, the hash of ANOTHER key
\* (with the request otherwise consistent: signed by the key it carries), the same digest relabelled as the other algorithm
RevealForms == {"ownKey", "otherKey", "relabelled"}
RevealCases == [kind : {"opreveal"}, alg : Algs, ty : {"U", "R", "D"}, mode : {"intake", "batch"}, rv : RevealForms, kt : 0..4]
RevealExpected(c) == IF c.rv = "ownKey" THEN "accepted" ELSE "rejected"

Segments == {"canonical", "reordered", "whitespace", "suffixDataAltered", "deltaAltered", "memberAdded", "typeMemberIncluded", "foreignTypeMember", "badBase64", "paddedBase64",
             "trailingBits", "byteChanged", "empty", "notJson"}
\* the DID's suffix: the hash of the embedded suffix data, another hash, or a near miss of the right one (leading
\* characters dropped, trailing characters dropped, characters added)
LongCases == [kind : {"longform"}, alg : Algs, segment : Segments, suffix : {"match", "other", "tail", "head", "extended"}]
\* an initial state that additionally carries "type":"create" is an altered initial state, too (the code tolerates it: an
\* existing test of the repository relies on that - recorded as a known finding, not repaired)
LongExpected(c) == IF c.segment = "canonical" /\ c.suffix = "match" THEN "resolves" ELSE "rejected"

Expected(c) == CASE c.kind = "hash" -> HashExpected(c) [] c.kind = "validate" -> ValidateExpected(c)
                 [] c.kind = "commit" -> CommitExpected(c) [] c.kind = "longform" -> LongExpected(c)
                 [] c.kind = "opreveal" -> RevealExpected(c)

Init == cs \in HashCases \cup ValidateCases \cup CommitCases \cup LongCases \cup RevealCases /\ out = Expected(cs)
Next == UNCHANGED <<cs, out>>

(* the property on the table *)
ValueOnly == cs.kind = "hash" => (out = "same" <=> cs.alteration = "none")
BindsContent == cs.kind = "longform" => (out = "resolves" => cs.segment = "canonical" /\ cs.suffix = "match")
RevealBindsKey == cs.kind = "opreveal" => (out = "accepted" <=> cs.rv = "ownKey")
Emit == PrintT("CASE " \o ToJson([c |-> cs, out |-> out]))
=============================================================================
