\* C03 quick: the base create takes effect through a partial-failure branch (AlphaInvalidCreate), <= 4 operations, published only
INIT Init
NEXT Next
CONSTANTS
  AlphaSeq <- AlphaInvalidCreate
  Coords <- CoordsQuick
  MaxOps = 4
  AllowUnpub = FALSE
  Monotone = FALSE
  AttackerKeys = {8, 9}
INVARIANT TypeOK
INVARIANT ImplMatchesRef
INVARIANT ConsumeOnce
INVARIANT NoRevisit
INVARIANT LogBounded
INVARIANT EmitCase
CHECK_DEADLOCK FALSE
