\* C17 thorough: 17 patches, lists of <= 2, documents reachable within 3 calls
INIT Init
NEXT Next
CONSTANTS
  PatchAlphabet <- AlphaThorough
  MaxList = 2
  MaxCalls = 3
INVARIANT OrderedSets
INVARIANT Atomic
INVARIANT InPlace
INVARIANT RoundTrip
INVARIANT Emit
CHECK_DEADLOCK FALSE
