----------------------------- MODULE Resolution -----------------------------
(***************************************************************************)
(* The operation store of ONE DID as a state machine, and resolution as a  *)
(* function of it.  Actions model what the environment can do: anchor an   *)
(* operation at a free coordinate (published), or leave one in the         *)
(* unpublished-operation store.  `res' is the specification's resolution   *)
(* result for the current store, recomputed in every step, so that action  *)
(* properties can speak about how the result evolves.                      *)
(*                                                                         *)
(* One module, several configurations (MC_Cxx.tla / *.cfg): each property  *)
(* picks its alphabet, coordinates, bound and invariants.                  *)
(***************************************************************************)
EXTENDS SidetreeCore, TLC, Json

CONSTANTS AlphaSeq,       \* sequence of operation shapes (the alphabet; index = shape id)
          Coords,         \* set of <<t, n>> anchoring coordinates
          MaxOps,         \* bound on the store size
          AllowUnpub,     \* BOOLEAN: may operations be unpublished?
          Monotone,       \* BOOLEAN: only anchor after everything already anchored (C04/C06 action properties)
          AttackerKeys    \* keys never committed to by the owner

VARIABLES store, res

vars == <<store, res>>

Alphabet == {AlphaSeq[i] : i \in DOMAIN AlphaSeq}
Sid(sh)  == CHOOSE i \in DOMAIN AlphaSeq : AlphaSeq[i] = sh

\* shape constructors (uniform fields)
C(nrc, nuc, dl, p) ==
  [ty |-> "C", rk |-> 0, sig |-> "ok", nuc |-> nuc, nrc |-> nrc, dl |-> dl, win |-> "none", p |-> p, sfx |-> "ok"]
U(rk, nuc, sig, dl, win, p) ==
  [ty |-> "U", rk |-> rk, sig |-> sig, nuc |-> nuc, nrc |-> 0, dl |-> dl, win |-> win, p |-> p, sfx |-> "ok"]
R(rk, nrc, nuc, sig, dl, win, p) ==
  [ty |-> "R", rk |-> rk, sig |-> sig, nuc |-> nuc, nrc |-> nrc, dl |-> dl, win |-> win, p |-> p, sfx |-> "ok"]
D(rk, sig, sfx, win) ==
  [ty |-> "D", rk |-> rk, sig |-> sig, nuc |-> 0, nrc |-> 0, dl |-> "ok", win |-> win, p |-> 0, sfx |-> sfx]

UsedCoords == {<<o.t, o.n>> : o \in store}
MaxCoord(S) == IF S = {} THEN <<0, 0>>
               ELSE LET m == CHOOSE o \in S : \A q \in S : q = o \/ Before(q, o) IN <<m.t, m.n>>
CoordAfter(c, S) == LET m == MaxCoord(S) IN m[1] < c[1] \/ (m[1] = c[1] /\ m[2] < c[2])

Init == store = {} /\ res = View(NoState)

Put(sh, c, pub) ==
  /\ Cardinality(store) < MaxOps
  /\ c \notin UsedCoords
  /\ Monotone => CoordAfter(c, {o \in store : o.pub})
  /\ store' = store \cup {[sh |-> sh, t |-> c[1], n |-> c[2], pub |-> pub]}
  /\ res' = View(ResolveRef(store'))

Anchor(sh, c)      == Put(sh, c, TRUE)
LeaveUnpub(sh, c)  == AllowUnpub /\ Put(sh, c, FALSE)

Next == \E sh \in Alphabet, c \in Coords : Anchor(sh, c) \/ LeaveUnpub(sh, c)

Spec == Init /\ [][Next]_vars

---------------------------------------------------------------------------
TypeOK == /\ \A o \in store : o.sh \in Alphabet /\ <<o.t, o.n>> \in Coords /\ o.pub \in BOOLEAN
          /\ res = View(ResolveRef(store))

(* C02 design check: the algorithm equals the declarative definition for   *)
(* EVERY order in which the store may return the operations.               *)
ImplMatchesRefAllOrders == \A ret \in SetToSeqs(store) : View(ResolveImpl(ret)) = res
(* cheap variant: one arbitrary order *)
ImplMatchesRef == View(ResolveImpl(SetToSeq(store))) = res

(* C01 *)
NoForgeryEffect == res = View(ResolveRef(Legit(store, AttackerKeys)))

(* C03 / C12 *)
ConsumeOnce == SingleConsume(ResolveRef(store))
NoRevisit   == LET st == ResolveRef(store)
               IN \A i \in DOMAIN st.log : (st.log[i].chain # "create" /\ st.log[i].nc # NoC) =>
                     \A j \in 1..i : st.log[j].chain = st.log[i].chain => st.log[i].nc # st.log[j].c
LogBounded  == Len(ResolveRef(store).log) <= Cardinality(store)

(* C02: every applied operation is the earliest usable candidate - this is *)
(* ChainRef's definition; what is checked is that published precede        *)
(* unpublished winners for the same commitment and the create is minimal.  *)
CreateIsEarliest ==
  LET st == ResolveRef(store) IN
  st.exists => \A o \in store : o.sh.ty = "C" =>
      LET e == st.log[1] IN (e.t = o.t /\ e.n = o.n) \/ Earlier([t |-> e.t, n |-> e.n, pub |-> e.pub], o)

(* C04 (action properties; meaningful with Monotone = TRUE) *)
(* "Applied" means anchored: a deactivate that is only in the unpublished   *)
(* store is provisional - published operations take precedence over it     *)
(* (C02) - so terminality is claimed for PUBLISHED deactivates.  (TLC      *)
(* found the counterexample: unpublished D, then a published R for the     *)
(* same commitment.)                                                       *)
(* (second counterexample, thorough alphabet: unpublished C and R(1->2), published D by key 2, then a published      *)
(* R(1->3): the published deactivate rested on an unpublished recover.)  So: every applied operation is anchored.    *)
DeactByPublished(S) == LET st == ResolveRef(S) IN st.deact /\ \A i \in DOMAIN st.log : st.log[i].pub
DeactivationTerminal ==
  [][DeactByPublished(store) => (res'.deact /\ res'.doc = <<>> /\ res'.uc = NoC /\ res'.rc = NoC)]_vars

RecoverSupersedes ==
  LET st  == ResolveRef(store)
      rcs == SelectSeq(st.log, LAMBDA e : e.ty = "R")
  IN rcs # <<>> =>
       LET r == rcs[Len(rcs)] IN
       \A i \in DOMAIN st.log : st.log[i].chain = "uc" =>
           (~st.log[i].pub \/ r.t < st.log[i].t \/ (r.t = st.log[i].t /\ r.n < st.log[i].n))

(* C06 *)
Times    == {c[1] : c \in Coords} \cup {0, 1 + CHOOSE m \in {c[1] : c \in Coords} : \A x \in {c[1] : c \in Coords} : x <= m}
HistoricalIsTruncation ==
  LET ret == SetToSeq(store) IN
  /\ \A T \in Times  : View(ResolveImplAtT(ret, T)) = View(ResolveRef(TruncT(store, T)))
  /\ \A V \in Coords : KnownV(store, V) => View(ResolveImplAtV(ret, V)) = View(ResolveRef(TruncV(store, V)))

(* anchoring later never changes an earlier version *)
PastIsImmutable ==
  [][\A T \in Times : (\A o \in store' \ store : T < o.t) => View(ResolveRef(TruncT(store', T))) = View(ResolveRef(TruncT(store, T)))]_vars

---------------------------------------------------------------------------
(* Emission for the conformance step: one line per distinct state.         *)
OpsJson == {[s |-> Sid(o.sh), t |-> o.t, n |-> o.n, pub |-> o.pub] : o \in store}
LegitJson == {[s |-> Sid(o.sh), t |-> o.t, n |-> o.n, pub |-> o.pub] : o \in Legit(store, AttackerKeys)}
LogJson  == LET st == ResolveRef(store) IN [i \in DOMAIN st.log |-> st.log[i]]

NApplied  == Len(ResolveRef(store).log)
AoNow     == AnchorOriginOf(ResolveRef(store))
EmitCase  == PrintT("CASE " \o ToJson([ops |-> OpsJson, res |-> res, ao |-> AoNow, na |-> NApplied]))
EmitLegit == PrintT("CASE " \o ToJson([ops |-> OpsJson, res |-> res, ao |-> AoNow, na |-> NApplied, legit |-> LegitJson]))
EmitLog   == PrintT("CASE " \o ToJson([ops |-> OpsJson, res |-> res, ao |-> AoNow, na |-> NApplied, log |-> LogJson]))

ASSUME PrintT("ALPHA " \o ToJson(AlphaSeq))
=============================================================================
