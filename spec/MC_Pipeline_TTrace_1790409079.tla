---- MODULE MC_Pipeline_TTrace_1790409079 ----
EXTENDS Sequences, TLCExt, Toolbox, Naturals, TLC, MC_Pipeline

_expression ==
    LET MC_Pipeline_TEExpression == INSTANCE MC_Pipeline_TEExpression
    IN MC_Pipeline_TEExpression!expression
----

_trace ==
    LET MC_Pipeline_TETrace == INSTANCE MC_Pipeline_TETrace
    IN MC_Pipeline_TETrace!trace
----

_inv ==
    ~(
        TLCGet("level") = Len(_TETrace)
        /\
        ledger = (<<[ver |-> 0, kind |-> "ok", ops |-> <<[d |-> 1, sh |-> [rk |-> 0, p |-> 100, ty |-> "C", sig |-> "ok", nuc |-> 4, nrc |-> 1, dl |-> "ok", win |-> "none", sfx |-> "ok"], id |-> 2, ver |-> 0, exp |-> FALSE]>>]>>)
        /\
        unpub = ({[d |-> 1, sh |-> [rk |-> 4, p |-> 101, ty |-> "U", sig |-> "ok", nuc |-> 5, nrc |-> 0, dl |-> "ok", win |-> "none", sfx |-> "ok"], id |-> 3, ver |-> 0, exp |-> TRUE]})
        /\
        nsub = (3)
        /\
        last = ([a |-> "Observe", stored |-> {2}])
        /\
        store = ({[d |-> 1, sh |-> [rk |-> 0, p |-> 100, ty |-> "C", sig |-> "ok", nuc |-> 4, nrc |-> 1, dl |-> "ok", win |-> "none", sfx |-> "ok"], t |-> 1, n |-> 1, pub |-> TRUE, id |-> 2, ver |-> 0, ref |-> 1]})
        /\
        faults = (0)
        /\
        observed = (1)
        /\
        hist = (<<[d |-> 1, a |-> "Submit", k |-> "B"], [d |-> 1, a |-> "Submit", k |-> "C"], [d |-> 1, a |-> "Submit", k |-> "E"], [a |-> "Clock"], [a |-> "Flush"], [a |-> "Observe", f |-> "none"]>>)
        /\
        late = (TRUE)
        /\
        curver = (0)
        /\
        expiredEver = (TRUE)
        /\
        deferredEver = (FALSE)
        /\
        client = (<<[created |-> TRUE, uk |-> 5, rk |-> 1, seq |-> 1, dead |-> FALSE]>>)
        /\
        queue = (<<>>)
    )
----

_init ==
    /\ deferredEver = _TETrace[1].deferredEver
    /\ last = _TETrace[1].last
    /\ late = _TETrace[1].late
    /\ store = _TETrace[1].store
    /\ observed = _TETrace[1].observed
    /\ ledger = _TETrace[1].ledger
    /\ faults = _TETrace[1].faults
    /\ nsub = _TETrace[1].nsub
    /\ queue = _TETrace[1].queue
    /\ client = _TETrace[1].client
    /\ unpub = _TETrace[1].unpub
    /\ curver = _TETrace[1].curver
    /\ expiredEver = _TETrace[1].expiredEver
    /\ hist = _TETrace[1].hist
----

_next ==
    /\ \E i,j \in DOMAIN _TETrace:
        /\ \/ /\ j = i + 1
              /\ i = TLCGet("level")
        /\ deferredEver  = _TETrace[i].deferredEver
        /\ deferredEver' = _TETrace[j].deferredEver
        /\ last  = _TETrace[i].last
        /\ last' = _TETrace[j].last
        /\ late  = _TETrace[i].late
        /\ late' = _TETrace[j].late
        /\ store  = _TETrace[i].store
        /\ store' = _TETrace[j].store
        /\ observed  = _TETrace[i].observed
        /\ observed' = _TETrace[j].observed
        /\ ledger  = _TETrace[i].ledger
        /\ ledger' = _TETrace[j].ledger
        /\ faults  = _TETrace[i].faults
        /\ faults' = _TETrace[j].faults
        /\ nsub  = _TETrace[i].nsub
        /\ nsub' = _TETrace[j].nsub
        /\ queue  = _TETrace[i].queue
        /\ queue' = _TETrace[j].queue
        /\ client  = _TETrace[i].client
        /\ client' = _TETrace[j].client
        /\ unpub  = _TETrace[i].unpub
        /\ unpub' = _TETrace[j].unpub
        /\ curver  = _TETrace[i].curver
        /\ curver' = _TETrace[j].curver
        /\ expiredEver  = _TETrace[i].expiredEver
        /\ expiredEver' = _TETrace[j].expiredEver
        /\ hist  = _TETrace[i].hist
        /\ hist' = _TETrace[j].hist

\* Uncomment the ASSUME below to write the states of the error trace
\* to the given file in Json format. Note that you can pass any tuple
\* to `JsonSerialize`. For example, a sub-sequence of _TETrace.
    \* ASSUME
    \*     LET J == INSTANCE Json
    \*         IN J!JsonSerialize("MC_Pipeline_TTrace_1790409079.json", _TETrace)

=============================================================================

 Note that you can extract this module `MC_Pipeline_TEExpression`
  to a dedicated file to reuse `expression` (the module in the 
  dedicated `MC_Pipeline_TEExpression.tla` file takes precedence 
  over the module `MC_Pipeline_TEExpression` below).

---- MODULE MC_Pipeline_TEExpression ----
EXTENDS Sequences, TLCExt, Toolbox, Naturals, TLC, MC_Pipeline

expression == 
    [
        \* To hide variables of the `MC_Pipeline` spec from the error trace,
        \* remove the variables below.  The trace will be written in the order
        \* of the fields of this record.
        deferredEver |-> deferredEver
        ,last |-> last
        ,late |-> late
        ,store |-> store
        ,observed |-> observed
        ,ledger |-> ledger
        ,faults |-> faults
        ,nsub |-> nsub
        ,queue |-> queue
        ,client |-> client
        ,unpub |-> unpub
        ,curver |-> curver
        ,expiredEver |-> expiredEver
        ,hist |-> hist
        
        \* Put additional constant-, state-, and action-level expressions here:
        \* ,_stateNumber |-> _TEPosition
        \* ,_deferredEverUnchanged |-> deferredEver = deferredEver'
        
        \* Format the `deferredEver` variable as Json value.
        \* ,_deferredEverJson |->
        \*     LET J == INSTANCE Json
        \*     IN J!ToJson(deferredEver)
        
        \* Lastly, you may build expressions over arbitrary sets of states by
        \* leveraging the _TETrace operator.  For example, this is how to
        \* count the number of times a spec variable changed up to the current
        \* state in the trace.
        \* ,_deferredEverModCount |->
        \*     LET F[s \in DOMAIN _TETrace] ==
        \*         IF s = 1 THEN 0
        \*         ELSE IF _TETrace[s].deferredEver # _TETrace[s-1].deferredEver
        \*             THEN 1 + F[s-1] ELSE F[s-1]
        \*     IN F[_TEPosition - 1]
    ]

=============================================================================



Parsing and semantic processing can take forever if the trace below is long.
 In this case, it is advised to uncomment the module below to deserialize the
 trace from a generated binary file.

\*
\*---- MODULE MC_Pipeline_TETrace ----
\*EXTENDS IOUtils, TLC, MC_Pipeline
\*
\*trace == IODeserialize("MC_Pipeline_TTrace_1790409079.bin", TRUE)
\*
\*=============================================================================
\*

---- MODULE MC_Pipeline_TETrace ----
EXTENDS TLC, MC_Pipeline

trace == 
    <<
    ([ledger |-> <<>>,unpub |-> {},nsub |-> 0,last |-> [a |-> "init"],store |-> {},faults |-> 0,observed |-> 0,hist |-> <<>>,late |-> FALSE,curver |-> 0,expiredEver |-> FALSE,deferredEver |-> FALSE,client |-> <<[created |-> FALSE, uk |-> 4, rk |-> 1, seq |-> 0, dead |-> FALSE]>>,queue |-> <<>>]),
    ([ledger |-> <<>>,unpub |-> {},nsub |-> 1,last |-> [a |-> "Submit", accepted |-> FALSE],store |-> {},faults |-> 0,observed |-> 0,hist |-> <<[d |-> 1, a |-> "Submit", k |-> "B"]>>,late |-> FALSE,curver |-> 0,expiredEver |-> FALSE,deferredEver |-> FALSE,client |-> <<[created |-> FALSE, uk |-> 4, rk |-> 1, seq |-> 0, dead |-> FALSE]>>,queue |-> <<>>]),
    ([ledger |-> <<>>,unpub |-> {[d |-> 1, sh |-> [rk |-> 0, p |-> 100, ty |-> "C", sig |-> "ok", nuc |-> 4, nrc |-> 1, dl |-> "ok", win |-> "none", sfx |-> "ok"], id |-> 2, ver |-> 0, exp |-> FALSE]},nsub |-> 2,last |-> [a |-> "Submit", accepted |-> TRUE],store |-> {},faults |-> 0,observed |-> 0,hist |-> <<[d |-> 1, a |-> "Submit", k |-> "B"], [d |-> 1, a |-> "Submit", k |-> "C"]>>,late |-> FALSE,curver |-> 0,expiredEver |-> FALSE,deferredEver |-> FALSE,client |-> <<[created |-> TRUE, uk |-> 4, rk |-> 1, seq |-> 0, dead |-> FALSE]>>,queue |-> <<[d |-> 1, sh |-> [rk |-> 0, p |-> 100, ty |-> "C", sig |-> "ok", nuc |-> 4, nrc |-> 1, dl |-> "ok", win |-> "none", sfx |-> "ok"], id |-> 2, ver |-> 0, exp |-> FALSE]>>]),
    ([ledger |-> <<>>,unpub |-> {[d |-> 1, sh |-> [rk |-> 0, p |-> 100, ty |-> "C", sig |-> "ok", nuc |-> 4, nrc |-> 1, dl |-> "ok", win |-> "none", sfx |-> "ok"], id |-> 2, ver |-> 0, exp |-> FALSE], [d |-> 1, sh |-> [rk |-> 4, p |-> 101, ty |-> "U", sig |-> "ok", nuc |-> 5, nrc |-> 0, dl |-> "ok", win |-> "none", sfx |-> "ok"], id |-> 3, ver |-> 0, exp |-> TRUE]},nsub |-> 3,last |-> [a |-> "Submit", accepted |-> TRUE],store |-> {},faults |-> 0,observed |-> 0,hist |-> <<[d |-> 1, a |-> "Submit", k |-> "B"], [d |-> 1, a |-> "Submit", k |-> "C"], [d |-> 1, a |-> "Submit", k |-> "E"]>>,late |-> FALSE,curver |-> 0,expiredEver |-> FALSE,deferredEver |-> FALSE,client |-> <<[created |-> TRUE, uk |-> 5, rk |-> 1, seq |-> 1, dead |-> FALSE]>>,queue |-> <<[d |-> 1, sh |-> [rk |-> 0, p |-> 100, ty |-> "C", sig |-> "ok", nuc |-> 4, nrc |-> 1, dl |-> "ok", win |-> "none", sfx |-> "ok"], id |-> 2, ver |-> 0, exp |-> FALSE], [d |-> 1, sh |-> [rk |-> 4, p |-> 101, ty |-> "U", sig |-> "ok", nuc |-> 5, nrc |-> 0, dl |-> "ok", win |-> "none", sfx |-> "ok"], id |-> 3, ver |-> 0, exp |-> TRUE]>>]),
    ([ledger |-> <<>>,unpub |-> {[d |-> 1, sh |-> [rk |-> 0, p |-> 100, ty |-> "C", sig |-> "ok", nuc |-> 4, nrc |-> 1, dl |-> "ok", win |-> "none", sfx |-> "ok"], id |-> 2, ver |-> 0, exp |-> FALSE], [d |-> 1, sh |-> [rk |-> 4, p |-> 101, ty |-> "U", sig |-> "ok", nuc |-> 5, nrc |-> 0, dl |-> "ok", win |-> "none", sfx |-> "ok"], id |-> 3, ver |-> 0, exp |-> TRUE]},nsub |-> 3,last |-> [a |-> "Clock"],store |-> {},faults |-> 0,observed |-> 0,hist |-> <<[d |-> 1, a |-> "Submit", k |-> "B"], [d |-> 1, a |-> "Submit", k |-> "C"], [d |-> 1, a |-> "Submit", k |-> "E"], [a |-> "Clock"]>>,late |-> TRUE,curver |-> 0,expiredEver |-> FALSE,deferredEver |-> FALSE,client |-> <<[created |-> TRUE, uk |-> 5, rk |-> 1, seq |-> 1, dead |-> FALSE]>>,queue |-> <<[d |-> 1, sh |-> [rk |-> 0, p |-> 100, ty |-> "C", sig |-> "ok", nuc |-> 4, nrc |-> 1, dl |-> "ok", win |-> "none", sfx |-> "ok"], id |-> 2, ver |-> 0, exp |-> FALSE], [d |-> 1, sh |-> [rk |-> 4, p |-> 101, ty |-> "U", sig |-> "ok", nuc |-> 5, nrc |-> 0, dl |-> "ok", win |-> "none", sfx |-> "ok"], id |-> 3, ver |-> 0, exp |-> TRUE]>>]),
    ([ledger |-> <<[ver |-> 0, kind |-> "ok", ops |-> <<[d |-> 1, sh |-> [rk |-> 0, p |-> 100, ty |-> "C", sig |-> "ok", nuc |-> 4, nrc |-> 1, dl |-> "ok", win |-> "none", sfx |-> "ok"], id |-> 2, ver |-> 0, exp |-> FALSE]>>]>>,unpub |-> {[d |-> 1, sh |-> [rk |-> 0, p |-> 100, ty |-> "C", sig |-> "ok", nuc |-> 4, nrc |-> 1, dl |-> "ok", win |-> "none", sfx |-> "ok"], id |-> 2, ver |-> 0, exp |-> FALSE], [d |-> 1, sh |-> [rk |-> 4, p |-> 101, ty |-> "U", sig |-> "ok", nuc |-> 5, nrc |-> 0, dl |-> "ok", win |-> "none", sfx |-> "ok"], id |-> 3, ver |-> 0, exp |-> TRUE]},nsub |-> 3,last |-> [a |-> "Flush", anchored |-> <<2>>],store |-> {},faults |-> 0,observed |-> 0,hist |-> <<[d |-> 1, a |-> "Submit", k |-> "B"], [d |-> 1, a |-> "Submit", k |-> "C"], [d |-> 1, a |-> "Submit", k |-> "E"], [a |-> "Clock"], [a |-> "Flush"]>>,late |-> TRUE,curver |-> 0,expiredEver |-> TRUE,deferredEver |-> FALSE,client |-> <<[created |-> TRUE, uk |-> 5, rk |-> 1, seq |-> 1, dead |-> FALSE]>>,queue |-> <<>>]),
    ([ledger |-> <<[ver |-> 0, kind |-> "ok", ops |-> <<[d |-> 1, sh |-> [rk |-> 0, p |-> 100, ty |-> "C", sig |-> "ok", nuc |-> 4, nrc |-> 1, dl |-> "ok", win |-> "none", sfx |-> "ok"], id |-> 2, ver |-> 0, exp |-> FALSE]>>]>>,unpub |-> {[d |-> 1, sh |-> [rk |-> 4, p |-> 101, ty |-> "U", sig |-> "ok", nuc |-> 5, nrc |-> 0, dl |-> "ok", win |-> "none", sfx |-> "ok"], id |-> 3, ver |-> 0, exp |-> TRUE]},nsub |-> 3,last |-> [a |-> "Observe", stored |-> {2}],store |-> {[d |-> 1, sh |-> [rk |-> 0, p |-> 100, ty |-> "C", sig |-> "ok", nuc |-> 4, nrc |-> 1, dl |-> "ok", win |-> "none", sfx |-> "ok"], t |-> 1, n |-> 1, pub |-> TRUE, id |-> 2, ver |-> 0, ref |-> 1]},faults |-> 0,observed |-> 1,hist |-> <<[d |-> 1, a |-> "Submit", k |-> "B"], [d |-> 1, a |-> "Submit", k |-> "C"], [d |-> 1, a |-> "Submit", k |-> "E"], [a |-> "Clock"], [a |-> "Flush"], [a |-> "Observe", f |-> "none"]>>,late |-> TRUE,curver |-> 0,expiredEver |-> TRUE,deferredEver |-> FALSE,client |-> <<[created |-> TRUE, uk |-> 5, rk |-> 1, seq |-> 1, dead |-> FALSE]>>,queue |-> <<>>])
    >>
----


=============================================================================

---- CONFIG MC_Pipeline_TTrace_1790409079 ----
CONSTANTS
    Dids <- D1
    MaxSubmits = 3
    MaxLedger = 2
    MaxFaults = 0
    UnpubOn = TRUE
    TwoVersions = FALSE
    Expiry = TRUE
    KeepExpiredUnpublished = TRUE
    MaxSteps = 0

INVARIANT
    _inv

CHECK_DEADLOCK
    \* CHECK_DEADLOCK off because of PROPERTY or INVARIANT above.
    FALSE

INIT
    _init

NEXT
    _next

CONSTANT
    _TETrace <- _trace

ALIAS
    _expression
=============================================================================
\* Generated on Sat Sep 26 07:51:21 UTC 2026