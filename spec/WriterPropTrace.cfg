\* trace validation of real batch-writer runs against WriterProp (MaxCount must equal the protocol's value in the harness)
INIT TInit
NEXT TNext
CONSTANTS
  MaxCount = 3
  MaxCountLater = 3
INVARIANT Conservation
INVARIANT BatchBounds
INVARIANT ExactlyOnceAtRest
INVARIANT EndsAtRest
CONSTRAINT HW
POSTCONDITION TraceAccepted
CHECK_DEADLOCK FALSE
