\* C10 thorough: valid baseline of each type + every combination of up to 3 single-rule deviations
INIT Init
NEXT Next
CONSTANTS
  MaxDev = 3
INVARIANT BoundaryExact
INVARIANT OneViolationSuffices
INVARIANT Recommit
INVARIANT Emit
CHECK_DEADLOCK FALSE
