\* the same model with the deviation of the code as built (a discarded operation stays in the unpublished store):
\* TLC must find QuiescentMeansPublishedAsBuilt violated - the deviation is observable
INIT Init
NEXT Next
CONSTANTS
  Dids <- D1
  MaxSubmits = 3
  MaxLedger = 2
  MaxFaults = 0
  UnpubOn = TRUE
  TwoVersions = FALSE
  Expiry = TRUE
  KeepExpiredUnpublished = TRUE
  MaxSteps = 0
VIEW MCView
INVARIANT QuiescentMeansPublishedAsBuilt
CHECK_DEADLOCK FALSE
