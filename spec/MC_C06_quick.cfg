\* C06 quick: <= 4 operations; every version time 0..max+1 and every version id is checked in each state
INIT Init
NEXT Next
CONSTANTS
  AlphaSeq <- AlphaQuick
  Coords <- CoordsQuick
  MaxOps = 4
  AllowUnpub = FALSE
  Monotone = FALSE
  AttackerKeys = {8, 9}
INVARIANT TypeOK
INVARIANT HistoricalIsTruncation
INVARIANT EmitCase
PROPERTY PastIsImmutable
CHECK_DEADLOCK FALSE
