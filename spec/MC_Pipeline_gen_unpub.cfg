\* behaviour generation by simulation (history variable on)
INIT Init
NEXT NextGen
CONSTANTS
  Dids <- D2
  MaxSubmits = 6
  MaxLedger = 5
  MaxFaults = 2
  UnpubOn = TRUE
  TwoVersions = TRUE
  Expiry = FALSE
  KeepExpiredUnpublished = FALSE
  MaxSteps = 16
INVARIANT Emit
CHECK_DEADLOCK FALSE
