\* C19 thorough, part services
INIT Init
NEXT Next
CONSTANTS
  MaxKeys = 2
  Part = "services"
INVARIANT EachKeyOnce
INVARIANT RelationshipsExact
INVARIANT ContextsCover
INVARIANT IdsQualified
INVARIANT Emit
CHECK_DEADLOCK FALSE
