\* C09: 5 key types x signature forms x header tampers x payload tampers x verification keys; malformed classes as constants
INIT Init
NEXT Next
INVARIANT OnlyGenuineAccepted
INVARIANT ForeignKeyRejected
INVARIANT TamperRejected
INVARIANT Emit
CHECK_DEADLOCK FALSE
