\* trace validation with different maxima per protocol version: 2 for version 0, 4 for the later (current) version
INIT TInit
NEXT TNext
CONSTANTS
  MaxCount = 2
  MaxCountLater = 4
INVARIANT Conservation
INVARIANT BatchBounds
INVARIANT ExactlyOnceAtRest
INVARIANT EndsAtRest
CONSTRAINT HW
POSTCONDITION TraceAccepted
CHECK_DEADLOCK FALSE
