\* C14 quick: every batch of <= 2 queued operations over 2 suffixes, every single structural mutation and every opaque fault class
INIT Init
NEXT Next
CONSTANTS
  MaxBatch = 2
  Sfxs = {1, 2}
  MaxMut = 1
  OpaqueOn = TRUE
INVARIANT RoundTrip
INVARIANT ReadSafe
INVARIANT Emit
CHECK_DEADLOCK FALSE
