\* C05 quick: 3 types x from 0..4 x until 0..6 x t 0..8 x delta {2,5} x 2 decoy settings = 11 340 cases
INIT Init
NEXT Next
CONSTANTS
  Types = {"U", "R", "D"}
  Froms <- FromsQuick
  Untils = {0, 1, 2, 3, 4, 5, 6}
  Times = {0, 1, 2, 3, 4, 5, 6, 7, 8, 2000000}
  Deltas = {2, 5, 1000000}
  Decoys = {0, 1}
INVARIANT WindowEffect
INVARIANT OnlyDelta
INVARIANT Emit
CHECK_DEADLOCK FALSE
