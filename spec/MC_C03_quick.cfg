\* C03 quick: 18 shapes, 4 coordinates, <= 4 operations, published only
INIT Init
NEXT Next
CONSTANTS
  AlphaSeq <- AlphaQuick
  Coords <- CoordsQuick
  MaxOps = 4
  AllowUnpub = FALSE
  Monotone = FALSE
  AttackerKeys = {8, 9}
INVARIANT TypeOK
INVARIANT ImplMatchesRef
INVARIANT ConsumeOnce
INVARIANT NoRevisit
INVARIANT LogBounded
INVARIANT EmitCase
CHECK_DEADLOCK FALSE
