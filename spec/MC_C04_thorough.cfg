\* C04 thorough: <= 4 operations, published and unpublished, anchored in increasing order
INIT Init
NEXT Next
CONSTANTS
  AlphaSeq <- AlphaThorough
  Coords <- CoordsThorough
  MaxOps = 4
  AllowUnpub = TRUE
  Monotone = TRUE
  AttackerKeys = {8, 9}
INVARIANT TypeOK
INVARIANT ImplMatchesRef
INVARIANT RecoverSupersedes
INVARIANT EmitC04
PROPERTY DeactivationTerminal
CHECK_DEADLOCK FALSE
