\* C03 quick: the base create takes effect through a partial-failure branch (AlphaFailCreate), <= 4 operations, published and unpublished
INIT Init
NEXT Next
CONSTANTS
  AlphaSeq <- AlphaFailCreate
  Coords <- CoordsQuick
  MaxOps = 4
  AllowUnpub = TRUE
  Monotone = FALSE
  AttackerKeys = {8, 9}
INVARIANT TypeOK
INVARIANT ImplMatchesRef
INVARIANT ConsumeOnce
INVARIANT NoRevisit
INVARIANT LogBounded
INVARIANT EmitCase
CHECK_DEADLOCK FALSE
