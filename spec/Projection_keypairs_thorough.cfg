\* C19 thorough, part keypairs
INIT Init
NEXT Next
CONSTANTS
  MaxKeys = 2
  Part = "keypairs"
INVARIANT EachKeyOnce
INVARIANT RelationshipsExact
INVARIANT ContextsCover
INVARIANT IdsQualified
INVARIANT Emit
CHECK_DEADLOCK FALSE
