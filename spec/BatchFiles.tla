----------------------------- MODULE BatchFiles -----------------------------
(***************************************************************************)
(* C13 / C14: the batch files of one Sidetree transaction.                 *)
(*                                                                         *)
(* Write(b)  what the operation handler lays out for a batch b of queued   *)
(*           operations: first live operation per suffix included, others  *)
(*           deferred, expired ones discarded; included operations sorted  *)
(*           by type; chunk deltas in the order create, recover, update;   *)
(*           proofs per type; provisional files omitted only when every    *)
(*           queued operation is an included deactivate.                   *)
(* Read(f)   what the operation provider reconstructs from a file set:     *)
(*           reference presence rules, cross-file counts, duplicate        *)
(*           suffixes, POSITIONAL re-assembly, final count check.          *)
(* Mutate    one structural change of a file set (entry dropped,           *)
(*           duplicated, retargeted; reference removed or added; anchor    *)
(*           count changed) or an opaque fault class (oversize, bomb, long *)
(*           URI, null / type-confused member, CAS failure, garbage        *)
(*           anchor) whose expected verdict is given by MustReject.        *)
(*                                                                         *)
(* Index entries are [id, sfx]; proof entries and deltas are operation ids *)
(* (standing for the signed data / delta of that operation).               *)
(***************************************************************************)
EXTENDS Integers, Sequences, FiniteSets, SequencesExt, TLC, Json

CONSTANTS MaxBatch, Sfxs, MaxMut, OpaqueOn

VARIABLES batch, files, muts, opaque

vars == <<batch, files, muts, opaque>>

None == [none |-> TRUE]

Live(b)  == SelectSeq(b, LAMBDA o : ~o.exp)
FirstOfSfx(l, i) == \A j \in 1..(i - 1) : l[j].sfx # l[i].sfx
Inc(b) == LET l == Live(b) IN SelectSeq(l, LAMBDA o : \A j \in DOMAIN l : l[j].id = o.id => FirstOfSfx(l, j))
Def(b) == LET l == Live(b) IN SelectSeq(l, LAMBDA o : \A j \in DOMAIN l : l[j].id = o.id => ~FirstOfSfx(l, j))
Exp(b) == SelectSeq(b, LAMBDA o : o.exp)
OfType(s, ty) == SelectSeq(s, LAMBDA o : o.ty = ty)
Entries(s) == [i \in DOMAIN s |-> [id |-> s[i].id, sfx |-> s[i].sfx]]
IdsSeq(s)  == [i \in DOMAIN s |-> s[i].id]

Write(b) ==
  LET inc == Inc(b)
      C == OfType(inc, "C")  R == OfType(inc, "R")  U == OfType(inc, "U")  D == OfType(inc, "D")
      prov == Len(D) # Len(b)
  IN [coreIndex |-> [proofRef |-> Len(R) + Len(D) > 0, provRef |-> prov,
                     create |-> Entries(C), recover |-> Entries(R), deactivate |-> Entries(D)],
      coreProof |-> IF Len(R) + Len(D) > 0 THEN [recover |-> IdsSeq(R), deactivate |-> IdsSeq(D)] ELSE None,
      provIndex |-> IF prov THEN [proofRef |-> Len(U) > 0, chunkRef |-> TRUE, extraChunk |-> FALSE, update |-> Entries(U)] ELSE None,
      provProof |-> IF prov /\ Len(U) > 0 THEN [update |-> IdsSeq(U)] ELSE None,
      chunk     |-> IF prov THEN [deltas |-> IdsSeq(C) \o IdsSeq(R) \o IdsSeq(U)] ELSE None,
      count     |-> Len(inc)]

Err == [err |-> TRUE, ops |-> <<>>]
Ok(ops) == [err |-> FALSE, ops |-> ops]

HasDup(s) == \E i, j \in DOMAIN s : i # j /\ s[i] = s[j]
SfxSeq(es) == [i \in DOMAIN es |-> es[i].sfx]

(* the reader; an assembled operation is [ty, sfx, id (index entry), proof, delta] *)
Read(f) ==
  LET ci == f.coreIndex
      nR == Len(ci.recover)  nD == Len(ci.deactivate)  nC == Len(ci.create)
  IN
  IF f.count < 1 THEN Err
  ELSE IF (nR + nD > 0 /\ ~ci.proofRef) \/ (nR + nD = 0 /\ ci.proofRef) THEN Err
  ELSE IF ci.proofRef /\ f.coreProof = None THEN Err                      \* reference to a file that is not there
  ELSE IF ci.provRef /\ f.provIndex = None THEN Err
  ELSE IF ci.proofRef /\ (Len(f.coreProof.recover) # nR \/ Len(f.coreProof.deactivate) # nD) THEN Err
  ELSE IF HasDup(SfxSeq(ci.create) \o SfxSeq(ci.recover) \o SfxSeq(ci.deactivate)) THEN Err
  ELSE
    LET deacts == [i \in 1..nD |-> [ty |-> "D", sfx |-> ci.deactivate[i].sfx, id |-> ci.deactivate[i].id,
                                     proof |-> f.coreProof.deactivate[i], delta |-> 0]]
    IN
    IF ~ci.provRef
    THEN IF nC + nR > 0 THEN Err          \* creates / recovers need a delta: no provisional index, no chunk file (a missing chunk reference)
         ELSE IF Len(deacts) # f.count THEN Err ELSE Ok(deacts)
    ELSE
      LET pi == f.provIndex
          nU == Len(pi.update)
      IN
      IF (nU > 0 /\ ~pi.proofRef) \/ (nU = 0 /\ pi.proofRef) THEN Err
      ELSE IF pi.proofRef /\ f.provProof = None THEN Err
      ELSE IF ~pi.chunkRef \/ f.chunk = None THEN Err
      ELSE IF pi.extraChunk THEN Err                                       \* a superfluous chunk reference
      ELSE IF pi.proofRef /\ Len(f.provProof.update) # nU THEN Err
      ELSE IF nC + nR + nU # Len(f.chunk.deltas) THEN Err
      ELSE IF HasDup(SfxSeq(ci.create) \o SfxSeq(ci.recover) \o SfxSeq(ci.deactivate) \o SfxSeq(pi.update)) THEN Err
      ELSE
        LET creates  == [i \in 1..nC |-> [ty |-> "C", sfx |-> ci.create[i].sfx, id |-> ci.create[i].id, proof |-> 0, delta |-> f.chunk.deltas[i]]]
            recovers == [i \in 1..nR |-> [ty |-> "R", sfx |-> ci.recover[i].sfx, id |-> ci.recover[i].id,
                                          proof |-> f.coreProof.recover[i], delta |-> f.chunk.deltas[nC + i]]]
            updates  == [i \in 1..nU |-> [ty |-> "U", sfx |-> pi.update[i].sfx, id |-> pi.update[i].id,
                                          proof |-> f.provProof.update[i], delta |-> f.chunk.deltas[nC + nR + i]]]
            all == creates \o recovers \o updates \o deacts
        IN IF Len(all) # f.count THEN Err ELSE Ok(all)

(* what the batch must read back as *)
Expected(b) ==
  LET inc == Inc(b)
      S(ty) == LET s == OfType(inc, ty) IN [i \in DOMAIN s |-> [ty |-> ty, sfx |-> s[i].sfx, id |-> s[i].id,
                                                                proof |-> IF ty = "C" THEN 0 ELSE s[i].id,
                                                                delta |-> IF ty = "D" THEN 0 ELSE s[i].id]]
  IN S("C") \o S("R") \o S("U") \o S("D")

---------------------------------------------------------------------------
Types == {"C", "U", "R", "D"}
OpsAt(i) == {[id |-> i, ty |-> ty, sfx |-> s, exp |-> e] : ty \in Types, s \in Sfxs, e \in BOOLEAN} \ {o \in [id : {i}, ty : {"C"}, sfx : Sfxs, exp : {TRUE}] : TRUE}

Init == /\ batch = <<>> /\ files = Write(<<>>) /\ muts = <<>> /\ opaque = "none"

Grow == /\ muts = <<>> /\ opaque = "none" /\ Len(batch) < MaxBatch
        /\ \E o \in OpsAt(Len(batch) + 1) : batch' = Append(batch, o)
        /\ files' = Write(batch')
        /\ UNCHANGED <<muts, opaque>>

(* structural mutations *)
DelAt(s, i) == SubSeq(s, 1, i - 1) \o SubSeq(s, i + 1, Len(s))
DupAt(s, i)    == SubSeq(s, 1, i) \o <<s[i]>> \o SubSeq(s, i + 1, Len(s))

IdxLists == {"create", "recover", "deactivate", "update"}
IdxGet(f, l) == IF l = "update" THEN (IF f.provIndex = None THEN <<>> ELSE f.provIndex.update) ELSE f.coreIndex[l]
IdxSet(f, l, v) == IF l = "update" THEN [f EXCEPT !.provIndex.update = v] ELSE [f EXCEPT !.coreIndex[l] = v]
PrfLists == {"recover", "deactivate", "update"}
PrfGet(f, l) == IF l = "update" THEN (IF f.provProof = None THEN <<>> ELSE f.provProof.update)
                ELSE (IF f.coreProof = None THEN <<>> ELSE f.coreProof[l])
PrfSet(f, l, v) == IF l = "update" THEN [f EXCEPT !.provProof.update = v] ELSE [f EXCEPT !.coreProof[l] = v]
Deltas(f) == IF f.chunk = None THEN <<>> ELSE f.chunk.deltas

Mutations(f) ==
     {[k |-> "dropIdx", l |-> l, i |-> i, to |-> 0] : l \in IdxLists, i \in 1..3}
  \cup {[k |-> "dupIdx", l |-> l, i |-> i, to |-> 0] : l \in IdxLists, i \in 1..3}
  \cup {[k |-> "retarget", l |-> l, i |-> i, to |-> s] : l \in IdxLists \ {"create"}, i \in 1..3, s \in Sfxs \cup {9}}
  \cup {[k |-> "dropPrf", l |-> l, i |-> i, to |-> 0] : l \in PrfLists, i \in 1..3}
  \cup {[k |-> "dupPrf", l |-> l, i |-> i, to |-> 0] : l \in PrfLists, i \in 1..3}
  \cup {[k |-> "dropDelta", l |-> "", i |-> i, to |-> 0] : i \in 1..3}
  \cup {[k |-> "dupDelta", l |-> "", i |-> i, to |-> 0] : i \in 1..3}
  \cup {[k |-> "swapDelta", l |-> "", i |-> i, to |-> 0] : i \in 1..2}
  \cup {[k |-> "clearRef", l |-> r, i |-> 0, to |-> 0] : r \in {"coreProof", "provIndex", "provProof", "chunk"}}
  \cup {[k |-> "addRef", l |-> r, i |-> 0, to |-> 0] : r \in {"coreProof", "provProof"}}
  \cup {[k |-> "count", l |-> "", i |-> d, to |-> 0] : d \in {-1, 1}}
  \* the provisional index reference removed AND the anchor count set to the number of deactivates (so that only the
  \* missing reference can be the reason for rejecting); a second chunk reference in the provisional index
  \cup {[k |-> "dropProvisional", l |-> "", i |-> 0, to |-> 0], [k |-> "addChunkRef", l |-> "", i |-> 0, to |-> 0]}
  \* the chunk entry is there but names no file ({} / "" / null; the harness lets CAS serve the chunk file under the empty address)
  \cup {[k |-> "blankChunkRef", l |-> "", i |-> i, to |-> 0] : i \in 1..3}

Applicable(f, m) ==
  CASE m.k \in {"dropIdx", "dupIdx"} -> m.i <= Len(IdxGet(f, m.l))
    [] m.k = "retarget" -> m.i <= Len(IdxGet(f, m.l)) /\ IdxGet(f, m.l)[m.i].sfx # m.to
    [] m.k \in {"dropPrf", "dupPrf"} -> m.i <= Len(PrfGet(f, m.l))
    [] m.k \in {"dropDelta", "dupDelta"} -> m.i <= Len(Deltas(f))
    [] m.k = "swapDelta" -> m.i + 1 <= Len(Deltas(f))
    [] m.k = "clearRef" -> (CASE m.l = "coreProof" -> f.coreIndex.proofRef [] m.l = "provIndex" -> f.coreIndex.provRef
                               [] m.l = "provProof" -> f.provIndex # None /\ f.provIndex.proofRef
                               [] m.l = "chunk" -> f.provIndex # None /\ f.provIndex.chunkRef)
    [] m.k = "addRef" -> (CASE m.l = "coreProof" -> ~f.coreIndex.proofRef /\ f.provIndex # None   \* point it at another existing file
                             [] m.l = "provProof" -> f.provIndex # None /\ ~f.provIndex.proofRef)
    [] m.k = "count" -> f.count + m.i >= 0
    [] m.k = "dropProvisional" -> f.coreIndex.provRef /\ Len(f.coreIndex.deactivate) >= 1
    [] m.k = "addChunkRef" -> f.provIndex # None /\ f.provIndex.chunkRef /\ ~f.provIndex.extraChunk
    [] m.k = "blankChunkRef" -> f.provIndex # None /\ f.provIndex.chunkRef

Apply(f, m) ==
  CASE m.k = "dropIdx"  -> IdxSet(f, m.l, DelAt(IdxGet(f, m.l), m.i))
    [] m.k = "dupIdx"   -> IdxSet(f, m.l, DupAt(IdxGet(f, m.l), m.i))
    [] m.k = "retarget" -> IdxSet(f, m.l, [IdxGet(f, m.l) EXCEPT ![m.i].sfx = m.to])
    [] m.k = "dropPrf"  -> PrfSet(f, m.l, DelAt(PrfGet(f, m.l), m.i))
    [] m.k = "dupPrf"   -> PrfSet(f, m.l, DupAt(PrfGet(f, m.l), m.i))
    [] m.k = "dropDelta" -> [f EXCEPT !.chunk.deltas = DelAt(@, m.i)]
    [] m.k = "dupDelta"  -> [f EXCEPT !.chunk.deltas = DupAt(@, m.i)]
    [] m.k = "swapDelta" -> [f EXCEPT !.chunk.deltas = [@ EXCEPT ![m.i] = f.chunk.deltas[m.i + 1], ![m.i + 1] = f.chunk.deltas[m.i]]]
    [] m.k = "clearRef" -> (CASE m.l = "coreProof" -> [f EXCEPT !.coreIndex.proofRef = FALSE] [] m.l = "provIndex" -> [f EXCEPT !.coreIndex.provRef = FALSE]
                               [] m.l = "provProof" -> [f EXCEPT !.provIndex.proofRef = FALSE] [] m.l = "chunk" -> [f EXCEPT !.provIndex.chunkRef = FALSE])
    [] m.k = "addRef" -> (CASE m.l = "coreProof" -> [f EXCEPT !.coreIndex.proofRef = TRUE, !.coreProof = [recover |-> <<>>, deactivate |-> <<>>]]
                             [] m.l = "provProof" -> [f EXCEPT !.provIndex.proofRef = TRUE, !.provProof = [update |-> <<>>]])
    [] m.k = "count" -> [f EXCEPT !.count = @ + m.i]
    [] m.k = "dropProvisional" -> [f EXCEPT !.coreIndex.provRef = FALSE, !.count = Len(f.coreIndex.deactivate)]
    [] m.k = "addChunkRef" -> [f EXCEPT !.provIndex.extraChunk = TRUE]
    [] m.k = "blankChunkRef" -> [f EXCEPT !.provIndex.chunkRef = FALSE]

Mutate == /\ Len(batch) >= 1 /\ Len(muts) < MaxMut /\ opaque = "none"
          /\ \E m \in Mutations(files) : Applicable(files, m) /\ files' = Apply(files, m) /\ muts' = Append(muts, m)
          /\ UNCHANGED <<batch, opaque>>

(* opaque fault classes (realised on bytes by the harness); file names as in the file set *)
FilesPresent(f) == {"coreIndex"} \cup (IF f.coreProof # None THEN {"coreProof"} ELSE {}) \cup (IF f.provIndex # None THEN {"provIndex"} ELSE {})
                   \cup (IF f.provProof # None THEN {"provProof"} ELSE {}) \cup (IF f.chunk # None THEN {"chunk"} ELSE {})
OpaqueClasses(f) == {"oversize:" \o x : x \in FilesPresent(f)} \cup {"bomb:" \o x : x \in FilesPresent(f)}
                    \cup {"casfail:" \o x : x \in FilesPresent(f)} \cup {"casfailAlt:" \o x : x \in FilesPresent(f)}
                    \* the same limits when the content is served by an alternate source after the primary read failed
                    \cup {"oversizeAlt:" \o x : x \in FilesPresent(f)} \cup {"bombAlt:" \o x : x \in FilesPresent(f)}
                    \cup {"null:" \o x : x \in FilesPresent(f)} \cup {"typeconf:" \o x : x \in FilesPresent(f)}
                    \cup {"longuri:" \o x : x \in FilesPresent(f)}     \* coreIndex: the URI inside the anchor string
                    \cup {"anchorGarbage"}
Opaque == /\ OpaqueOn /\ Len(batch) >= 1 /\ muts = <<>> /\ opaque = "none" /\ files.count >= 1
          /\ \E c \in OpaqueClasses(files) : opaque' = c
          /\ UNCHANGED <<batch, files, muts>>

Next == Grow \/ Mutate \/ Opaque

---------------------------------------------------------------------------
(* C13 *)
(* RoundTrip is stated for EVERY configuration of the per-file size limits under which each operation of the batch  *)
(* is anchorable on its own: the writer knows the limits of its protocol version, so a batch whose files the reader *)
(* would refuse must not be anchored as such.  "tight:f": the limit of file f is below what the files of this batch *)
(* need but at least what a batch of any single one of its operations needs (realised by the harness on bytes).     *)
LimitClasses == {"roomy"} \cup {"tight:" \o f : f \in {"coreIndex", "coreProof", "provIndex", "provProof", "chunk"}}
RoundTrip == (muts = <<>> /\ opaque = "none" /\ Len(Inc(batch)) >= 1) => Read(files) = Ok(Expected(batch))
Accounting == LET ids(s) == {s[i].id : i \in DOMAIN s} IN
              /\ ids(Inc(batch)) \cup ids(Def(batch)) \cup ids(Exp(batch)) = ids(batch)
              /\ Len(Inc(batch)) + Len(Def(batch)) + Len(Exp(batch)) = Len(batch)
CountAgrees == muts = <<>> => files.count = Len(Inc(batch))
OrderCRUD == LET e == Expected(batch) IN \A i, j \in DOMAIN e : i < j =>
               LET rank(t) == CASE t = "C" -> 1 [] t = "R" -> 2 [] t = "U" -> 3 [] t = "D" -> 4 IN rank(e[i].ty) <= rank(e[j].ty)

(* C14: whatever was done to the files, a successful read has the anchor string's count and distinct suffixes *)
ReadSafe == LET r == Read(files) IN ~r.err => (Len(r.ops) = files.count /\ ~HasDup(SfxSeq(r.ops)))
(* the fault classes the property names must be rejected *)
Prefix(s, p) == Len(s) >= Len(p) /\ SubSeq(s, 1, Len(p)) = p
MustReject == \/ \E p \in {"oversize:", "bomb:", "longuri:", "casfail:", "oversizeAlt:", "bombAlt:"} : Prefix(opaque, p)
              \/ opaque = "anchorGarbage"
              \/ (muts # <<>> /\ Read(files).err)
Verdict == IF opaque # "none"
           THEN IF MustReject THEN "error" ELSE IF Prefix(opaque, "casfailAlt:") THEN "ok" ELSE "either"
           ELSE IF Read(files).err THEN "error" ELSE "ok"

Emit == Len(batch) >= 1 =>
  PrintT("CASE " \o ToJson([batch |-> batch, muts |-> muts, opaque |-> opaque, verdict |-> Verdict,
                             ops |-> IF Read(files).err THEN <<>> ELSE Read(files).ops,
                             inc |-> IdsSeq(Inc(batch)), def |-> IdsSeq(Def(batch)), exp |-> IdsSeq(Exp(batch))]))
=============================================================================
