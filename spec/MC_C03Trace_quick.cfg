\* validation of long random histories against the C03 quick alphabet
INIT TInit
NEXT TNext
CONSTANTS
  AlphaSeq <- AlphaQuick
  Coords <- CoordsQuick
  MaxOps = 100
  AllowUnpub = TRUE
  Monotone = FALSE
  AttackerKeys = {8, 9}
INVARIANT Consumed
CONSTRAINT HW
POSTCONDITION TraceAccepted
CHECK_DEADLOCK FALSE
