------------------------------ MODULE MC_C02 ------------------------------
(* C02: earliest anchored valid operation wins; storage order irrelevant. *)
(* Competing valid operations per commitment, several creates, published  *)
(* and unpublished, coordinates with NON-MONOTONE transaction numbers.    *)
EXTENDS Resolution

AlphaQuick == <<
  C(1, 4, "ok", 10),
  C(1, 4, "mismatch", 19),
  U(4, 5, "ok", "ok", "none", 11),
  U(4, 6, "ok", "ok", "none", 12),
  U(5, 6, "ok", "ok", "none", 13),
  R(1, 2, 5, "ok", "ok", "none", 30),
  R(1, 3, 6, "ok", "ok", "none", 31),
  D(1, "ok", "ok", "none")
>>
AlphaThorough == AlphaQuick \o <<
  U(6, 7, "ok", "ok", "none", 14),
  U(4, 5, "ok", "fail", "none", 15)
>>

(* competitors of which the earlier one is no valid candidate because it commits back to a commitment that its chain *)
(* has already consumed: the scan must go on to the later, valid one (update chain 4 -> 5 -> {4 | 6}; recovery chain *)
(* 1 -> 2 -> {1 | 3})                                                                                                *)
AlphaReuse == <<
  C(1, 4, "ok", 10),
  U(4, 5, "ok", "ok", "none", 11),
  U(5, 4, "ok", "ok", "none", 12),
  U(5, 6, "ok", "ok", "none", 13),
  R(1, 2, 5, "ok", "ok", "none", 30),
  R(2, 1, 6, "ok", "ok", "none", 31),
  R(2, 3, 6, "ok", "ok", "none", 32)
>>
CoordsReuse == {<<1, 2>>, <<2, 1>>, <<2, 2>>, <<3, 0>>}

CoordsQuick    == {<<1, 2>>, <<2, 1>>, <<2, 2>>, <<3, 0>>}
CoordsThorough == {<<1, 1>>, <<1, 2>>, <<2, 0>>, <<2, 1>>, <<3, 0>>}

(* Non-trivial: >= 2 candidates for one commitment, or >= 2 creates, or   *)
(* published and unpublished operations mixed.                            *)
Competing ==
  \/ Cardinality({o \in store : o.sh.ty = "C"}) >= 2
  \/ \E a, b \in store : a # b /\ a.sh.ty # "C" /\ b.sh.ty # "C" /\ a.sh.rk = b.sh.rk
                          /\ (a.sh.ty = "U") = (b.sh.ty = "U")
  \/ \E a, b \in store : a.pub /\ ~b.pub

EmitC02 == PrintT("CASE " \o ToJson([ops |-> OpsJson, res |-> res, ao |-> AoNow, na |-> IF Competing THEN 1 ELSE 0]))
=============================================================================
