------------------------------ MODULE MC_C06 ------------------------------
(* C06: historical resolution equals resolution of the truncated history. *)
EXTENDS Resolution

AlphaQuick == <<
  C(1, 4, "ok", 10),
  C(1, 4, "mismatch", 19),
  U(4, 5, "ok", "ok", "none", 11),
  U(4, 6, "ok", "ok", "none", 12),
  U(5, 6, "ok", "ok", "none", 13),
  U(4, 5, "ok", "fail", "none", 14),
  R(1, 2, 5, "ok", "ok", "none", 30),
  R(1, 2, 4, "ok", "mismatch", "none", 31),
  D(1, "ok", "ok", "none"),
  D(2, "ok", "ok", "none")
>>
AlphaThorough == AlphaQuick \o <<
  U(6, 7, "ok", "ok", "none", 15),
  R(2, 3, 6, "ok", "ok", "none", 32)
>>
(* with unpublished operations (their time is the submission time): a smaller alphabet *)
AlphaUnpub == <<
  C(1, 4, "ok", 10),
  U(4, 5, "ok", "ok", "none", 11),
  U(4, 6, "ok", "ok", "none", 12),
  U(5, 6, "ok", "ok", "none", 13),
  R(1, 2, 5, "ok", "ok", "none", 30),
  D(1, "ok", "ok", "none")
>>
CoordsQuick    == {<<1, 0>>, <<1, 1>>, <<2, 0>>, <<3, 0>>}
CoordsThorough == {<<1, 0>>, <<1, 1>>, <<2, 0>>, <<3, 0>>, <<4, 0>>}
=============================================================================
