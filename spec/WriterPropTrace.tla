-------------------------- MODULE WriterPropTrace --------------------------
(***************************************************************************)
(* Trace validation for C16: NDJSON events recorded from REAL runs of      *)
(* batch.Writer (queue decorator, operation-handler wrapper, anchor-writer *)
(* gate, tick hook) are replayed against WriterProp.  Several runs are     *)
(* concatenated; a "Reset" event starts the next one and demands that the  *)
(* previous one ended at rest (every accepted operation anchored exactly   *)
(* once or discarded).  Events:                                            *)
(*   {ev:"Add",id,sfx,ver,q}  {ev:"Tick",force}     {ev:"Remove",ids}      *)
(*   {ev:"Anchor",inc,exp,def,ver}   {ev:"Nack"}    {ev:"Reset"}           *)
(* A re-queued deferred operation shows up as an "Add" of a known id.      *)
(***************************************************************************)
EXTENDS WriterProp, TLC, Json

VARIABLE l
tvars == <<pvars, l>>

Trace == ndJsonDeserialize("writer_trace.ndjson")

TInit == PInit /\ l = 1

IsEv(e) == l <= Len(Trace) /\ Trace[l].ev = e /\ l' = l + 1

ById(S, id) == CHOOSE o \in S : o.id = id
SeqOfIds(ids, S) == [i \in DOMAIN ids |-> ById(S, ids[i])]
RangeOf(s) == {s[i] : i \in DOMAIN s}

TAdd ==
  /\ IsEv("Add")
  /\ LET r == Trace[l] IN
     /\ IF r.id \in accepted
        THEN \E o \in deferred : o.id = r.id /\ \E pos \in 0..Len(q) : PReAdd(o, pos)
        ELSE PAdd([id |-> r.id, sfx |-> r.sfx, ver |-> r.ver])
     /\ [i \in DOMAIN q' |-> q'[i].id] = r.q          \* logged projection of the real queue after the call

TTick == IsEv("Tick") /\ PTick(Trace[l].force)

TRemove ==
  /\ IsEv("Remove")
  /\ LET ids == Trace[l].ids IN
     /\ Len(ids) >= 1
     /\ PCut(Len(ids))
     /\ [i \in DOMAIN infl' |-> infl'[i].id] = ids

TAnchor ==
  /\ IsEv("Anchor")
  /\ LET r == Trace[l]
         S == SeqSet(infl)
     IN /\ RangeOf(r.inc) \cup RangeOf(r.exp) \cup RangeOf(r.def) \subseteq IdsOf(infl)
        /\ infl # <<>> => r.ver = infl[1].ver
        /\ PAnchor(SeqOfIds(r.inc, S), RangeOf(r.exp), {ById(S, r.def[i]) : i \in DOMAIN r.def})

TNack == IsEv("Nack") /\ PNack

TReset == /\ IsEv("Reset")
          /\ Quiescent
          /\ q' = <<>> /\ infl' = <<>> /\ anchored' = <<>> /\ discarded' = {} /\ deferred' = {}
          /\ accepted' = {} /\ force' = FALSE

TNext == TAdd \/ TTick \/ TRemove \/ TAnchor \/ TNack \/ TReset

TSpec == TInit /\ [][TNext]_tvars

(* high-water mark of consumed events; PReAdd's position makes the search branch, so the diameter is unusable *)
HW == TLCSet(1, IF l > TLCGet(1) THEN l ELSE TLCGet(1))
ASSUME TLCSet(1, 0)
TraceAccepted == TLCGet(1) = Len(Trace) + 1
EndsAtRest == l = Len(Trace) + 1 => Quiescent
=============================================================================
