\* C19 quick, part services
INIT Init
NEXT Next
CONSTANTS
  MaxKeys = 1
  Part = "services"
INVARIANT EachKeyOnce
INVARIANT RelationshipsExact
INVARIANT ContextsCover
INVARIANT IdsQualified
INVARIANT Emit
CHECK_DEADLOCK FALSE
