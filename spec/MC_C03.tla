------------------------------ MODULE MC_C03 ------------------------------
(* C03: resolution follows the Sidetree state machine, partial failures   *)
(* included.  Keys: 1,2,3 recovery keys; 4,5,6,7 update keys.             *)
EXTENDS Resolution

AlphaQuick == <<
  C(1, 4, "ok", 10),
  C(1, 4, "mismatch", 19),
  U(4, 5, "ok", "ok", "none", 11),
  U(4, 6, "ok", "ok", "none", 12),
  U(5, 6, "ok", "ok", "none", 13),
  U(4, 5, "ok", "fail", "none", 14),
  U(4, 5, "ok", "invalid", "none", 15),
  U(4, 5, "ok", "mismatch", "none", 16),
  U(4, 5, "ok", "absent", "none", 26),
  U(4, 5, "ok", "ok", "late", 17),
  U(4, 5, "ok", "ok", "until2", 27),
  U(5, 4, "ok", "ok", "none", 18),
  U(4, 4, "ok", "ok", "none", 21),
  R(1, 2, 5, "ok", "ok", "none", 30),
  R(1, 2, 4, "ok", "mismatch", "none", 31),
  R(1, 3, 4, "ok", "ok", "late", 32),
  R(2, 1, 6, "ok", "ok", "none", 33),
  D(1, "ok", "ok", "none"),
  D(2, "ok", "ok", "none"),
  D(1, "ok", "ok", "late")
>>

AlphaThorough == AlphaQuick \o <<
  U(6, 7, "ok", "ok", "in", 22),
  U(6, 4, "ok", "ok", "none", 23),
  U(5, 6, "bad", "ok", "none", 24),
  U(4, 5, "ok", "ok", "early", 25),
  R(1, 2, 4, "ok", "invalid", "none", 34),
  R(1, 2, 4, "ok", "fail", "none", 35),
  R(2, 3, 5, "ok", "ok", "in", 36),
  R(1, 1, 4, "ok", "ok", "none", 37),
  R(1, 2, 4, "ok", "absent", "none", 38),
  U(4, 5, "ok", "ok", "from2", 28),
  R(1, 2, 5, "ok", "ok", "until2", 39),
  D(1, "ok", "ok", "from2"),
  U(5, 5, "ok", "ok", "none", 29),
  D(1, "ok", "bad", "none"),
  D(2, "bad", "ok", "none")
>>

(* a DID whose create takes effect through a partial-failure branch: its   *)
(* patches do not apply (empty document WITH an update commitment), or its *)
(* delta is invalid (no update commitment); the operations around it are   *)
(* ordered relative to the create's anchoring point all the same           *)
AlphaFailCreate == <<
  C(1, 4, "fail", 10),
  C(1, 4, "mismatch", 19),
  U(4, 5, "ok", "ok", "none", 11),
  U(5, 6, "ok", "ok", "none", 12),
  U(4, 5, "ok", "fail", "none", 14),
  R(1, 2, 5, "ok", "ok", "none", 30),
  R(1, 2, 4, "ok", "fail", "none", 35),
  D(1, "ok", "ok", "none"),
  D(2, "ok", "ok", "none")
>>
AlphaInvalidCreate == <<C(1, 4, "invalid", 10)>> \o Tail(AlphaFailCreate)

CoordsQuick    == {<<1, 0>>, <<2, 1>>, <<2, 2>>, <<3, 0>>}
CoordsThorough == {<<1, 0>>, <<1, 1>>, <<2, 1>>, <<2, 2>>, <<3, 0>>}

=============================================================================
