----------------------------- MODULE PatchRules -----------------------------
(***************************************************************************)
(* C18: what a delta accepted by validation may contain.  A patch is a     *)
(* record of FEATURE CLASSES, one per structural rule; Valid(p) is the     *)
(* conjunction of the rules as the property states them.  As in Intake,    *)
(* TLC enumerates the valid baseline of every patch kind and every         *)
(* combination of up to MaxDev deviations.                                 *)
(*                                                                         *)
(* JSON patches (ietf-json-patch) are operation lists over all six RFC     *)
(* 6902 operations (plus an unknown one) x path classes x from classes x   *)
(* value classes; besides the syntactic rule (neither path nor from inside *)
(* the public-key or service section) the harness checks the EFFECT on     *)
(* real documents: an accepted patch leaves both sections untouched and    *)
(* never crashes the composer.                                             *)
(***************************************************************************)
EXTENDS Integers, Sequences, FiniteSets, TLC, Json

CONSTANTS MaxDev, JsonOps2     \* JsonOps2: also enumerate two-operation JSON patches (first op from a small set)

VARIABLES p, devs
vars == <<p, devs>>

Kinds == {"addKeys", "addSvcs", "removeKeys", "removeSvcs", "aka", "replace"}

KeyTypes == {"JsonWebKey2020", "EcdsaSecp256k1VerificationKey2019", "Ed25519VerificationKey2018", "Ed25519VerificationKey2020",
             "Bls12381G2Key2020", "X25519KeyAgreementKey2019", "UnknownKey2030"}
VerificationTypes == KeyTypes \ {"X25519KeyAgreementKey2019", "UnknownKey2030"}
AgreementTypes == {"Bls12381G2Key2020", "JsonWebKey2020", "EcdsaSecp256k1VerificationKey2019", "X25519KeyAgreementKey2019"}
GeneralTypes == KeyTypes \ {"UnknownKey2030"}

PurposeClasses == {"absent", "empty", "auth", "agreement", "authAndAgreement", "allFive", "invalid", "six"}
PurposeOk(ty, pc) ==
  CASE pc = "absent"           -> ty \in GeneralTypes
    [] pc = "empty"            -> FALSE
    [] pc = "auth"             -> ty \in VerificationTypes
    [] pc = "agreement"        -> ty \in AgreementTypes
    [] pc = "authAndAgreement" -> ty \in VerificationTypes \cap AgreementTypes
    [] pc = "allFive"          -> ty \in VerificationTypes \cap AgreementTypes
    [] pc = "invalid"          -> FALSE
    [] pc = "six"              -> FALSE

IdOk(c) == c \in {"len1", "len50"}
IdClasses == {"len1", "len50", "len51", "empty", "badChar", "missing"}

MaterialClasses == {"jwk", "jwkNoX", "b58", "both", "none"}
MaterialOk(ty, m) ==
  CASE m = "jwk"    -> TRUE
    [] m = "jwkNoX" -> FALSE
    [] m = "b58"    -> ty # "JsonWebKey2020"
    [] m = "both"   -> FALSE
    [] m = "none"   -> FALSE

\* "relative": a URI reference without a scheme (/path, //host/x, *); "nonString": a number or boolean; "arrNonString":
\* an array holding one; "arrNested": a non-URI hidden one array level deeper
EndpointClasses == {"uri", "badUri", "emptyString", "arrUri", "arrUriBad", "arrBadUri", "arrObjBad", "missing", "object",
                    "relative", "nonString", "arrNonString", "arrNested"}
EndpointOk(e) == e \in {"uri", "arrUri", "object"}

Baseline(k) ==
  [kind |-> k, enabled |-> TRUE,
   id |-> "len1", second |-> "none",          \* second entry in the same patch: none / distinct / dup
   shape |-> "objects",                        \* the entry list: objects / a non-object entry first or last / entries one array deeper / not an array
   ktype |-> "JsonWebKey2020", purposes |-> "auth", material |-> "jwk", extra |-> FALSE, typeMissing |-> FALSE,
   stype |-> "len1", endpoint |-> "uri",
   ids |-> "ok",                               \* remove-*: ok / empty / badChar / len51
   uris |-> "ok",                              \* aka: ok / empty / dup / unparseable
   inner |-> "ok"]                             \* replace: ok / extraMember / badKey / badSvc / dupKey / non-object entries / sections that are no arrays

Domain(k, f) ==
  CASE f = "enabled"  -> BOOLEAN
    [] f = "id"       -> IF k \in {"addKeys", "addSvcs"} THEN IdClasses ELSE {"len1"}
    [] f = "second"   -> IF k \in {"addKeys", "addSvcs"} THEN {"none", "distinct", "dup"} ELSE {"none"}
    [] f = "shape"    -> IF k \in {"addKeys", "addSvcs"} THEN {"objects", "junkFirst", "junkLast", "nested", "notArray"} ELSE {"objects"}
    [] f = "ktype"    -> IF k = "addKeys" THEN KeyTypes ELSE {"JsonWebKey2020"}
    [] f = "purposes" -> IF k = "addKeys" THEN PurposeClasses ELSE {"auth"}
    [] f = "material" -> IF k = "addKeys" THEN MaterialClasses ELSE {"jwk"}
    [] f = "extra"    -> IF k \in {"addKeys"} THEN BOOLEAN ELSE {FALSE}
    [] f = "typeMissing" -> IF k \in {"addKeys", "addSvcs"} THEN BOOLEAN ELSE {FALSE}
    [] f = "stype"    -> IF k = "addSvcs" THEN {"len1", "len30", "len31"} ELSE {"len1"}
    [] f = "endpoint" -> IF k = "addSvcs" THEN EndpointClasses ELSE {"uri"}
    [] f = "ids"      -> IF k \in {"removeKeys", "removeSvcs"} THEN {"ok", "empty", "badChar", "len51", "len50"} ELSE {"ok"}
    [] f = "uris"     -> IF k = "aka" THEN {"ok", "empty", "dup", "unparseable"} ELSE {"ok"}
    [] f = "inner"    -> IF k = "replace" THEN {"ok", "extraMember", "badKey", "badSvc", "dupKey",
                                                      "junkKey", "junkSvc", "nestedKeys", "nestedSvcs", "keysNotArray", "svcsNotArray"} ELSE {"ok"}

Fields == {"enabled", "id", "second", "shape", "ktype", "purposes", "material", "extra", "typeMissing", "stype", "endpoint", "ids", "uris", "inner"}

Valid(q) ==
  /\ q.enabled
  /\ q.kind \in {"addKeys", "addSvcs"} => (IdOk(q.id) /\ q.second # "dup" /\ ~q.typeMissing /\ q.shape = "objects")
  /\ q.kind = "addKeys" => (PurposeOk(q.ktype, q.purposes) /\ MaterialOk(q.ktype, q.material) /\ ~q.extra)
  /\ q.kind = "addSvcs" => (q.stype \in {"len1", "len30"} /\ EndpointOk(q.endpoint))
  /\ q.kind \in {"removeKeys", "removeSvcs"} => q.ids \in {"ok", "len50"}
  /\ q.kind = "aka" => q.uris = "ok"
  /\ q.kind = "replace" => q.inner = "ok"

Init == (\E k \in Kinds : p = Baseline(k)) /\ devs = {}
Deviate(f, v) ==
  /\ Cardinality(devs) < MaxDev /\ f \notin devs
  /\ v \in Domain(p.kind, f) /\ v # p[f]
  /\ p' = [p EXCEPT ![f] = v] /\ devs' = devs \cup {f}
Next == \E f \in Fields : \E v \in Domain(p.kind, f) : Deviate(f, v)

BaselinesValid == devs = {} => Valid(p)
(* rules that do not depend on another field cannot be repaired by a second deviation (type/purposes/material are coupled) *)
Uncoupled == {"enabled", "id", "second", "shape", "extra", "typeMissing", "stype", "endpoint", "ids", "uris", "inner"}
OneViolationSuffices == (\E f \in devs \cap Uncoupled : ~Valid([Baseline(p.kind) EXCEPT ![f] = p[f]])) => ~Valid(p)

Emit == PrintT("CASE " \o ToJson([p |-> p, valid |-> Valid(p), ndev |-> Cardinality(devs)]))

---------------------------------------------------------------------------
(* RFC 6902 operation lists, emitted once (constants of the model) *)
Ops    == {"add", "remove", "replace", "move", "copy", "test", "frobnicate"}
Paths  == {"/publicKey", "/publicKey/0", "/publicKeys", "/service", "/service/0/id", "/serviceCount", "/other", "/arr/0", "/arr/-1", "/arr/-", "/arr/5", "/missing/x",
           "/nul/x", "", "ABSENT", "NONSTRING", "NULL", "/a~1b", "/other/deep/er",
           \* no leading '/': the JSON patch library ignores what precedes the first '/', so these address the sections
           "x/publicKey", "publicKey", "x/service/0",
           \* other spellings of /arr/0 (a copy from /arr/0 into them is a copy into itself) and an index far beyond the end
           "/arr/00/-", "/arr/+0/-", "/arr/1099511627776",
           \* RFC 6901 escapes: "~01" is the two characters "~1" (not "/"): a member named "~1" and a location inside it
           "/~01", "/~01/x", "/~10", "/a~1b/x"}
\* "NULL": the member is present with the JSON value null; "/copied": what the first operation {copy /other -> /copied} created
Froms  == {"ABSENT", "/publicKey", "/service/0", "/other", "/arr/0", "/missing", "NONSTRING", "NULL", "/copied", "x/service", "/publicKeys",
           "/~01", "/a~1b"}
Values == {"present", "null", "ABSENT"}
InProtected(s) == s \in {"/publicKey", "/publicKey/0", "/service", "/service/0/id", "/service/0", "x/publicKey", "publicKey", "x/service/0", "x/service"}
\* "/publicKeys" and "/serviceCount" are other members that merely share a prefix with a section name: not protected
NoSlash(s) == s \in {"x/publicKey", "publicKey", "x/service/0", "x/service"}
\* a null "from" counts as absent (RFC 6902 members that an operation does not use are ignored); a null path is no path
OpValid(o) == /\ o.path \notin {"ABSENT", "NONSTRING", "NULL"} /\ ~InProtected(o.path)
              /\ (o.from \in {"ABSENT", "NULL"} \/ (o.from # "NONSTRING" /\ ~InProtected(o.from)))
JsonOpSet == [op : Ops, path : Paths, from : Froms, value : Values]
FirstOps == {[op |-> "add", path |-> "/nul", from |-> "ABSENT", value |-> "null"],
             [op |-> "add", path |-> "/arr/-", from |-> "ABSENT", value |-> "present"],
             [op |-> "remove", path |-> "/other", from |-> "ABSENT", value |-> "ABSENT"],
             [op |-> "copy", path |-> "/copied", from |-> "/other", value |-> "ABSENT"],
             [op |-> "move", path |-> "/moved", from |-> "/arr", value |-> "ABSENT"]}
ASSUME PrintT("JSONOPS " \o ToJson([ops |-> {[o |-> x, valid |-> OpValid(x)] : x \in JsonOpSet},
                                     first |-> IF JsonOps2 THEN FirstOps ELSE {}]))
=============================================================================
