\* C11 quick: all types x 5 key types x 2 hash algorithms x windows x patch classes x anchor origins x nonce
INIT Init
NEXT Next
CONSTANTS
  Types = {"C", "U", "R", "D"}
  KeyTypes = {0, 1, 2, 3, 4}
  Hashes = {18, 19}
  Windows = {"none", "from", "fromUntil", "untilExact", "fromExact", "fromOnlyEdge"}
  PatchClasses = {"one", "two", "opaque", "opaqueSparse"}
  Origins = {"none", "string", "object"}
  Nonces = {"absent", "N"}
INVARIANT TakesEffect
INVARIANT Emit
CHECK_DEADLOCK FALSE
