------------------------------ MODULE Pipeline ------------------------------
(***************************************************************************)
(* End to end: document handler intake -> operation queue -> batch writer  *)
(* -> CAS + ledger -> observer -> transaction processor -> operation store *)
(* -> resolution; with an optional unpublished-operation store, one or two *)
(* protocol versions, and faults (queue add fails, batch write fails, a    *)
(* transaction that cannot be read or stored, adversarial ledger entries). *)
(*                                                                         *)
(* One action per public call the harness makes on the REAL components:    *)
(*   Submit(d, k)    DocumentHandler.ProcessOperation of a client-built    *)
(*                   request (k in C/U/R/D) for DID d, parsed, validated,  *)
(*                   decorated (resolve; refuse if not found/deactivated), *)
(*                   put into the unpublished store, queued                *)
(*   SubmitAddFails  the same, but the queue refuses the operation: the    *)
(*                   unpublished entry is removed again                    *)
(*   SubmitPutFails  the same, but the unpublished-operation store refuses *)
(*                   the operation: it is not queued either                *)
(*   Flush / FlushFails   one forced round of the batch writer (C16 covers *)
(*                   its interleavings; here it is atomic)                 *)
(*   Garbage, Dup    adversarial ledger entries: unreadable anchor; a      *)
(*                   transaction whose operation list repeats a suffix     *)
(*   Observe(f)      Observer / TxnProcessor.Process of the next ledger    *)
(*                   entry, f in none / cas (file unreadable) / put (store *)
(*                   write fails)                                          *)
(*   Upgrade         a new protocol version comes into force               *)
(*   Clock           the server clock passes the anchorUntil of the        *)
(*                   "expiring" updates (kind E): intake now refuses them, *)
(*                   and the writer's operation handler discards those     *)
(*                   still queued when it cuts the next batch              *)
(*   ResolveAll      DocumentHandler.ResolveDocument of every DID          *)
(*   ResolveHist     ... of every DID at every version time and version id *)
(*                                                                         *)
(* Operations reuse the shapes and the state machine of SidetreeCore; the  *)
(* expected resolution of a DID is ResolveRef of its stored (published)    *)
(* and unpublished operations.                                             *)
(***************************************************************************)
EXTENDS SidetreeCore, TLC, Json

CONSTANTS Dids,        \* set of DID indices
          MaxSubmits,  \* bound on submissions
          MaxLedger,   \* bound on ledger entries
          MaxFaults,   \* fault budget
          UnpubOn,     \* BOOLEAN: unpublished-operation store configured (all operation types)
          TwoVersions, \* BOOLEAN: may a second protocol version come into force?
          Expiry,      \* BOOLEAN: are expiring updates (kind E) and the Clock action part of the behaviours?
          KeepExpiredUnpublished, \* BOOLEAN: TRUE = the code as built (a discarded operation stays in the unpublished store)
          MaxSteps     \* bound on behaviour length (schedule generation)

VARIABLES client,    \* [Dids -> [created, uk, rk]]  what the client believes its keys are
          queue,     \* sequence of queued operations [id, d, sh, ver]
          unpub,     \* set of operations in the unpublished store
          ledger,    \* sequence of entries [kind, ops, ver]
          observed,  \* number of ledger entries the observer has processed
          store,     \* set of stored operations [id, d, sh, ver, t, n, pub, ref]
          curver,    \* protocol version in force for intake: 0 or 10
          nsub, faults, hist,
          deferredEver, \* has the writer ever deferred an operation (same DID twice in one batch)?
          late,      \* has the server clock passed the anchorUntil of the expiring updates?
          expiredEver, \* has the operation handler ever discarded an expired operation?
          last       \* observable outcome of the last step (checked against the real reply)

vars == <<client, queue, unpub, ledger, observed, store, curver, nsub, faults, hist, deferredEver, late, expiredEver, last>>
MCView == <<client, queue, unpub, ledger, observed, store, curver, nsub, faults, deferredEver, late, expiredEver>>
xvars == <<late, expiredEver>>

FarFuture == 1000000     \* unpublished operations carry "now" as transaction time: after everything anchored

H(x) == hist' = Append(hist, x)

Init == /\ client = [d \in Dids |-> [created |-> FALSE, uk |-> 4, rk |-> 1, seq |-> 0, dead |-> FALSE]]
        /\ queue = <<>> /\ unpub = {} /\ ledger = <<>> /\ observed = 0 /\ store = {}
        /\ curver = 0 /\ nsub = 0 /\ faults = 0 /\ hist = <<>> /\ last = [a |-> "init"] /\ deferredEver = FALSE
        /\ late = FALSE /\ expiredEver = FALSE

(* the operations resolution sees for DID d *)
OpsOf(d) == {[sh |-> o.sh, t |-> o.t, n |-> o.n, pub |-> TRUE] : o \in {x \in store : x.d = d}}
            \cup {[sh |-> o.sh, t |-> FarFuture, n |-> o.id, pub |-> FALSE] : o \in {x \in unpub : x.d = d}}
Resolved(d) == ResolveRef(OpsOf(d))

(* the request the client builds next for DID d *)
Shape(d, k) ==
  LET c == client[d]
      p == d * 100 + c.seq + 1
  IN CASE k = "C" -> [ty |-> "C", rk |-> 0, sig |-> "ok", nuc |-> 4, nrc |-> 1, dl |-> "ok", win |-> "none", p |-> d * 100, sfx |-> "ok"]
       [] k = "U" -> [ty |-> "U", rk |-> c.uk, sig |-> "ok", nuc |-> c.uk + 1, nrc |-> 0, dl |-> "ok", win |-> "none", p |-> p, sfx |-> "ok"]
       \* "X": an update that re-commits to the DID's FIRST update key (4) - well-formed, accepted by intake, but ignored by
       \* resolution while commitment 4 has already been consumed in the current chain (C12 end to end)
       [] k = "X" -> [ty |-> "U", rk |-> c.uk, sig |-> "ok", nuc |-> 4, nrc |-> 0, dl |-> "ok", win |-> "none", p |-> p, sfx |-> "ok"]
       \* "B": a create that passes validation but whose response cannot be built (a key the transformer cannot convert):
       \* the handler refuses it - and a refused operation leaves no trace (C15)
       [] k = "B" -> [ty |-> "C", rk |-> 0, sig |-> "ok", nuc |-> 4, nrc |-> 1, dl |-> "ok", win |-> "none", p |-> d * 100 + 99, sfx |-> "ok"]
       \* "E": an ordinary update whose signed window ends at a server time that Clock passes (anchorUntil 500); anchored,
       \* it is in its window (the ledger times of the model are small); as an unpublished operation it carries the
       \* submission time FarFuture and is out of it (it advances the commitment and leaves the document alone)
       [] k = "E" -> [ty |-> "U", rk |-> c.uk, sig |-> "ok", nuc |-> c.uk + 1, nrc |-> 0, dl |-> "ok", win |-> "until500", p |-> p, sfx |-> "ok"]
       [] k = "R" -> [ty |-> "R", rk |-> c.rk, sig |-> "ok", nuc |-> c.uk + 1, nrc |-> c.rk + 1, dl |-> "ok", win |-> "none", p |-> p, sfx |-> "ok"]
       [] k = "D" -> [ty |-> "D", rk |-> c.rk, sig |-> "ok", nuc |-> 0, nrc |-> 0, dl |-> "ok", win |-> "none", p |-> 0, sfx |-> "ok"]

(* the client keeps submitting after its own deactivate (C04: intake must refuse) *)
ClientCan(d, k) ==
  LET c == client[d] IN
  /\ IF k \in {"C", "B"} THEN ~c.created ELSE c.created
  /\ c.uk < 8 /\ c.rk < 3
  /\ k = "X" => c.uk # 4          \* re-committing to the key being revealed is refused by intake (C12), not modelled here

ClientAfter(d, k) ==
  LET c == client[d] IN
  CASE k = "C" -> [c EXCEPT !.created = TRUE]
    [] k \in {"U", "E"} -> [c EXCEPT !.uk = c.uk + 1, !.seq = c.seq + 1]
    [] k = "X" -> [c EXCEPT !.uk = 4, !.seq = c.seq + 1]
    [] k = "R" -> [c EXCEPT !.uk = c.uk + 1, !.rk = c.rk + 1, !.seq = c.seq + 1]
    [] k = "D" -> [c EXCEPT !.dead = TRUE]

(* intake accepts a create always; anything else only if the DID currently resolves and is not deactivated *)
IntakeAccepts(d, k) ==
  /\ k # "B" /\ (k = "C" \/ (Resolved(d).exists /\ ~Resolved(d).deact))
  /\ k = "E" => ~late                \* the server-time validator refuses an operation whose window has passed

Submit(d, k, f) ==                       \* f: "none" | "add" (the queue refuses) | "put" (the unpublished store refuses)
  /\ nsub < MaxSubmits /\ ClientCan(d, k)
  /\ f # "none" => faults < MaxFaults
  /\ f = "put" => UnpubOn
  /\ k = "E" => Expiry
  /\ LET op == [id |-> nsub + 1, d |-> d, sh |-> Shape(d, k), ver |-> curver, exp |-> k = "E"]
         ok == IntakeAccepts(d, k) /\ f = "none"
     IN /\ nsub' = nsub + 1
        /\ faults' = IF f # "none" THEN faults + 1 ELSE faults
        /\ IF ok
           THEN /\ queue' = Append(queue, op)
                /\ unpub' = IF UnpubOn THEN unpub \cup {op} ELSE unpub
                /\ client' = [client EXCEPT ![d] = ClientAfter(d, k)]
           ELSE UNCHANGED <<queue, unpub, client>>
        /\ last' = [a |-> "Submit", accepted |-> ok]
        /\ H([a |-> CASE f = "add" -> "SubmitAddFails" [] f = "put" -> "SubmitPutFails" [] OTHER -> "Submit", d |-> d, k |-> k])
  /\ UNCHANGED <<ledger, observed, store, curver, deferredEver, xvars>>

(* the forced round of the writer: the same-version prefix of the queue is cut; the first operation per DID is    *)
(* included, further ones are deferred to the tail of the queue                                                    *)
RECURSIVE VerPrefix(_, _, _)
VerPrefix(q, i, v) == IF i > Len(q) \/ q[i].ver # v THEN i - 1 ELSE VerPrefix(q, i + 1, v)
FirstOfDid(s, i) == \A j \in 1..(i - 1) : s[j].d # s[i].d
Included(s) == SelectSeq(s, LAMBDA o : \A j \in DOMAIN s : s[j].id = o.id => FirstOfDid(s, j))
Deferred(s) == SelectSeq(s, LAMBDA o : \A j \in DOMAIN s : s[j].id = o.id => ~FirstOfDid(s, j))

Flush(fails) ==
  /\ queue # <<>> /\ Len(ledger) < MaxLedger
  /\ fails => faults < MaxFaults
  /\ LET n     == VerPrefix(queue, 1, queue[1].ver)
         batch == SubSeq(queue, 1, n)
         \* the operation handler parses every operation of the batch against the server clock: expired ones are
         \* discarded (reported as such to the writer, which does nothing with them); the first LIVE operation per DID is
         \* included, further live ones are deferred
         live  == SelectSeq(batch, LAMBDA o : ~(o.exp /\ late))
         dead  == SelectSeq(batch, LAMBDA o : o.exp /\ late)
     IN IF fails
        THEN /\ faults' = faults + 1 /\ UNCHANGED <<queue, ledger, deferredEver, unpub, expiredEver>>
             /\ last' = [a |-> "Flush", anchored |-> <<>>]
        ELSE /\ queue' = SubSeq(queue, n + 1, Len(queue)) \o Deferred(live)
             /\ ledger' = Append(ledger, [kind |-> "ok", ops |-> Included(live), ver |-> queue[1].ver])
             /\ faults' = faults
             /\ deferredEver' = (deferredEver \/ Deferred(live) # <<>>)
             /\ expiredEver' = (expiredEver \/ dead # <<>>)
             \* a discarded operation will never be anchored: it has no place in the unpublished store any more.  As built,
             \* nobody removes it (the writer has no access to that store): KeepExpiredUnpublished names that deviation.
             /\ unpub' = IF KeepExpiredUnpublished THEN unpub ELSE {u \in unpub : \A j \in DOMAIN dead : dead[j].id # u.id}
             /\ last' = [a |-> "Flush", anchored |-> [i \in DOMAIN Included(live) |-> Included(live)[i].id]]
  /\ H([a |-> IF fails THEN "FlushFails" ELSE "Flush"])
  /\ UNCHANGED <<client, observed, store, curver, nsub, late>>

Garbage ==
  /\ Len(ledger) < MaxLedger /\ faults < MaxFaults
  /\ ledger' = Append(ledger, [kind |-> "garbage", ops |-> <<>>, ver |-> curver])
  /\ faults' = faults + 1 /\ last' = [a |-> "Garbage"] /\ H([a |-> "Garbage"])
  /\ UNCHANGED <<client, queue, unpub, observed, store, curver, nsub, deferredEver, xvars>>

(* a transaction whose operation provider hands back every operation twice: only the first per suffix may be stored *)
Dup ==
  /\ observed < Len(ledger) /\ ledger[observed + 1].kind = "ok" /\ faults < MaxFaults
  /\ ledger' = [ledger EXCEPT ![observed + 1].kind = "dup"]
  /\ faults' = faults + 1 /\ last' = [a |-> "Dup"] /\ H([a |-> "Dup"])
  /\ UNCHANGED <<client, queue, unpub, observed, store, curver, nsub, deferredEver, xvars>>

Stamp(o, i, v) == [id |-> o.id, d |-> o.d, sh |-> o.sh, ver |-> v, t |-> i, n |-> i, pub |-> TRUE, ref |-> i]

Observe(f) ==
  /\ observed < Len(ledger)
  /\ f # "none" => faults < MaxFaults
  /\ LET i == observed + 1
         e == ledger[i]
         good == f = "none" /\ e.kind \in {"ok", "dup"}
         new == IF good THEN {Stamp(e.ops[j], i, e.ver) : j \in DOMAIN e.ops} ELSE {}
     IN /\ observed' = i
        /\ store' = store \cup new
        /\ unpub' = IF good THEN {u \in unpub : \A j \in DOMAIN e.ops : e.ops[j].id # u.id} ELSE unpub
        /\ faults' = IF f = "none" THEN faults ELSE faults + 1
        /\ last' = [a |-> "Observe", stored |-> {o.id : o \in new}]
  /\ H([a |-> "Observe", f |-> f])
  /\ UNCHANGED <<client, queue, ledger, curver, nsub, deferredEver, xvars>>

Upgrade ==
  /\ TwoVersions /\ curver = 0
  /\ curver' = 10 /\ last' = [a |-> "Upgrade"] /\ H([a |-> "Upgrade"])
  /\ UNCHANGED <<client, queue, unpub, ledger, observed, store, nsub, faults, deferredEver, xvars>>

Clock ==
  /\ Expiry /\ ~late
  /\ late' = TRUE /\ last' = [a |-> "Clock"] /\ H([a |-> "Clock"])
  /\ UNCHANGED <<client, queue, unpub, ledger, observed, store, curver, nsub, faults, deferredEver, expiredEver>>

ResolveAll ==
  /\ last' = [a |-> "ResolveAll", views |-> [d \in Dids |-> View(Resolved(d))]]
  /\ H([a |-> "ResolveAll"])
  /\ UNCHANGED <<client, queue, unpub, ledger, observed, store, curver, nsub, faults, deferredEver, xvars>>

(* historical resolution (C06) through the document handler: at version time T the operations anchored at or before  *)
(* T count (unpublished ones carry the submission time: after everything anchored); at version id i (the reference    *)
(* of ledger entry i) the published operations up to and including the DID's operation of that entry; a DID without    *)
(* an operation in entry i does not know that version id                                                              *)
HistT(d, T) == View(ResolveRef(TruncT(OpsOf(d), T)))
HistV(d, i) == IF KnownV(OpsOf(d), <<i, i>>) THEN View(ResolveRef(TruncV(OpsOf(d), <<i, i>>))) ELSE View(NoState)
ResolveHist ==
  /\ last' = [a |-> "ResolveHist",
              times    |-> [d \in Dids |-> [T \in 1..Len(ledger) |-> HistT(d, T)]],
              versions |-> [d \in Dids |-> [i \in 1..Len(ledger) |-> HistV(d, i)]]]
  /\ H([a |-> "ResolveHist"])
  /\ UNCHANGED <<client, queue, unpub, ledger, observed, store, curver, nsub, faults, deferredEver, xvars>>

Next == \/ \E d \in Dids, k \in {"C", "B", "U", "X", "R", "D", "E"}, f \in {"none", "add", "put"} : Submit(d, k, f)
        \/ \E fl \in BOOLEAN : Flush(fl)
        \/ Garbage \/ Dup
        \/ \E f \in {"none", "cas", "put"} : Observe(f)
        \/ Upgrade \/ Clock
        \/ ResolveAll \/ ResolveHist

NextGen == Len(hist) < MaxSteps /\ Next
Spec == Init /\ [][Next]_vars

---------------------------------------------------------------------------
(* C15 *)
OnePerSuffixPerTxn == \A a, b \in store : (a.n = b.n /\ a.d = b.d) => a = b
Stamped == \A o \in store : o.n \in 1..observed /\ o.t = o.n /\ o.ref = o.n /\ o.ver = ledger[o.n].ver /\ o.pub
AllOrNothing == \A i \in 1..observed :
                  LET got == {o.id : o \in {x \in store : x.n = i}}
                      all == {ledger[i].ops[j].id : j \in DOMAIN ledger[i].ops}
                  IN got = {} \/ got = all
FailedTxnIsolated == \A i \in 1..observed : ledger[i].kind = "garbage" => {o \in store : o.n = i} = {}
(* nothing is queued or left unpublished that intake did not accept; nothing stored that was not anchored *)
NoTrace == /\ \A i \in DOMAIN queue : queue[i].id \in 1..nsub
           /\ \A u \in unpub : u.id \in 1..nsub
           /\ \A o \in store : \E i \in 1..Len(ledger) : \E j \in DOMAIN ledger[i].ops : ledger[i].ops[j].id = o.id
(* C06 at the pipeline level: what a version time at or before the last observed entry resolves to never changes again *)
OpsOfX(S, U, d) == {[sh |-> o.sh, t |-> o.t, n |-> o.n, pub |-> TRUE] : o \in {x \in S : x.d = d}}
                   \cup {[sh |-> o.sh, t |-> FarFuture, n |-> o.id, pub |-> FALSE] : o \in {x \in U : x.d = d}}
HistoryStable ==
  [][\A d \in Dids : \A T \in 1..observed :
        View(ResolveRef(TruncT(OpsOfX(store', unpub', d), T))) = View(ResolveRef(TruncT(OpsOfX(store, unpub, d), T)))]_vars

(* an unpublished operation is one that is still on its way: queued, or anchored and not yet observed (fault-free) *)
NoOrphanUnpublished ==
  (faults = 0 /\ ~KeepExpiredUnpublished) =>
     \A u \in unpub : \/ \E i \in DOMAIN queue : queue[i].id = u.id
                      \/ \E i \in (observed + 1)..Len(ledger) : \E j \in DOMAIN ledger[i].ops : ledger[i].ops[j].id = u.id
(* ... so that, once everything anchored has been observed and nothing is queued, resolution sees anchored operations only *)
QuiescentMeansPublished == (faults = 0 /\ ~KeepExpiredUnpublished /\ queue = <<>> /\ observed = Len(ledger)) => unpub = {}

QuiescentMeansPublishedAsBuilt == (faults = 0 /\ queue = <<>> /\ observed = Len(ledger)) => unpub = {}

(* C04 / C20 *)
DeactivatedRefuses == \A d \in Dids : (Resolved(d).exists /\ Resolved(d).deact) => ~IntakeAccepts(d, "U")

(* C20 speaks about ANCHORING order: a deferred operation goes to the tail of the queue, behind operations submitted *)
(* later (TLC found: C, R queued under version 0, U under version 10; R is deferred and anchored after U), so the    *)
(* client's intent is guaranteed only when nothing was deferred.  In a fault-free behaviour without pending         *)
(* operations and without deferrals the resolved state is what the client intends:                                  *)
ClientView(d) == client[d]
NoKeyReuse == \A o \in store : ~(o.sh.ty = "U" /\ o.sh.nuc = 4)
Settled == queue = <<>> /\ observed = Len(ledger) /\ faults = 0 /\ unpub = {} /\ ~deferredEver /\ NoKeyReuse /\ ~expiredEver
IntendedState ==
  Settled => \A d \in Dids :
     LET c == client[d] r == Resolved(d) IN
     /\ c.created = r.exists
     /\ (c.created /\ ~c.dead) => (r.uc = c.uk /\ r.rc = c.rk /\ ~r.deact)
     /\ c.dead => r.deact

(* Stamping in isolation: whatever the transaction's reference fields are (a canonical reference may be absent while  *)
(* equivalent references are present) and whatever the operation handed back by the provider already carries, the    *)
(* stored operation carries exactly THE TRANSACTION'S values.                                                        *)
StampCases == [canon : BOOLEAN, neq : {0, 1, 2}, stale : BOOLEAN, t : {7}, n : {3}, ver : {0, 10}]
StampExpected(c) == [ref |-> IF c.canon THEN "txn-canonical" ELSE "", neq |-> c.neq, t |-> c.t, n |-> c.n, ver |-> c.ver]
ASSUME PrintT("STAMP " \o ToJson({[c |-> x, out |-> StampExpected(x)] : x \in StampCases}))

Emit == (Len(hist) = MaxSteps) => PrintT("CASE " \o ToJson([hist |-> hist]))
=============================================================================
