\* C19 quick, part keys
INIT Init
NEXT Next
CONSTANTS
  MaxKeys = 1
  Part = "keys"
INVARIANT EachKeyOnce
INVARIANT RelationshipsExact
INVARIANT ContextsCover
INVARIANT IdsQualified
INVARIANT Emit
CHECK_DEADLOCK FALSE
