\* C03 thorough: 28 shapes, 5 coordinates, <= 4 operations (see also the 5-operation cfg MC_C03_deep)
INIT Init
NEXT Next
CONSTANTS
  AlphaSeq <- AlphaThorough
  Coords <- CoordsThorough
  MaxOps = 4
  AllowUnpub = FALSE
  Monotone = FALSE
  AttackerKeys = {8, 9}
INVARIANT TypeOK
INVARIANT ImplMatchesRef
INVARIANT ConsumeOnce
INVARIANT NoRevisit
INVARIANT LogBounded
INVARIANT EmitCase
CHECK_DEADLOCK FALSE
