\* C18 thorough: baseline of every patch kind + every combination of up to 3 rule deviations; JSON patch operation space
INIT Init
NEXT Next
CONSTANTS
  MaxDev = 3
  JsonOps2 = TRUE
INVARIANT BaselinesValid
INVARIANT OneViolationSuffices
INVARIANT Emit
CHECK_DEADLOCK FALSE
