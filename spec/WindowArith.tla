---------------------------- MODULE WindowArith ----------------------------
(* Non-gating extra (Apalache, unbounded integers): the implementation-shaped *)
(* window test of the operation applier is equivalent to C05's declarative   *)
(* InWindow for ALL integers from, until, t >= 0 and delta >= 0.             *)
EXTENDS Integers

VARIABLES
  \* @type: Int;
  from,
  \* @type: Int;
  until,
  \* @type: Int;
  t,
  \* @type: Int;
  delta

EffUntil == IF from # 0 /\ until = 0 THEN from + delta ELSE until
InWindow == (from = 0 /\ until = 0) \/ (from <= t /\ t <= EffUntil)

\* shaped like verifyAnchoringTimeRange: returns TRUE when no error is raised
ImplOk == IF from = 0 /\ until = 0 THEN TRUE
          ELSE IF from > t THEN FALSE
          ELSE IF EffUntil < t THEN FALSE
          ELSE TRUE

Init == from \in Int /\ until \in Int /\ t \in Int /\ delta \in Int /\ from >= 0 /\ until >= 0 /\ t >= 0 /\ delta >= 0
Next == UNCHANGED <<from, until, t, delta>>
Equiv == ImplOk <=> InWindow
=============================================================================
