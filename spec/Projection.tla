----------------------------- MODULE Projection -----------------------------
(***************************************************************************)
(* C19: the external DID document and its metadata as a function of the    *)
(* resolved state and the transformer options.  A case fixes the internal  *)
(* public keys (type, purposes, key material form), services, aliases,     *)
(* options (base context, method contexts) and the model flags that feed   *)
(* the metadata; Project(c) is the expected external view as a record.     *)
(***************************************************************************)
EXTENDS Integers, Sequences, FiniteSets, SequencesExt, TLC, Json

CONSTANTS MaxKeys, Part      \* Part: "keys" | "keypairs" | "services" | "metadata" - which sub-product to enumerate

VARIABLES cs, out

KeyTypes == {"JsonWebKey2020", "EcdsaSecp256k1VerificationKey2019", "Ed25519VerificationKey2018", "Ed25519VerificationKey2020",
             "Bls12381G2Key2020", "X25519KeyAgreementKey2019"}
CtxOf(ty) ==
  CASE ty = "JsonWebKey2020" -> "https://w3id.org/security/suites/jws-2020/v1"
    [] ty = "EcdsaSecp256k1VerificationKey2019" -> "https://w3id.org/security/suites/secp256k1-2019/v1"
    [] ty = "Ed25519VerificationKey2018" -> "https://w3id.org/security/suites/ed25519-2018/v1"
    [] ty = "Ed25519VerificationKey2020" -> "https://w3id.org/security/suites/ed25519-2020/v1"
    [] ty = "Bls12381G2Key2020" -> "https://w3id.org/security/suites/bls12381-2020/v1"
    [] ty = "X25519KeyAgreementKey2019" -> "https://w3id.org/security/suites/x25519-2019/v1"

Purposes == <<"authentication", "assertionMethod", "keyAgreement", "capabilityDelegation", "capabilityInvocation">>
PurposeSets == {{}, {"authentication"}, {"keyAgreement"}, {"authentication", "assertionMethod"},
                {"authentication", "assertionMethod", "keyAgreement", "capabilityDelegation", "capabilityInvocation"}}
Materials == {"jwk", "b58"}

(* how the key material appears externally *)
ExternalMaterial(ty, m) ==
  IF m = "b58" THEN "base58-unchanged"
  ELSE IF ty = "Ed25519VerificationKey2018" THEN "base58-of-jwk-bytes"
  ELSE IF ty = "Ed25519VerificationKey2020" THEN "multibase-of-jwk-bytes"
  ELSE "jwk-unchanged"

KeySpecs == [type : KeyTypes, purposes : PurposeSets, material : Materials]

RECURSIVE Dedup(_)
Dedup(s) == IF s = <<>> THEN <<>> ELSE LET r == Dedup(SubSeq(s, 1, Len(s) - 1)) IN
              IF \E i \in DOMAIN r : r[i] = s[Len(s)] THEN r ELSE Append(r, s[Len(s)])

Project(c) ==
  LET rel(i) == IF c.base THEN "#key" \o ToString(i) ELSE "DID#key" \o ToString(i)
      keyCtxs == Dedup([i \in DOMAIN c.keys |-> CtxOf(c.keys[i].type)])
  IN [id |-> "DID",
      context |-> <<"https://www.w3.org/ns/did/v1">> \o (IF c.methodCtx THEN <<"https://method.example.com/ctx/v1">> ELSE <<>>)
                  \o (IF c.base THEN <<"@base=DID">> ELSE <<>>) \o keyCtxs,
      vm |-> [i \in DOMAIN c.keys |-> [id |-> rel(i), type |-> c.keys[i].type, controller |-> "DID",
                                       material |-> ExternalMaterial(c.keys[i].type, c.keys[i].material)]],
      rels |-> [j \in DOMAIN Purposes |-> SelectSeq([i \in DOMAIN c.keys |-> IF Purposes[j] \in c.keys[i].purposes THEN rel(i) ELSE ""], LAMBDA x : x # "")],
      services |-> [i \in 1..c.nsvc |-> IF c.base THEN "#svc" \o ToString(i) ELSE "DID#svc" \o ToString(i)],
      aka |-> c.naka,
      hasPublicKeyMember |-> FALSE,
      meta |-> [published |-> c.published,
                deactivated |-> c.deactivated,
                hasUpdateCommitment |-> c.commitments \in {"both", "ucOnly"}, hasRecoveryCommitment |-> c.commitments \in {"both", "rcOnly"},
                hasAnchorOrigin |-> c.origin,
                hasCanonicalId |-> c.published, hasEquivalentId |-> c.published,
                hasCreated |-> c.published,
                hasVersionId |-> c.versionId,
                hasUpdated |-> c.versionId /\ c.updatedTime # "none"]]   \* also when the update was anchored at the creation time

Opts == [base : BOOLEAN, methodCtx : BOOLEAN]
Flags == [published : BOOLEAN, deactivated : BOOLEAN, commitments : {"both", "none", "rcOnly", "ucOnly"}, origin : BOOLEAN, versionId : BOOLEAN, updatedTime : {"none", "later", "same"}]
DefaultFlags == [published |-> TRUE, deactivated |-> FALSE, commitments |-> "both", origin |-> FALSE, versionId |-> TRUE, updatedTime |-> "later"]

KeySeqs == UNION {[1..n -> KeySpecs] : n \in 0..MaxKeys}
Mk(keys, nsvc, naka, o, f) ==
  [keys |-> keys, nsvc |-> nsvc, naka |-> naka, base |-> o.base, methodCtx |-> o.methodCtx,
   published |-> f.published, deactivated |-> f.deactivated, commitments |-> f.commitments, origin |-> f.origin,
   versionId |-> f.versionId, updatedTime |-> f.updatedTime]

OneKey == <<[type |-> "JsonWebKey2020", purposes |-> {"authentication"}, material |-> "jwk"]>>
Cases ==
  CASE Part = "keys"     -> {Mk(k, 1, 1, o, DefaultFlags) : k \in KeySeqs, o \in Opts}
    [] Part = "keypairs" -> {Mk(<<[type |-> t1, purposes |-> {"authentication"}, material |-> "jwk"],
                                    [type |-> t2, purposes |-> ps, material |-> "b58"]>>, 0, 0, o, DefaultFlags) :
                                  t1 \in KeyTypes, t2 \in KeyTypes, ps \in {{}, {"keyAgreement"}}, o \in Opts}
    [] Part = "services" -> {Mk(OneKey, s, a, o, DefaultFlags) : s \in 0..2, a \in 0..2, o \in Opts}
    [] Part = "metadata" -> {Mk(OneKey, 1, 0, o, f) : o \in Opts, f \in Flags}

Init == cs \in Cases /\ out = Project(cs)
Next == UNCHANGED <<cs, out>>

---------------------------------------------------------------------------
(* every internal key appears exactly once as a verification method ... *)
EachKeyOnce == Len(out.vm) = Len(cs.keys) /\ \A i, j \in DOMAIN out.vm : i # j => out.vm[i].id # out.vm[j].id
(* ... and is referenced from exactly the relationships its purposes name *)
RelationshipsExact ==
  \A j \in DOMAIN Purposes : \A i \in DOMAIN cs.keys :
     (\E x \in DOMAIN out.rels[j] : out.rels[j][x] = out.vm[i].id) <=> (Purposes[j] \in cs.keys[i].purposes)
ContextsCover == \A i \in DOMAIN cs.keys : \E x \in DOMAIN out.context : out.context[x] = CtxOf(cs.keys[i].type)
IdsQualified == \A i \in DOMAIN out.vm : (cs.base => out.vm[i].id = "#key" \o ToString(i)) /\ (~cs.base => out.vm[i].id = "DID#key" \o ToString(i))

KeyJson(k) == [type |-> k.type, purposes |-> k.purposes, material |-> k.material]
Emit == PrintT("CASE " \o ToJson([c |-> cs, out |-> out]))
=============================================================================
