---------------------------- MODULE MC_C03Trace ----------------------------
(***************************************************************************)
(* Direction B for C03: LONG random histories (beyond the exhaustive bound) *)
(* are resolved by the real processor; each recorded pair (store, observed  *)
(* view) is one trace event, accepted only if the observed view equals      *)
(* View(ResolveRef(store)).                                                 *)
(***************************************************************************)
EXTENDS MC_C03

VARIABLE l
Trace == ndJsonDeserialize("resolution_trace.ndjson")

TInit == Init /\ l = 1

StoreOf(ev) == {[sh |-> AlphaSeq[ev.ops[i].s], t |-> ev.ops[i].t, n |-> ev.ops[i].n, pub |-> ev.ops[i].pub] : i \in DOMAIN ev.ops}
ViewOf(ev) == [doc |-> ev.view.doc, uc |-> ev.view.uc, rc |-> ev.view.rc, deact |-> ev.view.deact, exists |-> ev.view.exists]

TStep == /\ l <= Len(Trace)
         /\ store' = StoreOf(Trace[l])
         /\ res' = View(ResolveRef(store'))
         /\ res' = ViewOf(Trace[l])          \* the real result must be the specification's
         /\ AnchorOriginOf(ResolveRef(store')) = Trace[l].view.ao
         /\ l' = l + 1
TNext == TStep

HW == TLCSet(1, IF l > TLCGet(1) THEN l ELSE TLCGet(1))
ASSUME TLCSet(1, 0)
TraceAccepted == TLCGet(1) = Len(Trace) + 1
Consumed == ConsumeOnce /\ NoRevisit
=============================================================================
