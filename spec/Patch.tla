-------------------------------- MODULE Patch --------------------------------
(***************************************************************************)
(* C17: patch application as an independent ordered-map model.             *)
(* A document has three ordered sections keyed by id (public keys,         *)
(* services) or by value (also-known-as URIs) plus other members.  A key   *)
(* or service entry is [id, v] - v stands for the entry's content.         *)
(* ApplyPatches(doc, list) either applies EVERY patch of the list or fails *)
(* as a whole; the input document is a value and cannot change.            *)
(*                                                                         *)
(* State machine: `doc' walks through all documents reachable from the     *)
(* empty one; each Apply step is one call with one patch list and is       *)
(* recorded in `edge' (emitted, then replayed on the real composer with a  *)
(* snapshot comparison of the input).                                      *)
(***************************************************************************)
EXTENDS Integers, Sequences, FiniteSets, SequencesExt, TLC, Json

CONSTANTS PatchAlphabet,   \* sequence of patches
          MaxList,         \* maximal patch-list length per call
          MaxCalls         \* documents reachable within this many calls are explored

VARIABLES doc, phase, edge, calls
vars == <<doc, phase, edge, calls>>

EmptyDoc == [keys |-> <<>>, svcs |-> <<>>, akas |-> <<>>, other |-> {}]

IdsOf(s) == {s[i].id : i \in DOMAIN s}
IndexOfId(s, id) == CHOOSE i \in DOMAIN s : s[i].id = id

(* ordered-set add: an existing id is replaced IN PLACE, a new id is appended; the ids already present are those of  *)
(* the section BEFORE the patch (a patch never repeats an id - that is what delta validation guarantees)             *)
RECURSIVE AddAll(_, _)
AddAll(section, entries) ==
  IF entries = <<>> THEN section
  ELSE LET e == Head(entries)
           s2 == IF e.id \in IdsOf(section) THEN [section EXCEPT ![IndexOfId(section, e.id)] = e] ELSE Append(section, e)
       IN AddAll(s2, Tail(entries))

RemoveIds(section, ids) == SelectSeq(section, LAMBDA e : e.id \notin ids)

RECURSIVE AddUris(_, _)
AddUris(akas, uris) ==
  IF uris = <<>> THEN akas
  ELSE AddUris(IF \E i \in DOMAIN akas : akas[i] = Head(uris) THEN akas ELSE Append(akas, Head(uris)), Tail(uris))

(* one patch: returns <<ok, doc>> *)
ApplyOne(d, p) ==
  CASE p.a = "addKeys"    -> <<TRUE, [d EXCEPT !.keys = AddAll(d.keys, p.entries)]>>
    [] p.a = "removeKeys" -> <<TRUE, [d EXCEPT !.keys = RemoveIds(d.keys, p.ids)]>>
    [] p.a = "addSvcs"    -> <<TRUE, [d EXCEPT !.svcs = AddAll(d.svcs, p.entries)]>>
    [] p.a = "removeSvcs" -> <<TRUE, [d EXCEPT !.svcs = RemoveIds(d.svcs, p.ids)]>>
    [] p.a = "addAkas"    -> <<TRUE, [d EXCEPT !.akas = AddUris(d.akas, p.uris)]>>
    [] p.a = "removeAkas" -> <<TRUE, [d EXCEPT !.akas = SelectSeq(d.akas, LAMBDA u : u \notin p.ids)]>>
    [] p.a = "replace"    -> <<TRUE, [keys |-> p.entries, svcs |-> p.entries2, akas |-> <<>>, other |-> {}]>>
    [] p.a = "jsonAdd"    -> <<TRUE, [d EXCEPT !.other = @ \cup p.ids]>>
    [] p.a = "jsonFail"   -> <<FALSE, d>>

RECURSIVE FoldPatches(_, _)
FoldPatches(d, list) ==
  IF list = <<>> THEN <<TRUE, d>>
  ELSE LET r == ApplyOne(d, Head(list))
       IN IF ~r[1] THEN <<FALSE, d>> ELSE FoldPatches(r[2], Tail(list))

(* all or nothing: when the k-th patch fails the result is an error and the ORIGINAL document *)
ApplyPatches(d, list) == LET r == FoldPatches(d, list) IN IF r[1] THEN r ELSE <<FALSE, d>>

(* document -> patches (the client's opaque-document conversion): sections in member-name order *)
FromDoc(d) ==
  (IF d.akas # <<>> THEN <<[a |-> "addAkas", entries |-> <<>>, entries2 |-> <<>>, ids |-> {}, uris |-> d.akas]>> ELSE <<>>)
  \o (IF d.keys # <<>> THEN <<[a |-> "addKeys", entries |-> d.keys, entries2 |-> <<>>, ids |-> {}, uris |-> <<>>]>> ELSE <<>>)
  \o (IF d.svcs # <<>> THEN <<[a |-> "addSvcs", entries |-> d.svcs, entries2 |-> <<>>, ids |-> {}, uris |-> <<>>]>> ELSE <<>>)
  \o (IF d.other # {} THEN <<[a |-> "jsonAdd", entries |-> <<>>, entries2 |-> <<>>, ids |-> d.other, uris |-> <<>>]>> ELSE <<>>)

Lists == UNION {[1..n -> DOMAIN PatchAlphabet] : n \in 1..MaxList}

Init == doc = EmptyDoc /\ phase = "doc" /\ edge = [none |-> TRUE] /\ calls = 0

Apply(idx) ==
  /\ phase = "doc" /\ calls < MaxCalls
  /\ LET list == [i \in DOMAIN idx |-> PatchAlphabet[idx[i]]]
         r == ApplyPatches(doc, list)
     IN /\ edge' = [from |-> doc, list |-> idx, ok |-> r[1], to |-> r[2]]
        /\ doc' = r[2]
  /\ phase' = "edge" /\ calls' = calls + 1

Continue == /\ phase = "edge" /\ phase' = "doc" /\ edge' = [none |-> TRUE] /\ UNCHANGED <<doc, calls>>

Next == (\E idx \in Lists : Apply(idx)) \/ Continue

---------------------------------------------------------------------------
UniqueIds(s) == \A i, j \in DOMAIN s : i # j => s[i].id # s[j].id
NoDupSeq(s) == \A i, j \in DOMAIN s : i # j => s[i] # s[j]
OrderedSets == UniqueIds(doc.keys) /\ UniqueIds(doc.svcs) /\ NoDupSeq(doc.akas)

(* failing as a whole: a failed call leaves the document as it was *)
Atomic == phase = "edge" => (~edge.ok => edge.to = edge.from)
(* in-place replacement keeps positions; new ids are appended *)
InPlace == phase = "edge" /\ edge.ok /\ Len(edge.list) = 1 /\ PatchAlphabet[edge.list[1]].a = "addKeys" =>
             LET old == edge.from.keys new == edge.to.keys IN
             /\ Len(new) >= Len(old)
             /\ \A i \in DOMAIN old : new[i].id = old[i].id
(* conversion round trip (all three sections non-empty) *)
RoundTrip == (doc.keys # <<>> /\ doc.svcs # <<>> /\ doc.akas # <<>>) => ApplyPatches(EmptyDoc, FromDoc(doc)) = <<TRUE, doc>>

ASSUME PrintT("ALPHA " \o ToJson(PatchAlphabet))
Emit == phase = "edge" => PrintT("CASE " \o ToJson([edge |-> edge, rt |-> (edge.to.keys # <<>> /\ edge.to.svcs # <<>> /\ edge.to.akas # <<>>)]))
=============================================================================
