\* C12 thorough: cyclic-commitment alphabet, <= 5 operations
INIT Init
NEXT Next
CONSTANTS
  AlphaSeq <- AlphaThorough
  Coords <- CoordsThorough
  MaxOps = 5
  AllowUnpub = FALSE
  Monotone = FALSE
  AttackerKeys = {8, 9}
INVARIANT TypeOK
INVARIANT ImplMatchesRef
INVARIANT ConsumeOnce
INVARIANT NoRevisit
INVARIANT LogBounded
INVARIANT EmitC12
CHECK_DEADLOCK FALSE
