\* C01 thorough: legit chain + forgeries, <= 4 operations
INIT Init
NEXT Next
CONSTANTS
  AlphaSeq <- AlphaThorough
  Coords <- CoordsThorough
  MaxOps = 4
  AllowUnpub = FALSE
  Monotone = FALSE
  AttackerKeys = {8, 9}
INVARIANT TypeOK
INVARIANT NoForgeryEffect
INVARIANT ImplMatchesRef
INVARIANT EmitC01
CHECK_DEADLOCK FALSE
