---------------------------- MODULE PipelineTrace ----------------------------
(***************************************************************************)
(* Trace validation for C15 / C20 / C04: the harness executes behaviours   *)
(* (TLC-generated or random) on the fully wired REAL pipeline and logs,    *)
(* per action, its arguments, the reply and the projected real state       *)
(* (queue ids, unpublished-store ids, store entries with their stamps,     *)
(* resolution views).  Each event must be the corresponding Pipeline       *)
(* action AND the logged state must equal the specification's.             *)
(***************************************************************************)
EXTENDS Pipeline

VARIABLE l
tvars == <<vars, l>>

Trace == ndJsonDeserialize("pipeline_trace.ndjson")

TInit == Init /\ l = 1
IsEv(e) == l <= Len(Trace) /\ Trace[l].ev = e /\ l' = l + 1

QIds(q)   == [i \in DOMAIN q |-> q[i].id]
SetOfSeq(s) == {s[i] : i \in DOMAIN s}
StoreProj(S) == {[id |-> o.id, t |-> o.t, n |-> o.n, ver |-> o.ver, ref |-> o.ref, eq |-> o.ref] : o \in S}

TSubmit ==
  /\ IsEv("Submit")
  /\ LET r == Trace[l] IN
     /\ Submit(r.d, r.k, IF r.addFails THEN "add" ELSE IF r.putFails THEN "put" ELSE "none")
     /\ last'.accepted = r.accepted                 \* the real reply
     /\ QIds(queue') = r.q                           \* the real queue
     /\ {u.id : u \in unpub'} = SetOfSeq(r.unpub)    \* the real unpublished store

TFlush ==
  /\ IsEv("Flush")
  /\ LET r == Trace[l] IN
     /\ Flush(r.fails)
     /\ SetOfSeq(last'.anchored) = SetOfSeq(r.anchored) /\ Len(last'.anchored) = Len(r.anchored)
     /\ QIds(queue') = r.q
     /\ {u.id : u \in unpub'} = SetOfSeq(r.unpub)    \* what the round left in the unpublished store

TGarbage == IsEv("Garbage") /\ Garbage
TDup     == IsEv("Dup") /\ Dup
TUpgrade == IsEv("Upgrade") /\ Upgrade
TClock   == IsEv("Clock") /\ Clock

TObserve ==
  /\ IsEv("Observe")
  /\ LET r == Trace[l] IN
     /\ Observe(r.f)
     /\ StoreProj(store') = SetOfSeq(r.store)        \* every stored operation with its stamps
     /\ Len(r.store) = Cardinality(store')           \* ... exactly once
     /\ {u.id : u \in unpub'} = SetOfSeq(r.unpub)
     /\ r.puts <= 1                                  \* a single all-or-nothing write per transaction

TResolve ==
  /\ IsEv("ResolveAll")
  /\ ResolveAll
  /\ \A d \in Dids : last'.views[d] = Trace[l].views[d]

TResolveHist ==
  /\ IsEv("ResolveHist")
  /\ ResolveHist
  /\ \A d \in Dids : \A T \in 1..Len(ledger) :
        /\ last'.times[d][T] = Trace[l].times[d][T]
        /\ last'.versions[d][T] = Trace[l].versions[d][T]
        \* an ANCHORED DID answers the same when asked for in long form (no fall-back to the embedded initial state)
        /\ (\E o \in store : o.d = d /\ o.sh.ty = "C") =>
              /\ last'.times[d][T] = Trace[l].timesLong[d][T]
              /\ last'.versions[d][T] = Trace[l].versionsLong[d][T]
  \* cuts that select nothing (version time before 1970; unknown version id) are errors, in short and in long form
  /\ \A d \in Dids : (\E o \in store : o.d = d /\ o.sh.ty = "C") =>
        \A k \in DOMAIN Trace[l].odd[d] : Trace[l].odd[d][k] = View(NoState)

TReset ==
  /\ IsEv("Reset")
  /\ client' = [d \in Dids |-> [created |-> FALSE, uk |-> 4, rk |-> 1, seq |-> 0, dead |-> FALSE]]
  /\ queue' = <<>> /\ unpub' = {} /\ ledger' = <<>> /\ observed' = 0 /\ store' = {}
  /\ curver' = 0 /\ nsub' = 0 /\ faults' = 0 /\ hist' = <<>> /\ last' = [a |-> "init"] /\ deferredEver' = FALSE
  /\ late' = FALSE /\ expiredEver' = FALSE

TNext == TSubmit \/ TFlush \/ TGarbage \/ TDup \/ TUpgrade \/ TClock \/ TObserve \/ TResolve \/ TResolveHist \/ TReset
TSpec == TInit /\ [][TNext]_tvars

HW == TLCSet(1, IF l > TLCGet(1) THEN l ELSE TLCGet(1))
ASSUME TLCSet(1, 0)
TraceAccepted == TLCGet(1) = Len(Trace) + 1
=============================================================================
