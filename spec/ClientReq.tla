------------------------------ MODULE ClientReq ------------------------------
(***************************************************************************)
(* C11: requests produced by the client request builders.  The case space  *)
(* is the product of the builder inputs that matter to the protocol; the   *)
(* expected outcome has three parts: intake accepts (Intake!Accept of the  *)
(* valid baseline), the request parses back to the inputs (the identity    *)
(* function - stated by the harness on the concrete values), and anchoring *)
(* it inside its window on a DID whose commitment matches produces exactly *)
(* the state change of the SidetreeCore state machine (computed here).     *)
(***************************************************************************)
EXTENDS SidetreeCore, TLC, Json

CONSTANTS Types, KeyTypes, Hashes, Windows, PatchClasses, Origins, Nonces

VARIABLES cs, out

Base == ApplyCreate([sh |-> [ty |-> "C", rk |-> 0, sig |-> "ok", nuc |-> 4, nrc |-> 1, dl |-> "ok", win |-> "none", p |-> 10, sfx |-> "ok"],
                     t |-> 0, n |-> 0, pub |-> TRUE])

WinClass(w) == IF w = "none" THEN "none" ELSE "in"

OpFor(c) ==
  [sh |-> [ty |-> c.ty, rk |-> IF c.ty = "U" THEN 4 ELSE 1, sig |-> "ok",
           nuc |-> IF c.ty = "D" THEN 0 ELSE 5, nrc |-> IF c.ty = "R" THEN 2 ELSE 0,
           dl |-> "ok", win |-> WinClass(c.win), p |-> 20, sfx |-> "ok"],
   t |-> 5, n |-> 1, pub |-> TRUE]

(* a create is its own DID: expected state is that of the create itself *)
Expected(c) == IF c.ty = "C" THEN View(ApplyCreate([sh |-> [ty |-> "C", rk |-> 0, sig |-> "ok", nuc |-> 5, nrc |-> 2, dl |-> "ok", win |-> "none", p |-> 20, sfx |-> "ok"],
                                                    t |-> 5, n |-> 1, pub |-> TRUE]))
               ELSE View(ApplyOp(Base, OpFor(c))[2])

Cases == [ty : Types, kt : KeyTypes, hash : Hashes, win : Windows, patches : PatchClasses, origin : Origins, nonce : Nonces]
Meaningful(c) == /\ (c.ty = "C" => c.win = "none" /\ c.nonce = "absent")     \* a create has no window and no signing key
                 /\ (c.ty = "D" => c.patches = "one" /\ c.origin = "none")   \* a deactivate has no delta
                 /\ (c.ty = "U" => c.origin = "none")                        \* an update carries no anchor origin

Init == cs \in {c \in Cases : Meaningful(c)} /\ out = [accept |-> TRUE, view |-> Expected(cs)]
Next == UNCHANGED <<cs, out>>

TakesEffect == out.view # View(Base) /\ out.view.exists
Emit == PrintT("CASE " \o ToJson([c |-> cs, out |-> out]))
=============================================================================
