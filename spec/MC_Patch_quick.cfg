\* C17 quick: 12 patches, lists of <= 2, documents reachable within 2 calls
INIT Init
NEXT Next
CONSTANTS
  PatchAlphabet <- AlphaQuick
  MaxList = 2
  MaxCalls = 2
INVARIANT OrderedSets
INVARIANT Atomic
INVARIANT InPlace
INVARIANT RoundTrip
INVARIANT Emit
CHECK_DEADLOCK FALSE
