\* C02, key re-use among competitors: 7 shapes (published only), 4 coordinates with non-monotone numbers, <= 4 operations
INIT Init
NEXT Next
CONSTANTS
  AlphaSeq <- AlphaReuse
  Coords <- CoordsReuse
  MaxOps = 4
  AllowUnpub = FALSE
  Monotone = FALSE
  AttackerKeys = {8, 9}
INVARIANT TypeOK
INVARIANT ImplMatchesRefAllOrders
INVARIANT CreateIsEarliest
INVARIANT EmitC02
CHECK_DEADLOCK FALSE
