\* C14 thorough: batches of <= 3 operations over 2 suffixes, every single and every pair of structural mutations, opaque fault classes
INIT Init
NEXT Next
CONSTANTS
  MaxBatch = 3
  Sfxs = {1, 2}
  MaxMut = 2
  OpaqueOn = TRUE
INVARIANT RoundTrip
INVARIANT ReadSafe
INVARIANT Emit
CHECK_DEADLOCK FALSE
