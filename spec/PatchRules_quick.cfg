\* C18 quick: baseline of every patch kind + every combination of up to 2 rule deviations; JSON patch operation space
INIT Init
NEXT Next
CONSTANTS
  MaxDev = 2
  JsonOps2 = FALSE
INVARIANT BaselinesValid
INVARIANT OneViolationSuffices
INVARIANT Emit
CHECK_DEADLOCK FALSE
