\* C19 thorough, part keys
INIT Init
NEXT Next
CONSTANTS
  MaxKeys = 2
  Part = "keys"
INVARIANT EachKeyOnce
INVARIANT RelationshipsExact
INVARIANT ContextsCover
INVARIANT IdsQualified
INVARIANT Emit
CHECK_DEADLOCK FALSE
