\* C02 thorough: 10 shapes x {published, unpublished}, 5 coordinates, <= 4 operations, all return orders
INIT Init
NEXT Next
CONSTANTS
  AlphaSeq <- AlphaThorough
  Coords <- CoordsThorough
  MaxOps = 4
  AllowUnpub = TRUE
  Monotone = FALSE
  AttackerKeys = {8, 9}
INVARIANT TypeOK
INVARIANT ImplMatchesRefAllOrders
INVARIANT CreateIsEarliest
INVARIANT EmitC02
CHECK_DEADLOCK FALSE
