---------------------------- MODULE SidetreeCore ----------------------------
(***************************************************************************)
(* The Sidetree DID state machine, written from the protocol rules (and    *)
(* the property statements C01..C06, C12), not transliterated from the Go  *)
(* code.  Pure operators only; the state machines that use them are in     *)
(* Resolution.tla, Pipeline.tla, Window.tla.                               *)
(*                                                                         *)
(* Abstraction.  Keys are positive integers; the commitment to key k is    *)
(* the integer k; NoC = 0 means "no commitment".  A document is the        *)
(* sequence of content tokens that were added to it (token p <-> public    *)
(* key "k<p>" in the concrete document).                                   *)
(*                                                                         *)
(* An operation SHAPE is a record with uniform fields                      *)
(*   ty   "C" | "U" | "R" | "D"                                            *)
(*   rk   key revealed (U: update key, R/D: recovery key), 0 for create    *)
(*   sig  "ok" | "bad" (signature bytes corrupted) | "payload" (signed     *)
(*        payload altered after signing) | "keymismatch" (reveal value is  *)
(*        rk's, but the JWS was made with - and carries - another key)     *)
(*   nuc  next update commitment   (C, U, R)                               *)
(*   nrc  next recovery commitment (R); C: the initial recovery commitment *)
(*   dl   delta class: "ok" | "fail" (valid, but its patches fail to       *)
(*        apply) | "invalid" (rejected by delta validation) | "mismatch"   *)
(*        (delta does not hash to the signed / suffix-data delta hash)     *)
(*        | "absent" (no delta member at all: treated like a mismatch)     *)
(*   win  "none" (no window declared) | "in" | "early" | "late"            *)
(*        | "until2" / "from2" (window edge exactly at transaction time 2) *)
(*   p    content token                                                    *)
(*   sfx  D only: "ok" | "bad" (signed suffix differs from request suffix) *)
(* An ANCHORED operation is [sh, t, n, pub]: shape, transaction time,      *)
(* transaction number, published (has a canonical reference) or not.       *)
(***************************************************************************)
EXTENDS Integers, Sequences, FiniteSets, SequencesExt, FiniteSetsExt

NoC == 0

---------------------------------------------------------------------------
(* Anchoring order: transaction time, then transaction number; published   *)
(* operations precede unpublished ones.                                    *)
Before(a, b) == \/ a.t < b.t
                \/ a.t = b.t /\ a.n < b.n

Earlier(a, b) == IF a.pub # b.pub THEN a.pub ELSE Before(a, b)

SortOps(S) == SortSeq(SetToSeq(S), Earlier)

---------------------------------------------------------------------------
(* Resolution state.  lt/ln: coordinates of the last applied operation.    *)
(* log: the sequence of consumed commitments with the operation applied    *)
(* for each - a history component used only by invariants.                 *)
NoState == [doc |-> <<>>, uc |-> NoC, rc |-> NoC, deact |-> FALSE,
            lt |-> 0, ln |-> 0, exists |-> FALSE, log |-> <<>>]

(* "until2": the declared window ends exactly at transaction time 2 (inclusive); "from2": it begins exactly there *)
InWin(o) == \/ o.sh.win \in {"none", "in"}
            \/ o.sh.win = "until2" /\ o.t <= 2
            \/ o.sh.win = "from2" /\ o.t >= 2
            \/ o.sh.win = "until500" /\ o.t <= 500    \* Pipeline: in window at every ledger time, out of it as an unpublished operation

LogEntry(chain, c, o) == [chain |-> chain, c |-> c, ty |-> o.sh.ty, t |-> o.t, n |-> o.n, pub |-> o.pub, p |-> o.sh.p,
                          nc |-> IF o.sh.ty = "U" THEN o.sh.nuc ELSE IF o.sh.ty = "R" THEN o.sh.nrc ELSE NoC]

(* create: fixes the recovery commitment; update commitment and document   *)
(* only if the delta is usable.                                            *)
ApplyCreate(o) ==
  LET s    == o.sh
      base == [doc |-> <<>>, uc |-> NoC, rc |-> s.nrc, deact |-> FALSE,
               lt |-> o.t, ln |-> o.n, exists |-> TRUE,
               log |-> <<LogEntry("create", NoC, o)>>]
  IN CASE s.dl \in {"mismatch", "invalid", "absent"} -> base
       [] s.dl = "fail"                    -> [base EXCEPT !.uc = s.nuc]
       [] OTHER                            -> [base EXCEPT !.uc = s.nuc, !.doc = <<s.p>>]

(* Each Apply... returns <<took effect?, new state>>.                      *)
ApplyUpdate(st, o) ==
  LET s == o.sh IN
  IF s.sig # "ok" \/ s.dl \in {"mismatch", "invalid", "absent"} THEN <<FALSE, st>>
  ELSE LET adv == [st EXCEPT !.uc = s.nuc, !.lt = o.t, !.ln = o.n,
                             !.log = Append(@, LogEntry("uc", st.uc, o))]
       IN IF ~InWin(o) \/ s.dl = "fail" THEN <<TRUE, adv>>
          ELSE <<TRUE, [adv EXCEPT !.doc = Append(st.doc, s.p)]>>

ApplyRecover(st, o) ==
  LET s == o.sh IN
  IF s.sig # "ok" THEN <<FALSE, st>>
  ELSE LET base == [st EXCEPT !.doc = <<>>, !.uc = NoC, !.rc = s.nrc, !.lt = o.t, !.ln = o.n,
                              !.log = Append(@, LogEntry("rc", st.rc, o))]
       IN CASE s.dl \in {"mismatch", "invalid", "absent"} -> <<TRUE, base>>
            [] ~InWin(o) \/ s.dl = "fail"       -> <<TRUE, [base EXCEPT !.uc = s.nuc]>>
            [] OTHER                            -> <<TRUE, [base EXCEPT !.uc = s.nuc, !.doc = <<s.p>>]>>

ApplyDeactivate(st, o) ==
  LET s == o.sh IN
  IF s.sig # "ok" \/ s.sfx # "ok" \/ ~InWin(o) THEN <<FALSE, st>>
  ELSE <<TRUE, [st EXCEPT !.doc = <<>>, !.uc = NoC, !.rc = NoC, !.deact = TRUE, !.lt = o.t, !.ln = o.n,
                          !.log = Append(@, LogEntry("rc", st.rc, o))]>>

(* Anchor origin: fixed by the create (it is part of the suffix data that   *)
(* defines the DID: token 0), replaced by every applied recover with the   *)
(* recover's own (token = the recover's content token p), left alone by    *)
(* update and deactivate.  Derived from the log; -1: no such DID.          *)
AnchorOriginOf(st) ==
  LET rs == SelectSeq(st.log, LAMBDA e : e.ty = "R")
  IN IF ~st.exists THEN -1 ELSE IF rs = <<>> THEN 0 ELSE rs[Len(rs)].p

ApplyOp(st, o) ==
  CASE o.sh.ty = "U" -> ApplyUpdate(st, o)
    [] o.sh.ty = "R" -> ApplyRecover(st, o)
    [] o.sh.ty = "D" -> ApplyDeactivate(st, o)

(* The commitment an operation would put in force for its own chain.       *)
NextC(o) == CASE o.sh.ty = "U" -> o.sh.nuc
              [] o.sh.ty = "R" -> o.sh.nrc
              [] o.sh.ty = "D" -> NoC

(* An operation is a candidate for commitment c iff it reveals the key     *)
(* committed to by c AND the revealed key is the one inside its signed     *)
(* data (otherwise its reveal value is a lie and it is not even looked     *)
(* at).  A recover that re-commits to the key it reveals is unparseable.   *)
Candidate(o, c) == /\ o.sh.rk = c
                   /\ o.sh.sig # "keymismatch"
                   /\ ~(o.sh.ty = "R" /\ o.sh.nrc = o.sh.rk)
                   /\ ~(o.sh.ty = "D" /\ o.sh.sfx # "ok")

(* o may be applied for commitment c when its next commitment neither      *)
(* equals c nor was consumed earlier in this chain, and it takes effect.   *)
Usable(o, st, c, used) ==
  LET nc == NextC(o) IN
  /\ nc # c
  /\ ~(nc # NoC /\ nc \in used)
  /\ ApplyOp(st, o)[1]

---------------------------------------------------------------------------
(* Declarative form: for the commitment in force, the EARLIEST usable      *)
(* candidate wins.  `used' grows by one per step, so the recursion depth   *)
(* is bounded by the number of distinct commitments.                       *)
RECURSIVE ChainRef(_, _, _, _)
ChainRef(S, st, sel, used) ==
  LET c    == IF sel = "rc" THEN st.rc ELSE st.uc
      good == {o \in S : Candidate(o, c) /\ Usable(o, st, c, used)}
  IN IF c = NoC \/ good = {} THEN st
     ELSE LET w == CHOOSE o \in good : \A q \in good : q = o \/ Earlier(o, q)
          IN ChainRef(S, ApplyOp(st, w)[2], sel, used \cup {c})

(* An update counts only if unpublished or anchored strictly after the     *)
(* last applied create / recover.                                          *)
After(o, st) == ~o.pub \/ st.lt < o.t \/ (st.lt = o.t /\ st.ln < o.n)

FirstCreate(S) ==
  LET cs == {o \in S : o.sh.ty = "C"}
  IN IF cs = {} THEN {} ELSE {CHOOSE o \in cs : \A q \in cs : q = o \/ Earlier(o, q)}

ResolveRef(S) ==
  LET fc == FirstCreate(S)
  IN IF fc = {} THEN NoState
     ELSE LET s0 == ApplyCreate(CHOOSE o \in fc : TRUE)
              s1 == ChainRef({o \in S : o.sh.ty \in {"R", "D"}}, s0, "rc", {})
          IN IF s1.deact THEN s1
             ELSE ChainRef({o \in S : o.sh.ty = "U" /\ After(o, s1)}, s1, "uc", {})

---------------------------------------------------------------------------
(* Algorithmic form, shaped like the implementation: the store hands back  *)
(* the operations in SOME order `ret'; they are sorted with a comparator    *)
(* (insertion sort, so that a comparator that is not a strict weak order   *)
(* makes the outcome depend on `ret', as it does with a library sort),     *)
(* published ++ unpublished, split by type, the first create is taken,     *)
(* then for each commitment in force the candidates are scanned in order   *)
(* and the first usable one is applied.                                    *)
Less(a, b) == Before(a, b)       \* the comparator under design review

RECURSIVE InsertSorted(_, _)
InsertSorted(seq, o) ==
  IF seq = <<>> THEN <<o>>
  ELSE IF Less(o, Head(seq)) THEN <<o>> \o seq
       ELSE <<Head(seq)>> \o InsertSorted(Tail(seq), o)

RECURSIVE InsertionSort(_)
InsertionSort(seq) == IF seq = <<>> THEN <<>> ELSE InsertSorted(InsertionSort(Tail(seq)), Head(seq))

RECURSIVE FirstUsable(_, _, _, _)
FirstUsable(cands, st, c, used) ==
  IF cands = <<>> THEN <<FALSE, st>>
  ELSE IF Usable(Head(cands), st, c, used) THEN ApplyOp(st, Head(cands))
       ELSE FirstUsable(Tail(cands), st, c, used)

RECURSIVE ChainImpl(_, _, _, _)
ChainImpl(ops, st, sel, used) ==
  LET c     == IF sel = "rc" THEN st.rc ELSE st.uc
      cands == SelectSeq(ops, LAMBDA o : Candidate(o, c))
  IN IF c = NoC \/ cands = <<>> THEN st
     ELSE LET r == FirstUsable(cands, st, c, used)
          IN IF ~r[1] THEN st ELSE ChainImpl(ops, r[2], sel, used \cup {c})

SortedImpl(ret) ==
  InsertionSort(SelectSeq(ret, LAMBDA o : o.pub)) \o InsertionSort(SelectSeq(ret, LAMBDA o : ~o.pub))

ResolveSorted(sorted) ==
  LET creates == SelectSeq(sorted, LAMBDA o : o.sh.ty = "C")
      fulls   == SelectSeq(sorted, LAMBDA o : o.sh.ty \in {"R", "D"})
      upds    == SelectSeq(sorted, LAMBDA o : o.sh.ty = "U")
  IN IF creates = <<>> THEN NoState
     ELSE LET s0 == ApplyCreate(Head(creates))
              s1 == ChainImpl(fulls, s0, "rc", {})
          IN IF s1.deact THEN s1
             ELSE ChainImpl(SelectSeq(upds, LAMBDA o : After(o, s1)), s1, "uc", {})

ResolveImpl(ret) == ResolveSorted(SortedImpl(ret))

---------------------------------------------------------------------------
(* Historical resolution.  A version id is the coordinate pair of a        *)
(* published operation (its canonical reference).                          *)
TruncT(S, T) == {o \in S : o.t <= T}
TruncV(S, V) == {o \in S : o.pub /\ (o.t < V[1] \/ (o.t = V[1] /\ o.n <= V[2]))}
KnownV(S, V) == \E o \in S : o.pub /\ o.t = V[1] /\ o.n = V[2]

(* implementation-shaped: cut the sorted list *)
RECURSIVE PrefixUpTo(_, _)
PrefixUpTo(seq, V) ==
  IF seq = <<>> THEN <<>>
  ELSE IF Head(seq).pub /\ Head(seq).t = V[1] /\ Head(seq).n = V[2] THEN <<Head(seq)>>
       ELSE <<Head(seq)>> \o PrefixUpTo(Tail(seq), V)

ResolveImplAtV(ret, V) == ResolveSorted(PrefixUpTo(SortedImpl(ret), V))
ResolveImplAtT(ret, T) == ResolveSorted(SelectSeq(SortedImpl(ret), LAMBDA o : o.t <= T))

---------------------------------------------------------------------------
(* Observable part of a state (what the properties speak about).           *)
View(st) == [doc |-> st.doc, uc |-> st.uc, rc |-> st.rc, deact |-> st.deact, exists |-> st.exists]

(* Authorisation in the sense of C01.  Attacker keys are never committed   *)
(* to by the owner.                                                        *)
Unauthorised(sh, AttackerKeys) ==
  /\ sh.ty # "C"
  /\ \/ sh.sig # "ok"
     \/ sh.rk \in AttackerKeys
     \/ (sh.ty = "U" /\ sh.dl \in {"mismatch", "absent"})

Legit(S, AttackerKeys) ==
  {o \in S : IF o.sh.ty = "C" THEN o \in FirstCreate(S) ELSE ~Unauthorised(o.sh, AttackerKeys)}

(* Invariants over a resolved state's log. *)
ChainCs(st, chain) == SelectSeq(st.log, LAMBDA e : e.chain = chain)
NoRepeat(seq) == \A i, j \in DOMAIN seq : i # j => seq[i].c # seq[j].c
SingleConsume(st) == NoRepeat(ChainCs(st, "rc")) /\ NoRepeat(ChainCs(st, "uc"))
=============================================================================
