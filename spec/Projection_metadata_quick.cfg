\* C19 quick, part metadata
INIT Init
NEXT Next
CONSTANTS
  MaxKeys = 1
  Part = "metadata"
INVARIANT EachKeyOnce
INVARIANT RelationshipsExact
INVARIANT ContextsCover
INVARIANT IdsQualified
INVARIANT Emit
CHECK_DEADLOCK FALSE
