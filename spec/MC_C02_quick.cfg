\* C02 quick: 8 shapes x {published, unpublished}, 4 coordinates with non-monotone numbers, <= 3 operations,
\* design check over ALL return orders of the store
INIT Init
NEXT Next
CONSTANTS
  AlphaSeq <- AlphaQuick
  Coords <- CoordsQuick
  MaxOps = 3
  AllowUnpub = TRUE
  Monotone = FALSE
  AttackerKeys = {8, 9}
INVARIANT TypeOK
INVARIANT ImplMatchesRefAllOrders
INVARIANT CreateIsEarliest
INVARIANT EmitC02
CHECK_DEADLOCK FALSE
