\* C07 thorough: key sets of 2..3 names over a 19-name alphabet; number layout for <= 2 digits x 37 exponents x sign; malformed classes
INIT Init
NEXT Next
CONSTANTS
  MaxKeys = 4
  MaxDigits = 3
INVARIANT OrderIsTotal
INVARIANT Utf16NotCodePoint
INVARIANT FixedRange
INVARIANT Emit
CHECK_DEADLOCK FALSE
