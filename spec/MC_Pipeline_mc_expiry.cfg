\* exhaustive check of the design with expiring updates: 2 DIDs, <= 4 submissions, <= 3 ledger entries, no faults, one version
INIT Init
NEXT Next
CONSTANTS
  Dids <- D2
  MaxSubmits = 4
  MaxLedger = 3
  MaxFaults = 0
  UnpubOn = TRUE
  TwoVersions = FALSE
  Expiry = TRUE
  KeepExpiredUnpublished = FALSE
  MaxSteps = 0
VIEW MCView
INVARIANT OnePerSuffixPerTxn
INVARIANT Stamped
INVARIANT AllOrNothing
INVARIANT NoTrace
INVARIANT DeactivatedRefuses
INVARIANT IntendedState
INVARIANT NoOrphanUnpublished
INVARIANT QuiescentMeansPublished
PROPERTY HistoryStable
CHECK_DEADLOCK FALSE
