----------------------------- MODULE WriterProp -----------------------------
(***************************************************************************)
(* C16 as a specification: what a batch writer over a FIFO operation queue *)
(* must do, stated at the level of its observable effects (operations      *)
(* entering the queue, leaving it, being anchored, discarded as expired,   *)
(* deferred and re-queued, or returned after a failure).  It is the        *)
(* property, not the algorithm: BatchWriter.tla (the implementation-shaped *)
(* model with Len / Peek / Remove / CAS writes / anchor write / ack / nack *)
(* as separate steps) is checked to REFINE it, and traces recorded from    *)
(* the real writer are validated against it (WriterPropTrace.tla).         *)
(*                                                                         *)
(* An operation is a record [id, sfx, ver]: identity, DID suffix, protocol *)
(* version (genesis time) it was queued under.                             *)
(***************************************************************************)
EXTENDS Integers, Sequences, FiniteSets, SequencesExt

CONSTANTS MaxCount,       \* maximum operation count per batch of protocol version 0
          MaxCountLater   \* ... of every later protocol version (a batch is bounded by the maximum of the version
                          \* its operations were queued under, whatever the current version is)
MaxOf(v) == IF v = 0 THEN MaxCount ELSE MaxCountLater

VARIABLES q,          \* the operation queue (sequence of operations)
          infl,       \* the batch removed from the queue and not yet anchored or returned
          anchored,   \* sequence of successfully anchored batches (sequences of operations)
          discarded,  \* set of ids the operation handler discarded as expired
          deferred,   \* set of operations deferred from an anchored batch, not yet re-queued
          accepted,   \* set of ids ever accepted
          force       \* was the current processing round started by the batch timeout?

pvars == <<q, infl, anchored, discarded, deferred, accepted, force>>

IdsOf(s)  == {s[i].id : i \in DOMAIN s}
IdSet(S)  == {o.id : o \in S}
SeqSet(s) == {s[i] : i \in DOMAIN s}

PInit == /\ q = <<>> /\ infl = <<>> /\ anchored = <<>> /\ discarded = {} /\ deferred = {}
         /\ accepted = {} /\ force = FALSE

(* A client submission is accepted: the operation joins the tail. *)
PAdd(o) ==
  /\ o.id \notin accepted
  /\ q' = Append(q, o)
  /\ accepted' = accepted \cup {o.id}
  /\ UNCHANGED <<infl, anchored, discarded, deferred, force>>

(* A processing round starts (monitor tick: f = FALSE; batch timeout: f = TRUE). *)
PTick(f) == /\ force' = f
            /\ UNCHANGED <<q, infl, anchored, discarded, deferred, accepted>>

(* A batch leaves the queue: a non-empty PREFIX (FIFO), at most MaxCount,  *)
(* one protocol version; shorter than MaxCount only in a forced round or   *)
(* when the next queued operation belongs to another protocol version.     *)
PCut(n) ==
  /\ infl = <<>>
  /\ n \in 1..Len(q) /\ n <= MaxOf(q[1].ver)
  /\ \A i \in 1..n : q[i].ver = q[1].ver
  /\ \/ n = MaxOf(q[1].ver)
     \/ force
     \/ n < Len(q) /\ q[n + 1].ver # q[1].ver
  /\ infl' = SubSeq(q, 1, n)
  /\ q' = SubSeq(q, n + 1, Len(q))
  /\ UNCHANGED <<anchored, discarded, deferred, accepted, force>>

(* The batch is anchored: the in-flight operations are partitioned into    *)
(* included (pairwise distinct suffixes), expired (discarded) and deferred *)
(* (their suffix already has an included operation).                       *)
PAnchor(inc, exp, def) ==
  /\ infl # <<>>
  /\ IdsOf(inc) \cup exp \cup IdSet(def) = IdsOf(infl)
  /\ IdsOf(inc) \cap exp = {} /\ IdsOf(inc) \cap IdSet(def) = {} /\ exp \cap IdSet(def) = {}
  /\ SeqSet(inc) \subseteq SeqSet(infl) /\ def \subseteq SeqSet(infl)
  /\ \A i, j \in DOMAIN inc : i # j => inc[i].sfx # inc[j].sfx /\ inc[i].id # inc[j].id
  /\ \A d \in def : \E i \in DOMAIN inc : inc[i].sfx = d.sfx
  /\ anchored' = Append(anchored, inc)
  /\ discarded' = discarded \cup exp
  /\ deferred' = deferred \cup def
  /\ infl' = <<>>
  /\ UNCHANGED <<q, accepted, force>>

(* A deferred operation is queued again (the property does not say where). *)
PReAdd(o, pos) ==
  /\ o \in deferred
  /\ pos \in 0..Len(q)
  /\ q' = SubSeq(q, 1, pos) \o <<o>> \o SubSeq(q, pos + 1, Len(q))
  /\ deferred' = deferred \ {o}
  /\ UNCHANGED <<infl, anchored, discarded, accepted, force>>

(* The batch could not be written or anchored: it returns to the HEAD of   *)
(* the queue in its original order.                                        *)
PNack ==
  /\ infl # <<>>
  /\ q' = infl \o q
  /\ infl' = <<>>
  /\ UNCHANGED <<anchored, discarded, deferred, accepted, force>>

---------------------------------------------------------------------------
AnchoredOps == UNION {SeqSet(anchored[i]) : i \in DOMAIN anchored}

RECURSIVE TotalLen(_)
TotalLen(s) == IF s = <<>> THEN 0 ELSE Len(Head(s)) + TotalLen(Tail(s))

(* none lost, none duplicated - as sets AND as counts *)
Conservation ==
  /\ accepted = IdsOf(q) \cup IdsOf(infl) \cup IdSet(AnchoredOps) \cup discarded \cup IdSet(deferred)
  /\ Cardinality(accepted) = Len(q) + Len(infl) + TotalLen(anchored) + Cardinality(discarded) + Cardinality(deferred)

BatchBounds ==
  \A i \in DOMAIN anchored :
    /\ anchored[i] # <<>> => Len(anchored[i]) <= MaxOf(anchored[i][1].ver)
    /\ \A a, b \in DOMAIN anchored[i] : anchored[i][a].ver = anchored[i][b].ver
    /\ \A a, b \in DOMAIN anchored[i] : a # b => anchored[i][a].sfx # anchored[i][b].sfx

Quiescent == q = <<>> /\ infl = <<>> /\ deferred = {}

(* at quiescence every accepted operation is anchored exactly once or was discarded as expired *)
ExactlyOnceAtRest == Quiescent => /\ accepted = IdSet(AnchoredOps) \cup discarded
                                  /\ Cardinality(accepted) = TotalLen(anchored) + Cardinality(discarded)
=============================================================================
