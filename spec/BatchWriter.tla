---------------------------- MODULE BatchWriter ----------------------------
(***************************************************************************)
(* The batch writer as the code runs it: one action per critical section   *)
(* or external call of batch.Writer / cutter.BatchCutter / MemQueue /      *)
(* OperationHandler / AnchorWriter:                                        *)
(*                                                                         *)
(*   ClientAdd      a submission is appended to the queue (atomic under    *)
(*                  the queue lock) - enabled at ANY time, in particular   *)
(*                  between any two steps of the writer goroutine          *)
(*   Tick(f)        monitor tick (f = FALSE) or batch timeout (f = TRUE):  *)
(*                  a processing round starts with the "drain" phase       *)
(*   LenRead        cutter reads the queue length                          *)
(*   Peek           cutter peeks min(pending, max) and keeps the           *)
(*                  same-protocol-version prefix                           *)
(*   QRemove        cutter removes that many operations from the head      *)
(*   PrepareOk / PrepareFail(k)  the handler writes the batch files; the   *)
(*                  k-th CAS write may fail                                *)
(*   AnchorOk / AnchorFail       the anchor string is written              *)
(*   ReAdd          a deferred operation is re-queued (writer goroutine)   *)
(*   Ack / Nack     the removal is committed / rolled back to the head     *)
(*                                                                         *)
(* The k-th client submission has the fixed attributes AddScript[k]; what  *)
(* varies is WHERE it is interleaved.  `hist' records the action labels    *)
(* (for schedule generation); it is hidden by VIEW in pure model checking. *)
(***************************************************************************)
EXTENDS Integers, Sequences, FiniteSets, TLC, SequencesExt, Json

CONSTANTS AddScript,     \* sequence of [sfx, ver, exp] - attributes of the k-th submission
          MaxCount,      \* protocol's maximum operation count
          MaxFaults,     \* fault budget (CAS write / anchor write failures)
          MaxTicks,      \* bound on processing rounds
          MaxCasK,       \* CAS write ordinals that may fail: 1..MaxCasK
          BuggyCutter    \* TRUE: the cutter treats protocol version 0 as "unset" (the defect found in the code)

VARIABLES queue, inflight, wpc, phase, force, pend, bsize, anchored, expiredOut, nextId, faults, readd, accepted, ticks, hist

vars == <<queue, inflight, wpc, phase, force, pend, bsize, anchored, expiredOut, nextId, faults, readd, accepted, ticks, hist>>
View == <<queue, inflight, wpc, phase, force, pend, bsize, anchored, expiredOut, nextId, faults, readd, accepted, ticks>>

Ids(s) == {s[i].id : i \in DOMAIN s}
Min2(a, b) == IF a < b THEN a ELSE b
H(x) == hist' = Append(hist, x)

Init == /\ queue = <<>> /\ inflight = <<>> /\ wpc = "idle" /\ phase = "none" /\ force = FALSE /\ pend = 0 /\ bsize = 0
        /\ anchored = <<>> /\ expiredOut = {} /\ nextId = 1 /\ faults = 0 /\ readd = <<>> /\ accepted = {}
        /\ ticks = 0 /\ hist = <<>>

ClientAdd ==
  /\ nextId <= Len(AddScript)
  /\ LET a == AddScript[nextId] IN queue' = Append(queue, [id |-> nextId, sfx |-> a.sfx, ver |-> a.ver, exp |-> a.exp])
  /\ accepted' = accepted \cup {nextId}
  /\ nextId' = nextId + 1
  /\ H("A")
  /\ UNCHANGED <<inflight, wpc, phase, force, pend, bsize, anchored, expiredOut, faults, readd, ticks>>

\* MaxTicks = 0 means "no bound on rounds" (liveness configuration)
Tick(f) == /\ wpc = "idle" /\ (MaxTicks = 0 \/ ticks < MaxTicks)
           /\ wpc' = "len" /\ phase' = "drain" /\ force' = f /\ ticks' = IF MaxTicks = 0 THEN 0 ELSE ticks + 1
           /\ H(IF f THEN "T1" ELSE "T0")
           /\ UNCHANGED <<queue, inflight, pend, bsize, anchored, expiredOut, nextId, faults, readd, accepted>>

(* Cut(force): pending := Len; drain phase: nothing to do below MaxCount - *)
(* then, in a forced round with pending > 0, the forced cut re-reads Len.  *)
LenRead ==
  /\ wpc = "len"
  /\ pend' = Len(queue)
  /\ IF phase = "drain" /\ Len(queue) < MaxCount
     THEN IF force /\ Len(queue) > 0 THEN phase' = "forced" /\ wpc' = "len" ELSE phase' = "none" /\ wpc' = "idle"
     ELSE phase' = phase /\ wpc' = "peek"
  /\ H("L")
  /\ UNCHANGED <<queue, inflight, force, bsize, anchored, expiredOut, nextId, faults, readd, accepted, ticks>>

RECURSIVE PrefLen(_, _, _)
PrefLen(s, i, v) == IF i > Len(s) \/ s[i].ver # v THEN i - 1 ELSE PrefLen(s, i + 1, v)
RECURSIVE BuggyPref(_, _, _)
BuggyPref(s, i, v) == IF i > Len(s) THEN i - 1
                      ELSE LET vv == IF v = 0 THEN s[i].ver ELSE v
                           IN IF s[i].ver # vv THEN i - 1 ELSE BuggyPref(s, i + 1, vv)

Peek ==
  /\ wpc = "peek"
  /\ LET n    == Min2(pend, MaxCount)
         head == SubSeq(queue, 1, Min2(n, Len(queue)))
         k    == IF head = <<>> THEN 0 ELSE IF BuggyCutter THEN BuggyPref(head, 1, 0) ELSE PrefLen(head, 1, head[1].ver)
     IN /\ bsize' = k
        /\ IF k = 0 THEN wpc' = "idle" /\ phase' = "none" ELSE wpc' = "remove" /\ phase' = phase
  /\ H("P")
  /\ UNCHANGED <<queue, inflight, force, pend, anchored, expiredOut, nextId, faults, readd, accepted, ticks>>

QRemove ==
  /\ wpc = "remove"
  /\ LET n == Min2(bsize, Len(queue)) IN
     /\ inflight' = SubSeq(queue, 1, n)
     /\ queue' = SubSeq(queue, n + 1, Len(queue))
  /\ wpc' = "prepare"
  /\ H("R")
  /\ UNCHANGED <<phase, force, pend, bsize, anchored, expiredOut, nextId, faults, readd, accepted, ticks>>

(* the handler's partition of a batch: expired operations are discarded;   *)
(* of the live ones the first per suffix is included, the others deferred  *)
Live(s)        == SelectSeq(s, LAMBDA o : ~o.exp)
FirstOfSfx(l, i) == \A j \in 1..(i - 1) : l[j].sfx # l[i].sfx
IncSeq(s) == LET l == Live(s) IN SelectSeq(l, LAMBDA o : \A j \in DOMAIN l : (l[j].id = o.id) => FirstOfSfx(l, j))
DefSeq(s) == LET l == Live(s) IN SelectSeq(l, LAMBDA o : \A j \in DOMAIN l : (l[j].id = o.id) => ~FirstOfSfx(l, j))
ExpIds(s) == Ids(s) \ Ids(Live(s))

PrepareOk ==
  /\ wpc = "prepare" /\ wpc' = "anchor" /\ H("C")
  /\ UNCHANGED <<queue, inflight, phase, force, pend, bsize, anchored, expiredOut, nextId, faults, readd, accepted, ticks>>

PrepareFail(k) ==
  /\ wpc = "prepare" /\ faults < MaxFaults
  /\ faults' = faults + 1 /\ wpc' = "nack" /\ H("Cf" \o ToString(k))
  /\ UNCHANGED <<queue, inflight, phase, force, pend, bsize, anchored, expiredOut, nextId, readd, accepted, ticks>>

AnchorOk ==
  /\ wpc = "anchor"
  /\ anchored' = Append(anchored, IncSeq(inflight))
  /\ expiredOut' = expiredOut \cup ExpIds(inflight)
  /\ readd' = DefSeq(inflight)
  /\ wpc' = "readd" /\ H("W")
  /\ UNCHANGED <<queue, inflight, phase, force, pend, bsize, nextId, faults, accepted, ticks>>

AnchorFail ==
  /\ wpc = "anchor" /\ faults < MaxFaults
  /\ faults' = faults + 1 /\ wpc' = "nack" /\ H("Wf")
  /\ UNCHANGED <<queue, inflight, phase, force, pend, bsize, anchored, expiredOut, nextId, readd, accepted, ticks>>

ReAdd ==
  /\ wpc = "readd"
  /\ IF readd = <<>> THEN wpc' = "ack" /\ UNCHANGED <<queue, readd, hist>>
     ELSE queue' = Append(queue, Head(readd)) /\ readd' = Tail(readd) /\ wpc' = wpc /\ H("Ra")
  /\ UNCHANGED <<inflight, phase, force, pend, bsize, anchored, expiredOut, nextId, faults, accepted, ticks>>

Ack ==
  /\ wpc = "ack"
  /\ inflight' = <<>>
  /\ IF phase = "drain" THEN wpc' = "len" /\ phase' = phase ELSE wpc' = "idle" /\ phase' = "none"
  /\ H("K")
  /\ UNCHANGED <<queue, force, pend, bsize, anchored, expiredOut, nextId, faults, readd, accepted, ticks>>

Nack ==
  /\ wpc = "nack"
  /\ queue' = inflight \o queue
  /\ inflight' = <<>>
  /\ wpc' = "idle" /\ phase' = "none" /\ H("N")
  /\ UNCHANGED <<force, pend, bsize, anchored, expiredOut, nextId, faults, readd, accepted, ticks>>

Writer == LenRead \/ Peek \/ QRemove \/ PrepareOk \/ (\E k \in 1..MaxCasK : PrepareFail(k))
          \/ AnchorOk \/ AnchorFail \/ ReAdd \/ Ack \/ Nack
Next == ClientAdd \/ (\E f \in BOOLEAN : Tick(f)) \/ Writer

Spec == Init /\ [][Next]_vars
(* liveness: the writer goroutine keeps stepping (weak fairness) and the batch timeout fires again and again although it is
   disabled while a round runs (strong fairness); faults are finite (budget) *)
FairSpec == Spec /\ WF_vars(Writer) /\ SF_vars(Tick(TRUE))

---------------------------------------------------------------------------
(* Invariants of the algorithm. *)
AnchoredIds == UNION {Ids(anchored[i]) : i \in DOMAIN anchored}
RECURSIVE SumLen(_)
SumLen(i) == IF i = 0 THEN 0 ELSE Len(anchored[i]) + SumLen(i - 1)
InflightIds == IF wpc \in {"readd", "ack"} THEN Ids(readd) ELSE Ids(inflight)

Conservation ==
  /\ accepted = Ids(queue) \cup InflightIds \cup AnchoredIds \cup expiredOut
  /\ Cardinality(accepted) = Len(queue) + Cardinality(InflightIds) + SumLen(Len(anchored)) + Cardinality(expiredOut)

BatchBounds == \A i \in DOMAIN anchored :
  /\ Len(anchored[i]) <= MaxCount
  /\ \A a, b \in DOMAIN anchored[i] : anchored[i][a].ver = anchored[i][b].ver
  /\ \A a, b \in DOMAIN anchored[i] : a # b => anchored[i][a].sfx # anchored[i][b].sfx

InflightOneVersion == \A a, b \in DOMAIN inflight : inflight[a].ver = inflight[b].ver

---------------------------------------------------------------------------
(* Refinement: every step of the algorithm is a step (or a stuttering      *)
(* step) of the property specification WriterProp under the mapping below. *)
Proj(s) == [i \in DOMAIN s |-> [id |-> s[i].id, sfx |-> s[i].sfx, ver |-> s[i].ver]]
ProjSet(s) == {Proj(s)[i] : i \in DOMAIN s}

Abs == INSTANCE WriterProp WITH
         q <- Proj(queue),
         infl <- IF wpc \in {"prepare", "anchor", "nack"} THEN Proj(inflight) ELSE <<>>,
         anchored <- [i \in DOMAIN anchored |-> Proj(anchored[i])],
         discarded <- expiredOut,
         deferred <- IF wpc = "readd" THEN ProjSet(readd) ELSE {},
         accepted <- accepted,
         MaxCountLater <- MaxCount,
         force <- force

RefAdd     == [][ClientAdd => Abs!PAdd(Proj(queue')[Len(queue')])]_vars
RefTick    == [][(\E f \in BOOLEAN : Tick(f)) => Abs!PTick(force')]_vars
RefCut     == [][QRemove => Abs!PCut(Len(inflight'))]_vars
RefAnchor  == [][AnchorOk => Abs!PAnchor(Proj(IncSeq(inflight)), ExpIds(inflight), ProjSet(DefSeq(inflight)))]_vars
RefReAdd   == [][(ReAdd /\ readd # <<>>) => Abs!PReAdd(Proj(readd)[1], Len(queue))]_vars
RefNack    == [][Nack => Abs!PNack]_vars
RefSilent  == [][(LenRead \/ Peek \/ PrepareOk \/ (\E k \in 1..MaxCasK : PrepareFail(k)) \/ AnchorFail \/ Ack \/ (ReAdd /\ readd = <<>>))
                  => UNCHANGED Abs!pvars]_vars
AbsConservation == Abs!Conservation
AbsBatchBounds  == Abs!BatchBounds

(* Liveness (small configuration, FairSpec): every accepted operation is eventually anchored or discarded. *)
EventuallyAnchored == \A i \in 1..Len(AddScript) : (i \in accepted) ~> (i \in AnchoredIds \cup expiredOut)

---------------------------------------------------------------------------
(* Schedule emission: one line per complete behaviour: all submissions made and the writer idle with either the    *)
(* queue empty or the round budget used up (the harness then adds fault-free forced rounds until rest).            *)
Final == nextId > Len(AddScript) /\ wpc = "idle" /\ (queue = <<>> \/ ticks = MaxTicks)
NextGen == ~Final /\ Next
EmitSchedule == Final => PrintT("CASE " \o ToJson([hist |-> hist, anchored |-> [i \in DOMAIN anchored |-> [j \in DOMAIN anchored[i] |-> anchored[i][j].id]],
                                                   expired |-> expiredOut, faults |-> faults, queue |-> [i \in DOMAIN queue |-> queue[i].id]]))
=============================================================================
