INIT TInit
NEXT TNext
CONSTANTS
  Dids = {1, 2}
  MaxSubmits = 1000
  MaxLedger = 1000
  MaxFaults = 1000
  UnpubOn = TRUE
  TwoVersions = TRUE
  Expiry = FALSE
  KeepExpiredUnpublished = FALSE
  MaxSteps = 0
INVARIANT OnePerSuffixPerTxn
INVARIANT Stamped
INVARIANT AllOrNothing
INVARIANT FailedTxnIsolated
INVARIANT NoTrace
INVARIANT DeactivatedRefuses
CONSTRAINT HW
POSTCONDITION TraceAccepted
CHECK_DEADLOCK FALSE
