\* exhaustive check of the writer algorithm: 4 scripted submissions at every interleaving, MaxCount 2, <= 2 faults, <= 4 rounds
INIT Init
NEXT Next
CONSTANTS
  AddScript <- Script4
  MaxCount = 2
  MaxFaults = 2
  MaxTicks = 4
  MaxCasK = 1
  BuggyCutter = FALSE
VIEW View
INVARIANT Conservation
INVARIANT BatchBounds
INVARIANT InflightOneVersion
INVARIANT AbsConservation
INVARIANT AbsBatchBounds
PROPERTY RefAdd
PROPERTY RefTick
PROPERTY RefCut
PROPERTY RefAnchor
PROPERTY RefReAdd
PROPERTY RefNack
PROPERTY RefSilent
CHECK_DEADLOCK FALSE
