\* liveness of the writer algorithm under fairness (small): every accepted operation is eventually anchored or discarded
SPECIFICATION FairSpec
CONSTANTS
  AddScript <- ScriptA
  MaxCount = 2
  MaxFaults = 1
  MaxTicks = 0
  MaxCasK = 1
  BuggyCutter = FALSE
VIEW View
PROPERTY EventuallyAnchored
CHECK_DEADLOCK FALSE
