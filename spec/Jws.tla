--------------------------------- MODULE Jws ---------------------------------
(***************************************************************************)
(* C09: JWS verification with symbolic cryptography.  A signature is the   *)
(* term Sig(key, header value, payload); what the code is asked to verify  *)
(* is described by how the presented compact JWS and key deviate from the  *)
(* genuine ones.  Accept is the property: exactly what the given key       *)
(* signed.  The ECDSA twin (r, n-s) of a genuine signature is the one      *)
(* tolerated alternative ("either").  Malformed compact strings and JWKs   *)
(* form a second, flat class list whose expected outcome is always         *)
(* "error" (never a panic, never acceptance).                              *)
(***************************************************************************)
EXTENDS Integers, Sequences, FiniteSets, TLC, Json

VARIABLES cs, out

KeyTypes == 0..4                 \* Ed25519, P-256, P-384, P-521, secp256k1
IsECDSA(kt) == kt # 0

SigForms == {"genuine", "twin", "flippedByte", "truncated", "extended", "resizedHalves", "empty", "zeroes", "otherKeySameType", "otherKeyOtherType"}
HdrTampers == {"none", "algChanged", "memberAdded", "whitespaceOnly"}
PayloadTampers == {"none", "byteChanged", "byteAppended"}
VerifyKeys == {"signer", "otherSameType", "otherType"}

Cases == {c \in [kt : KeyTypes, sig : SigForms, hdr : HdrTampers, payload : PayloadTampers, key : VerifyKeys] :
            c.sig = "twin" => IsECDSA(c.kt)}

(* who made the presented signature, and over which header it was made *)
Expected(c) ==
  IF c.payload # "none" THEN "reject"                                   \* nobody signed that payload
  ELSE IF c.sig = "otherKeySameType"                                    \* made by the other key of the same type over the SAME header
  THEN IF c.key = "otherSameType" /\ c.hdr = "none" THEN "accept"
       ELSE IF c.key = "otherSameType" /\ c.hdr = "whitespaceOnly" THEN "either"
       ELSE "reject"
  ELSE IF c.sig = "otherKeyOtherType"                                   \* made by a key of another type over a header naming ITS algorithm
  THEN IF c.key = "otherType" /\ c.hdr = "algChanged" THEN "either" ELSE "reject"
  ELSE IF c.hdr \in {"algChanged", "memberAdded"} \/ c.key # "signer" THEN "reject"
  ELSE IF c.sig = "genuine" THEN (IF c.hdr = "whitespaceOnly" THEN "either" ELSE "accept")
  ELSE IF c.sig = "twin" THEN "either"
  ELSE "reject"

Init == cs \in Cases /\ out = Expected(cs)
Next == UNCHANGED <<cs, out>>

(* the property, restated on the table *)
MadeBy(c) == CASE c.sig = "otherKeySameType" -> "otherSameType" [] c.sig = "otherKeyOtherType" -> "otherType" [] OTHER -> "signer"
OnlyGenuineAccepted == out = "accept" => (cs.sig \in {"genuine", "otherKeySameType"} /\ cs.key = MadeBy(cs) /\ cs.payload = "none" /\ cs.hdr = "none")
ForeignKeyRejected  == cs.key # MadeBy(cs) => out = "reject"
TamperRejected      == (cs.payload # "none" \/ cs.hdr = "memberAdded" \/ (cs.hdr = "algChanged" /\ cs.sig # "otherKeyOtherType")) => out = "reject"

Emit == PrintT("CASE " \o ToJson([c |-> cs, out |-> out]))

MalformedCompact == {"twoParts", "fourParts", "badB64Header", "badB64Payload", "badB64Signature", "headerNotJson", "headerArray", "headerNoAlg",
                     "b64NotBoolean", "emptyPayload", "emptySignature", "jsonSerialization", "emptyString", "onlyDots", "headerNull",
                     \* an alg member that names no algorithm (null, "", number, boolean, array, object);
                     \* segments that are not base64url (RFC 7515 section 2): a line break in / after a segment, a last character with stray bits
                     "headerAlgNotAString", "lineBreakInSegment", "strayBitsInSegment", "strayBitsInHeaderSegment"}
(* what the library's own signing utility is asked to sign: it either refuses, or what it returns verifies *)
SignedPayloads == {"empty", "oneByte", "json", "binary"}
MalformedJWK == {"unknownKty", "unknownCrv", "missingX", "shortX", "longX", "zeroPaddedX", "zeroPaddedY", "strippedY", "offCurve", "badB64X", "ktyCrvMismatch", "emptyFields", "missingY", "yOnOKP", "zeroPoint",
                 \* JWK member values are case-sensitive: another letter case of a known kty / crv is an unknown one
                 "ktyLetterCase", "crvLetterCase"}
ASSUME PrintT("MALFORMED " \o ToJson([compact |-> MalformedCompact, jwk |-> MalformedJWK, payloads |-> SignedPayloads]))
=============================================================================
