------------------------------ MODULE MC_C12 ------------------------------
(* C12 (resolution half): chains cannot loop.  Self-loops, 2- and 3-cycles *)
(* in the update and in the recovery chain, at every chain position.       *)
EXTENDS Resolution

AlphaQuick == <<
  C(1, 4, "ok", 10),
  U(4, 4, "ok", "ok", "none", 11),
  U(4, 5, "ok", "ok", "none", 12),
  U(5, 4, "ok", "ok", "none", 13),
  U(5, 5, "ok", "ok", "none", 14),
  U(5, 6, "ok", "ok", "none", 15),
  U(6, 4, "ok", "ok", "none", 16),
  U(6, 5, "ok", "ok", "none", 17),
  R(1, 1, 4, "ok", "ok", "none", 30),
  R(1, 2, 4, "ok", "ok", "none", 31),
  R(2, 1, 5, "ok", "ok", "none", 32),
  R(2, 3, 5, "ok", "ok", "none", 33),
  R(3, 1, 6, "ok", "ok", "none", 34),
  R(3, 2, 6, "ok", "ok", "none", 35)
>>
AlphaThorough == AlphaQuick \o << U(6, 7, "ok", "ok", "none", 18), D(3, "ok", "ok", "none") >>
CoordsQuick    == {<<1, 0>>, <<2, 1>>, <<2, 2>>, <<3, 0>>}
CoordsThorough == {<<1, 0>>, <<1, 1>>, <<2, 1>>, <<2, 2>>, <<3, 0>>}

(* non-trivial: some stored operation would close a cycle (its next commitment was consumed before or is its own) *)
HasLoop == LET st == ResolveRef(store) IN
  \E o \in store : o.sh.ty # "C" /\ (NextC(o) = o.sh.rk \/ \E i \in DOMAIN st.log : st.log[i].c = NextC(o) /\ st.log[i].c # NoC)
EmitC12 == PrintT("CASE " \o ToJson([ops |-> OpsJson, res |-> res, ao |-> AoNow, na |-> IF HasLoop THEN 1 ELSE 0]))
=============================================================================
