------------------------------- MODULE Window -------------------------------
(***************************************************************************)
(* C05: the anchoring-time window.  The protocol configuration is a        *)
(* VARIABLE of the model, so that the parameter that governs the window    *)
(* (maxOperationTimeDelta) and the unrelated ones (decoys) are varied      *)
(* independently - the only way a "wrong parameter" defect shows up.       *)
(*                                                                         *)
(* A case = [ty, from, until, t, delta, decoy].  from/until = 0 means      *)
(* "not declared".  The expected effect is computed with the state machine *)
(* of SidetreeCore from the window CLASS of the case.                      *)
(***************************************************************************)
EXTENDS SidetreeCore, TLC, Json

CONSTANTS Types, Froms, Untils, Times, Deltas, Decoys

VARIABLES cs, out

\* configuration values (a .cfg file cannot write a negative number)
FromsQuick    == {-1} \cup 0..4
FromsThorough == {-1} \cup 0..6

\* A NEGATIVE anchorFrom (-1; concretised as a negative number of seconds, far before every anchoring time of the model)
\* without anchorUntil: the default end from + delta lies before every anchoring time as well (abstractly -1), unless the
\* delta is the largest configurable one (the default end saturates: never expires)
InfDelta == 1000000
\* the anchoring time 2000000 stands for a transaction time beyond the signed 64-bit range (concretised as 2^63): later than
\* every declared or default window end, even the saturated one - and still inside the window of an operation that declares none
EffUntil(from, until, delta) == IF from < 0 /\ until = 0 THEN (IF delta = InfDelta THEN from + delta ELSE -1)
                                ELSE IF from # 0 /\ until = 0 THEN from + delta ELSE until

InWindow(from, until, t, delta) ==
  \/ from = 0 /\ until = 0
  \/ from <= t /\ t <= EffUntil(from, until, delta)

WinClass(from, until, t, delta) ==
  IF from = 0 /\ until = 0 THEN "none"
  ELSE IF from > t THEN "early"
  ELSE IF EffUntil(from, until, delta) < t THEN "late"
  ELSE "in"

\* the DID before the operation: created at (0, 0) with recovery key 1, update key 4, content 10
Base == ApplyCreate([sh |-> [ty |-> "C", rk |-> 0, sig |-> "ok", nuc |-> 4, nrc |-> 1, dl |-> "ok", win |-> "none", p |-> 10, sfx |-> "ok"],
                     t |-> 0, n |-> 0, pub |-> TRUE])

OpFor(c) ==
  LET w == WinClass(c.from, c.until, c.t, c.delta) IN
  [sh |-> [ty |-> c.ty, rk |-> IF c.ty = "U" THEN 4 ELSE 1, sig |-> "ok",
           nuc |-> IF c.ty = "D" THEN 0 ELSE 5, nrc |-> IF c.ty = "R" THEN 2 ELSE 0,
           dl |-> "ok", win |-> w, p |-> 20, sfx |-> "ok"],
   t |-> c.t, n |-> 1, pub |-> TRUE]

Expected(c) == View(ApplyOp(Base, OpFor(c))[2])

\* outcome class, for the evidence and the non-triviality rule
Outcome(c) ==
  LET r == ApplyOp(Base, OpFor(c)) IN
  IF ~r[1] THEN "ignored"
  ELSE IF c.ty = "D" THEN "applied"
  ELSE IF (c.ty = "U" /\ r[2].doc = Base.doc) \/ (c.ty = "R" /\ r[2].doc = <<>>) THEN "commitment-only" ELSE "applied"

\* from = -1 stands for a NEGATIVE anchorFrom (a declared bound before every anchoring time; concretised as a negative
\* number of seconds), with an explicit anchorUntil or with the default end (see EffUntil)
Cases == [ty : Types, from : Froms, until : Untils, t : Times, delta : Deltas, decoy : Decoys]

Init == /\ cs \in Cases
        /\ out = [view |-> Expected(cs), class |-> Outcome(cs),
                  validatorArgs |-> <<cs.from, EffUntil(cs.from, cs.until, cs.delta)>>]
Next == UNCHANGED <<cs, out>>

---------------------------------------------------------------------------
(* The window rule stated directly (C05), against the state machine.       *)
WindowEffect ==
  LET in == InWindow(cs.from, cs.until, cs.t, cs.delta) IN
  /\ in => out.class = "applied"
  /\ (~in /\ cs.ty \in {"U", "R"}) => out.class = "commitment-only"
  /\ (~in /\ cs.ty = "D") => out.class = "ignored"

(* The window depends on no other parameter. *)
OnlyDelta == \A d \in Decoys : Expected([cs EXCEPT !.decoy = d]) = out.view

NearEdge == \/ cs.from # 0 /\ (cs.t - cs.from) \in {-1, 0, 1}
            \/ LET u == EffUntil(cs.from, cs.until, cs.delta) IN (cs.from # 0 \/ cs.until # 0) /\ (cs.t - u) \in {-1, 0, 1}

Emit == PrintT("CASE " \o ToJson([c |-> cs, out |-> out, edge |-> NearEdge]))
=============================================================================
