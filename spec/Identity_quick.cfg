\* C08: hash / validate / commit / long-form case families x both hash algorithms
INIT Init
NEXT Next
INVARIANT ValueOnly
INVARIANT BindsContent
INVARIANT RevealBindsKey
INVARIANT Emit
CHECK_DEADLOCK FALSE
