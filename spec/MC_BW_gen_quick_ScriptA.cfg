\* schedule generation (history variable is part of the state: one state per behaviour prefix)
INIT Init
NEXT NextGen
CONSTANTS
  AddScript <- ScriptA
  MaxCount = 2
  MaxFaults = 1
  MaxTicks = 2
  MaxCasK = 2
  BuggyCutter = FALSE
INVARIANT Conservation
INVARIANT BatchBounds
INVARIANT EmitSchedule
CHECK_DEADLOCK FALSE
