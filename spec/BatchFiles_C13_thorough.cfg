\* C13 quick: every batch of <= 4 queued operations over 3 suffixes x 4 types x expired flag (no mutations)
INIT Init
NEXT Next
CONSTANTS
  MaxBatch = 4
  Sfxs = {1, 2, 3}
  MaxMut = 0
  OpaqueOn = FALSE
INVARIANT RoundTrip
INVARIANT Accounting
INVARIANT CountAgrees
INVARIANT OrderCRUD
INVARIANT Emit
CHECK_DEADLOCK FALSE
