\* C10 quick: valid baseline of each type + every combination of up to 2 single-rule deviations
INIT Init
NEXT Next
CONSTANTS
  MaxDev = 2
INVARIANT BoundaryExact
INVARIANT OneViolationSuffices
INVARIANT Recommit
INVARIANT Emit
CHECK_DEADLOCK FALSE
