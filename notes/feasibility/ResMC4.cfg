INIT Init
NEXT Next
CONSTANTS
  Alphabet <- AlphaSet
  Coords <- CoordsSmall
  MaxOps = 3
INVARIANT NoForgeryEffect
INVARIANT EmitC
CHECK_DEADLOCK FALSE
