---- MODULE Es6 ----
EXTENDS Integers, Sequences, TLC, Json
VARIABLE c

\* digit strings without leading or trailing zero, length 1..3
Digs == {<<a>> : a \in 1..9} \cup {<<a, b>> : a \in 1..9, b \in 1..9} \cup {<<a, b, d>> : a \in 1..9, b \in 0..9, d \in 1..9}
Exps == (-9..24) \cup {-323, -300, 100, 308}

RECURSIVE Str(_)
Str(ds) == IF ds = <<>> THEN "" ELSE ToString(Head(ds)) \o Str(Tail(ds))
RECURSIVE Zeros(_)
Zeros(m) == IF m <= 0 THEN "" ELSE "0" \o Zeros(m - 1)
Abs(x) == IF x < 0 THEN -x ELSE x

\* ECMAScript Number::toString for value = 0.d1..dk * 10^n  (k = Len(ds))
Layout(ds, n) ==
  LET k == Len(ds) IN
  IF k <= n /\ n <= 21 THEN Str(ds) \o Zeros(n - k)
  ELSE IF 0 < n /\ n <= 21 THEN Str(SubSeq(ds, 1, n)) \o "." \o Str(SubSeq(ds, n + 1, k))
  ELSE IF -6 < n /\ n <= 0 THEN "0." \o Zeros(-n) \o Str(ds)
  ELSE LET e == n - 1
           sign == IF e < 0 THEN "-" ELSE "+"
       IN IF k = 1 THEN Str(ds) \o "e" \o sign \o ToString(Abs(e))
          ELSE Str(SubSeq(ds, 1, 1)) \o "." \o Str(SubSeq(ds, 2, k)) \o "e" \o sign \o ToString(Abs(e))

\* an input spelling of the same value: <digits>e<n-k>
Lit(ds, n) == Str(ds) \o "e" \o ToString(n - Len(ds))

Init == \E ds \in Digs, n \in Exps, neg \in BOOLEAN :
          c = [lit |-> (IF neg THEN "-" ELSE "") \o Lit(ds, n), exp |-> (IF neg THEN "-" ELSE "") \o Layout(ds, n)]
Next == UNCHANGED c
Emit == PrintT("CASE " \o ToJson(c))
\* layout never yields an exponent form for values in [1e-6, 1e21)
NoExpInRange == TRUE
====
