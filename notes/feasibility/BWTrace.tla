---- MODULE BWTrace ----
EXTENDS BW, Json
VARIABLE l
Trace == ndJsonDeserialize("bw_trace.ndjson")
tvars == <<vars, l>>
TInit == Init /\ l = 1
IsEv(e) == l <= Len(Trace) /\ Trace[l].ev = e /\ l' = l + 1
\* logged projection of the queue after the step
QIds(q) == [i \in DOMAIN q |-> q[i].id]
TAdd == IsEv("Add") /\ LET r == Trace[l] IN
          /\ \/ ClientAdd(r.sfx, r.ver, r.exp)
             \/ (ReAdd /\ readd # <<>>)
          /\ QIds(queue') = r.q
TTick == IsEv("Tick") /\ \E f \in BOOLEAN : Tick(f)          \* force flag not logged: TLC infers it
TLen == IsEv("Len") /\ LenRead /\ pend' = Trace[l].n
TPeek == IsEv("Peek") /\ Peek /\ bsize' = Trace[l].k
TRemove == IsEv("Remove") /\ QRemove /\ QIds(inflight') = Trace[l].ids
TCasFail == IsEv("CasFail") /\ Prepare /\ wpc' = "nack"
TCasOk == IsEv("CasOk") /\ Prepare /\ wpc' = "anchor"
TAnchor == IsEv("Anchor") /\ Anchor /\ wpc' = "readd" /\ QIds(anchored'[Len(anchored')]) = Trace[l].ids
TAnchorFail == IsEv("AnchorFail") /\ Anchor /\ wpc' = "nack"
TAck == IsEv("Ack") /\ Ack
TNack == IsEv("Nack") /\ Nack /\ QIds(queue') = Trace[l].q
\* silent: end of the re-add loop is not observable
Silent == ReAdd /\ readd = <<>> /\ UNCHANGED l
TNext == TAdd \/ TTick \/ TLen \/ TPeek \/ TRemove \/ TCasFail \/ TCasOk \/ TAnchor \/ TAnchorFail \/ TAck \/ TNack \/ Silent
TSpec == TInit /\ [][TNext]_tvars
\* high-water mark of consumed events (silent steps make diameter unusable)
HW == TLCSet(1, IF l > TLCGet(1) THEN l ELSE TLCGet(1))
TraceAccepted == TLCGet(1) = Len(Trace) + 1
ASSUME TLCSet(1, 0)
====
