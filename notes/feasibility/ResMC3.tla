---- MODULE ResMC3 ----
EXTENDS Res
U(rk, nuc, sig, dl, win, p, legit) == [ty |-> "U", rk |-> rk, nuc |-> nuc, sig |-> sig, dl |-> dl, win |-> win, p |-> p, legit |-> legit, nrc |-> 0, sfx |-> "ok", rc |-> 0]
R(rk, nrc, nuc, sig, dl, win, p, legit) == [ty |-> "R", rk |-> rk, nrc |-> nrc, nuc |-> nuc, sig |-> sig, dl |-> dl, win |-> win, p |-> p, legit |-> legit, sfx |-> "ok", rc |-> 0]
D(rk, sig, sfx, win, legit) == [ty |-> "D", rk |-> rk, sig |-> sig, sfx |-> sfx, win |-> win, legit |-> legit, nrc |-> 0, nuc |-> 0, dl |-> "ok", p |-> 0, rc |-> 0]
C(rc, nuc, dl, p) == [ty |-> "C", rc |-> rc, nuc |-> nuc, dl |-> dl, p |-> p, rk |-> 0, sig |-> "ok", win |-> "none", legit |-> TRUE, nrc |-> 0, sfx |-> "ok"]
AlphaSeq == <<
  C(1, 4, "ok", 10), C(1, 4, "mismatch", 99),
  U(4, 5, "ok", "ok", "none", 11, TRUE),
  U(4, 6, "ok", "ok", "none", 12, TRUE),
  U(4, 7, "bad", "ok", "none", 13, FALSE),
  U(5, 6, "ok", "ok", "none", 14, TRUE),
  U(5, 4, "ok", "ok", "none", 15, TRUE),
  U(4, 5, "ok", "fail", "none", 16, TRUE),
  U(4, 5, "ok", "ok", "late", 17, TRUE),
  R(1, 2, 4, "ok", "ok", "none", 20, TRUE),
  R(1, 2, 4, "bad", "ok", "none", 21, FALSE),
  R(1, 2, 5, "ok", "mismatch", "none", 22, TRUE),
  D(1, "ok", "ok", "none", TRUE),
  D(2, "ok", "ok", "none", TRUE),
  D(1, "bad", "ok", "none", FALSE),
  U(7, 7, "ok", "ok", "none", 30, FALSE)
>>
AlphaSet == {AlphaSeq[i] : i \in DOMAIN AlphaSeq}
Sid(sh) == CHOOSE i \in DOMAIN AlphaSeq : AlphaSeq[i] = sh
CoordsSmall == {<<1,0>>, <<2,0>>, <<3,0>>, <<4,0>>}
EmitC == PrintT("CASE " \o ToJson([ops |-> {[s |-> Sid(o.sh), t |-> o.t, n |-> o.n] : o \in store}, res |-> res]))
EmitAlpha == PrintT("ALPHA " \o ToJson(AlphaSeq))
ASSUME EmitAlpha
====
