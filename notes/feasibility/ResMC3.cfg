INIT Init
NEXT Next
CONSTANTS
  Alphabet <- AlphaSet
  Coords <- CoordsSmall
  MaxOps = 4
INVARIANT NoForgeryEffect
INVARIANT EmitC
CHECK_DEADLOCK FALSE
