---- MODULE Res ----
EXTENDS Integers, Sequences, FiniteSets, TLC, Json, SequencesExt, FiniteSetsExt

CONSTANTS Alphabet,      \* set of op shapes
          Coords,        \* set of <<t, n>> anchoring coordinates
          MaxOps

VARIABLES store, res

NoC == 0

\* ---- ordering ----
Before(a, b) == \/ a.t < b.t
                \/ a.t = b.t /\ a.n < b.n

\* published first, then by (t, n)
Earlier(a, b) == IF a.pub # b.pub THEN a.pub ELSE Before(a, b)

SortOps(S) == SortSeq(SetToSeq(S), Earlier)

\* ---- per-type effect ----
Empty == [doc |-> <<>>, uc |-> NoC, rc |-> NoC, deact |-> FALSE, lt |-> 0, ln |-> 0, exists |-> FALSE]

InWin(o) == o.sh.win \in {"none", "in"}

ApplyCreate(o) ==
  LET s == o.sh
      base == [doc |-> <<>>, uc |-> NoC, rc |-> s.rc, deact |-> FALSE, lt |-> o.t, ln |-> o.n, exists |-> TRUE]
  IN CASE s.dl \in {"mismatch", "invalid"} -> base
       [] s.dl = "fail" -> [base EXCEPT !.uc = s.nuc]
       [] OTHER -> [base EXCEPT !.uc = s.nuc, !.doc = <<s.p>>]

\* returns <<applied?, newstate>>
ApplyUpdate(st, o) ==
  LET s == o.sh IN
  IF s.sig # "ok" \/ s.dl \in {"mismatch", "invalid"} THEN <<FALSE, st>>
  ELSE LET adv == [st EXCEPT !.uc = s.nuc, !.lt = o.t, !.ln = o.n]
       IN IF ~InWin(o) \/ s.dl = "fail" THEN <<TRUE, adv>>
          ELSE <<TRUE, [adv EXCEPT !.doc = Append(st.doc, s.p)]>>

ApplyRecover(st, o) ==
  LET s == o.sh IN
  IF s.sig # "ok" THEN <<FALSE, st>>
  ELSE LET base == [st EXCEPT !.doc = <<>>, !.uc = NoC, !.rc = s.nrc, !.lt = o.t, !.ln = o.n]
       IN CASE s.dl \in {"mismatch", "invalid"} -> <<TRUE, base>>
            [] ~InWin(o) \/ s.dl = "fail" -> <<TRUE, [base EXCEPT !.uc = s.nuc]>>
            [] OTHER -> <<TRUE, [base EXCEPT !.uc = s.nuc, !.doc = <<s.p>>]>>

ApplyDeact(st, o) ==
  LET s == o.sh IN
  IF s.sig # "ok" \/ s.sfx # "ok" \/ ~InWin(o) THEN <<FALSE, st>>
  ELSE <<TRUE, [st EXCEPT !.doc = <<>>, !.uc = NoC, !.rc = NoC, !.deact = TRUE, !.lt = o.t, !.ln = o.n]>>

ApplyOp(st, o) ==
  CASE o.sh.ty = "U" -> ApplyUpdate(st, o)
    [] o.sh.ty = "R" -> ApplyRecover(st, o)
    [] o.sh.ty = "D" -> ApplyDeact(st, o)

NextC(o) == CASE o.sh.ty = "U" -> o.sh.nuc
              [] o.sh.ty = "R" -> o.sh.nrc
              [] o.sh.ty = "D" -> NoC

\* parseable: reveal value extractable (sig "keymismatch" makes parse fail)
Parses(o) == o.sh.sig # "keymismatch"

\* first applicable candidate in seq cands for commitment c
RECURSIVE FirstValid(_, _, _, _)
FirstValid(cands, st, c, used) ==
  IF cands = <<>> THEN <<FALSE, st>>
  ELSE LET o == Head(cands)
           nc == NextC(o)
       IN IF nc = c \/ (nc # NoC /\ nc \in used)
          THEN FirstValid(Tail(cands), st, c, used)
          ELSE LET r == ApplyOp(st, o)
               IN IF r[1] THEN r ELSE FirstValid(Tail(cands), st, c, used)

RECURSIVE Chain(_, _, _, _)
\* ops: sorted seq of candidate ops; sel: "rc" or "uc"
Chain(ops, st, sel, used) ==
  LET c == IF sel = "rc" THEN st.rc ELSE st.uc
      cands == SelectSeq(ops, LAMBDA o : Parses(o) /\ o.sh.rk = c)
  IN IF c = NoC \/ cands = <<>> THEN st
     ELSE LET r == FirstValid(cands, st, c, used)
          IN IF ~r[1] THEN st
             ELSE Chain(ops, r[2], sel, used \cup {c})

After(o, st) == ~o.pub \/ st.lt < o.t \/ (st.lt = o.t /\ st.ln < o.n)

Resolve(S) ==
  LET sorted == SortOps(S)
      creates == SelectSeq(sorted, LAMBDA o : o.sh.ty = "C")
      fulls == SelectSeq(sorted, LAMBDA o : o.sh.ty \in {"R", "D"})
      upds == SelectSeq(sorted, LAMBDA o : o.sh.ty = "U")
  IN IF creates = <<>> THEN Empty
     ELSE LET s0 == ApplyCreate(Head(creates))
              s1 == Chain(fulls, s0, "rc", {})
          IN IF s1.deact THEN s1
             ELSE Chain(SelectSeq(upds, LAMBDA o : After(o, s1)), s1, "uc", {})

View(st) == [doc |-> st.doc, uc |-> st.uc, rc |-> st.rc, deact |-> st.deact, exists |-> st.exists]

\* ---- forgery ----
FirstCreate(S) == LET cs == {o \in S : o.sh.ty = "C"}
                  IN IF cs = {} THEN {} ELSE {CHOOSE o \in cs : \A p \in cs : p = o \/ Earlier(o, p)}
Legit(S) == {o \in S : (o.sh.ty = "C" /\ o \in FirstCreate(S)) \/ (o.sh.ty # "C" /\ o.sh.legit)}

\* ---- state machine ----
UsedCoords == {<<o.t, o.n>> : o \in store}

Init == store = {} /\ res = View(Empty)

Anchor(sh, c) ==
  /\ Cardinality(store) < MaxOps
  /\ c \notin UsedCoords
  /\ store' = store \cup {[sh |-> sh, t |-> c[1], n |-> c[2], pub |-> TRUE]}
  /\ res' = View(Resolve(store'))

Next == \E sh \in Alphabet, c \in Coords : Anchor(sh, c)

NoForgeryEffect == View(Resolve(store)) = View(Resolve(Legit(store)))

Emit == PrintT("CASE " \o ToJson([store |-> store, res |-> res]))
====
