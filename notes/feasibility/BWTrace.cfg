INIT TInit
NEXT TNext
CONSTANTS
  MaxAdds = 10
  Sfx = {1, 2}
  Vers = {0, 5}
  MaxCount = 2
  MaxFaults = 5
  BuggyCutter = FALSE
INVARIANT Conservation
INVARIANT BatchBounds
CONSTRAINT HW
POSTCONDITION TraceAccepted
CHECK_DEADLOCK FALSE
