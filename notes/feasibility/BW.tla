---- MODULE BW ----
EXTENDS Integers, Sequences, FiniteSets, TLC, SequencesExt, FiniteSetsExt
CONSTANTS MaxAdds, Sfx, Vers, MaxCount, MaxFaults, BuggyCutter
VARIABLES queue, inflight, wpc, phase, force, pend, bsize, anchored, expired, nextId, faults, readd, accepted
vars == <<queue, inflight, wpc, phase, force, pend, bsize, anchored, expired, nextId, faults, readd, accepted>>

Ids(s) == {s[i].id : i \in DOMAIN s}
Min2(a, b) == IF a < b THEN a ELSE b

Init == /\ queue = <<>> /\ inflight = <<>> /\ wpc = "idle" /\ phase = "none" /\ force = FALSE /\ pend = 0 /\ bsize = 0
        /\ anchored = <<>> /\ expired = {} /\ nextId = 1 /\ faults = 0 /\ readd = <<>> /\ accepted = {}

ClientAdd(s, v, e) ==
  /\ nextId <= MaxAdds
  /\ queue' = Append(queue, [id |-> nextId, sfx |-> s, ver |-> v, exp |-> e])
  /\ accepted' = accepted \cup {nextId}
  /\ nextId' = nextId + 1
  /\ UNCHANGED <<inflight, wpc, phase, force, pend, bsize, anchored, expired, faults, readd>>

Tick(f) == /\ wpc = "idle" /\ wpc' = "len" /\ phase' = "drain" /\ force' = f
           /\ UNCHANGED <<queue, inflight, pend, bsize, anchored, expired, nextId, faults, readd, accepted>>

LenRead ==
  /\ wpc = "len"
  /\ pend' = Len(queue)
  /\ IF phase = "drain" /\ Len(queue) < MaxCount
     THEN IF force /\ Len(queue) > 0 THEN phase' = "forced" /\ wpc' = "len" ELSE phase' = "none" /\ wpc' = "idle"
     ELSE phase' = phase /\ wpc' = "peek"
  /\ UNCHANGED <<queue, inflight, force, bsize, anchored, expired, nextId, faults, readd, accepted>>

\* same-version prefix length of s
RECURSIVE PrefLen(_, _, _)
PrefLen(s, i, v) == IF i > Len(s) \/ s[i].ver # v THEN i - 1 ELSE PrefLen(s, i + 1, v)
RECURSIVE BuggyPref(_, _, _)
BuggyPref(s, i, v) == IF i > Len(s) THEN i - 1
                      ELSE LET vv == IF v = 0 THEN s[i].ver ELSE v
                           IN IF s[i].ver # vv THEN i - 1 ELSE BuggyPref(s, i + 1, vv)

Peek ==
  /\ wpc = "peek"
  /\ LET n == Min2(pend, MaxCount)
         head == SubSeq(queue, 1, Min2(n, Len(queue)))
         k == IF head = <<>> THEN 0 ELSE IF BuggyCutter THEN BuggyPref(head, 1, 0) ELSE PrefLen(head, 1, head[1].ver)
     IN /\ bsize' = k
        /\ IF k = 0 THEN wpc' = "idle" /\ phase' = "none" ELSE wpc' = "remove" /\ phase' = phase
  /\ UNCHANGED <<queue, inflight, force, pend, anchored, expired, nextId, faults, readd, accepted>>

QRemove ==
  /\ wpc = "remove"
  /\ LET n == Min2(bsize, Len(queue)) IN
     /\ inflight' = SubSeq(queue, 1, n)
     /\ queue' = SubSeq(queue, n + 1, Len(queue))
  /\ wpc' = "prepare"
  /\ UNCHANGED <<phase, force, pend, bsize, anchored, expired, nextId, faults, readd, accepted>>

Live(s) == SelectSeq(s, LAMBDA o : ~o.exp)
FirstIdx(s, i) == \A j \in 1..(i-1) : s[j].sfx # s[i].sfx
Included(s) == LET l == Live(s) IN [i \in {j \in DOMAIN l : FirstIdx(l, j)} |-> l[i]]
IncSeq(s) == LET l == Live(s) IN SelectSeq(l, LAMBDA o : \A j \in DOMAIN l : (l[j].id = o.id) => FirstIdx(l, j))
AddSeq(s) == LET l == Live(s) IN SelectSeq(l, LAMBDA o : \A j \in DOMAIN l : (l[j].id = o.id) => ~FirstIdx(l, j))

Prepare ==
  /\ wpc = "prepare"
  /\ \/ /\ faults < MaxFaults /\ faults' = faults + 1 /\ wpc' = "nack"     \* a CAS write fails
     \/ /\ faults' = faults /\ wpc' = "anchor"
  /\ UNCHANGED <<queue, inflight, phase, force, pend, bsize, anchored, expired, nextId, readd, accepted>>

Anchor ==
  /\ wpc = "anchor"
  /\ \/ /\ faults < MaxFaults /\ faults' = faults + 1 /\ wpc' = "nack"
        /\ UNCHANGED <<anchored, expired, readd>>
     \/ /\ faults' = faults
        /\ anchored' = Append(anchored, IncSeq(inflight))
        /\ expired' = expired \cup (Ids(inflight) \ Ids(Live(inflight)))
        /\ readd' = AddSeq(inflight)
        /\ wpc' = "readd"
  /\ UNCHANGED <<queue, inflight, phase, force, pend, bsize, nextId, accepted>>

ReAdd ==
  /\ wpc = "readd"
  /\ IF readd = <<>> THEN wpc' = "ack" /\ UNCHANGED <<queue, readd>>
     ELSE queue' = Append(queue, Head(readd)) /\ readd' = Tail(readd) /\ wpc' = wpc
  /\ UNCHANGED <<inflight, phase, force, pend, bsize, anchored, expired, nextId, faults, accepted>>

Ack ==
  /\ wpc = "ack"
  /\ inflight' = <<>>
  /\ IF phase = "drain" THEN wpc' = "len" /\ phase' = phase ELSE wpc' = "idle" /\ phase' = "none"
  /\ UNCHANGED <<queue, force, pend, bsize, anchored, expired, nextId, faults, readd, accepted>>

Nack ==
  /\ wpc = "nack"
  /\ queue' = inflight \o queue
  /\ inflight' = <<>>
  /\ wpc' = "idle" /\ phase' = "none"
  /\ UNCHANGED <<force, pend, bsize, anchored, expired, nextId, faults, readd, accepted>>

Writer == LenRead \/ Peek \/ QRemove \/ Prepare \/ Anchor \/ ReAdd \/ Ack \/ Nack
Next == \/ \E s \in Sfx, v \in Vers, e \in BOOLEAN : ClientAdd(s, v, e)
        \/ \E f \in BOOLEAN : Tick(f)
        \/ Writer

AnchoredIds == UNION {Ids(anchored[i]) : i \in DOMAIN anchored}
RECURSIVE SumLen(_)
SumLen(i) == IF i = 0 THEN 0 ELSE Len(anchored[i]) + SumLen(i-1)
AnchoredCount == SumLen(Len(anchored))
\* the re-add list is still part of inflight until ack, so count inflight only while not yet anchored
InflightIds == IF wpc \in {"readd", "ack"} THEN Ids(readd) ELSE Ids(inflight)
Conservation ==
  /\ accepted = Ids(queue) \cup InflightIds \cup AnchoredIds \cup expired
  /\ Cardinality(accepted) = Len(queue) + Cardinality(InflightIds) + AnchoredCount + Cardinality(expired)
BatchBounds == \A i \in DOMAIN anchored :
  /\ Len(anchored[i]) <= MaxCount
  /\ \A a, b \in DOMAIN anchored[i] : anchored[i][a].ver = anchored[i][b].ver
  /\ \A a, b \in DOMAIN anchored[i] : a # b => anchored[i][a].sfx # anchored[i][b].sfx
View == <<queue, inflight, wpc, phase, force, pend, bsize, anchored, expired, nextId, faults, readd>>
====
