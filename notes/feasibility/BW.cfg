INIT Init
NEXT Next
CONSTANTS
  MaxAdds = 4
  Sfx = {1, 2}
  Vers = {0, 5}
  MaxCount = 2
  MaxFaults = 1
  BuggyCutter = TRUE
INVARIANT Conservation
INVARIANT BatchBounds
CHECK_DEADLOCK FALSE
