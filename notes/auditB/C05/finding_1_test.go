package operationapplier

// Demonstration for property C05 (anchoring-time window).
//
// Run from /tmp/wt-C05B:
//   cp _audit/finding_1_test.go pkg/versions/1_0/operationapplier/zz_finding_1_test.go && \
//   go test ./pkg/versions/1_0/operationapplier/ -run TestFinding1 -count=1
//
// A signed operation that DECLARES anchorUntil = 0 next to a non-zero anchorFrom is treated as if it had declared no
// anchorUntil at all: its window becomes [anchorFrom, anchorFrom+MaxOperationTimeDelta] instead of the (empty) signed
// window [anchorFrom, 0]. The operation takes effect although anchoring time > anchorUntil, and intake hands the
// widened window to the server-time validator.

import (
	"crypto/ecdsa"
	"crypto/elliptic"
	"crypto/rand"
	"encoding/json"
	"testing"

	"github.com/stretchr/testify/assert"
	"github.com/stretchr/testify/require"

	"github.com/trustbloc/sidetree-core-go/pkg/api/protocol"
	"github.com/trustbloc/sidetree-core-go/pkg/canonicalizer"
	"github.com/trustbloc/sidetree-core-go/pkg/document"
	"github.com/trustbloc/sidetree-core-go/pkg/internal/signutil"
	"github.com/trustbloc/sidetree-core-go/pkg/util/ecsigner"
	"github.com/trustbloc/sidetree-core-go/pkg/versions/1_0/model"
	"github.com/trustbloc/sidetree-core-go/pkg/versions/1_0/operationparser"
)

type f1RecordingValidator struct {
	from, until int64
	called      bool
}

func (v *f1RecordingValidator) Validate(from, until int64) error {
	v.from, v.until, v.called = from, until, true

	return nil
}

// f1Resign re-signs the signed data of the operation after adding the given raw JSON members to the payload.
func f1Resign(t *testing.T, signedModel interface{}, key *ecdsa.PrivateKey, kid string, extra map[string]json.RawMessage) string {
	t.Helper()

	raw, err := canonicalizer.MarshalCanonical(signedModel)
	require.NoError(t, err)

	members := make(map[string]json.RawMessage)
	require.NoError(t, json.Unmarshal(raw, &members))

	for k, v := range extra {
		members[k] = v
	}

	payload, err := json.Marshal(members)
	require.NoError(t, err)

	compact, err := signutil.SignPayload(payload, ecsigner.New(key, "ES256", kid))
	require.NoError(t, err)

	return compact
}

func TestFinding1_ExplicitZeroAnchorUntil(t *testing.T) {
	recoveryKey, err := ecdsa.GenerateKey(elliptic.P256(), rand.Reader)
	require.NoError(t, err)

	updateKey, err := ecdsa.GenerateKey(elliptic.P256(), rand.Reader)
	require.NoError(t, err)

	createOp, err := getAnchoredCreateOperation(recoveryKey, updateKey)
	require.NoError(t, err)

	createOp.TransactionTime = 1

	// p.MaxOperationTimeDelta == 600
	applier := New(p, parser, dc)

	const anchoringTime = 150

	// apply an update whose signed data carries the given window members, anchored at time 150
	run := func(t *testing.T, extra map[string]json.RawMessage) (changed bool, handedFrom, handedUntil int64) {
		t.Helper()

		rm, err := applier.Apply(createOp, &protocol.ResolutionModel{})
		require.NoError(t, err)

		op, _, err := getUpdateOperation(updateKey, createOp.UniqueSuffix, 1)
		require.NoError(t, err)

		signed, err := parser.ParseSignedDataForUpdate(op.SignedData)
		require.NoError(t, err)

		op.SignedData = f1Resign(t, &model.UpdateSignedDataModel{UpdateKey: signed.UpdateKey, DeltaHash: signed.DeltaHash},
			updateKey, updateKeyID, extra)

		anchored := getAnchoredOperationWithBlockNum(op, anchoringTime)

		// intake: which window is handed to the server-time validator?
		rec := &f1RecordingValidator{}
		intake := operationparser.New(p, operationparser.WithAnchorTimeValidator(rec))

		_, err = intake.ParseUpdateOperation(anchored.OperationRequest, false)
		require.NoError(t, err)
		require.True(t, rec.called)

		// resolution
		result, err := applier.Apply(anchored, rm)
		require.NoError(t, err)
		require.NotEqual(t, rm.UpdateCommitment, result.UpdateCommitment, "the commitment is consumed in every case")

		didDoc := document.DidDocumentFromJSONLDObject(result.Doc)

		return didDoc["test"] == "special1", rec.from, rec.until
	}

	t.Run("control: anchorFrom=100, anchorUntil missing -> default 700, in window", func(t *testing.T) {
		changed, from, until := run(t, map[string]json.RawMessage{"anchorFrom": json.RawMessage("100")})
		require.True(t, changed)
		require.EqualValues(t, 100, from)
		require.EqualValues(t, 700, until)
	})

	t.Run("control: anchorFrom=100, anchorUntil=120 -> out of window", func(t *testing.T) {
		changed, from, until := run(t, map[string]json.RawMessage{
			"anchorFrom": json.RawMessage("100"), "anchorUntil": json.RawMessage("120"),
		})
		require.False(t, changed)
		require.EqualValues(t, 100, from)
		require.EqualValues(t, 120, until)
	})

	t.Run("control: anchorFrom=100, anchorUntil=-1 -> out of window", func(t *testing.T) {
		changed, _, until := run(t, map[string]json.RawMessage{
			"anchorFrom": json.RawMessage("100"), "anchorUntil": json.RawMessage("-1"),
		})
		require.False(t, changed)
		require.EqualValues(t, -1, until)
	})

	t.Run("anchorFrom=100, anchorUntil=0 DECLARED -> window [100,0] is empty, 150 is outside", func(t *testing.T) {
		changed, from, until := run(t, map[string]json.RawMessage{
			"anchorFrom": json.RawMessage("100"), "anchorUntil": json.RawMessage("0"),
		})

		require.EqualValues(t, 100, from)
		assert.EqualValues(t, 0, until,
			"intake must hand the signed window [100,0] to the server-time validator, it handed [100,%d]", until)
		assert.False(t, changed,
			"update anchored at 150 took effect although its signed anchorUntil is 0 (anchoring time > anchorUntil)")
	})
}
