package metadata

import (
	"testing"
	"time"

	"github.com/trustbloc/sidetree-core-go/pkg/api/protocol"
	"github.com/trustbloc/sidetree-core-go/pkg/document"
)

// created / updated have to be RFC 3339 timestamps of the model's times.
func TestC19B_TimesAreRFC3339(t *testing.T) {
	for _, tt := range []uint64{1700000000, 253402300799, 253402300800, 1700000000000, 1 << 62, 1 << 63, 1<<64 - 1} {
		rm := &protocol.ResolutionModel{Doc: document.Document{}, CreatedTime: tt, UpdatedTime: tt, VersionID: "v1"}
		info := protocol.TransformationInfo{document.IDProperty: "did:sidetree:abc", document.PublishedProperty: true}

		md, err := New().CreateDocumentMetadata(rm, info)
		if err != nil {
			t.Fatal(err)
		}

		for _, prop := range []string{document.CreatedProperty, document.UpdatedProperty} {
			s, _ := md[prop].(string)

			parsed, err := time.Parse(time.RFC3339, s)
			if err != nil {
				t.Errorf("model time %d: %s %q is not an RFC 3339 timestamp: %v", tt, prop, s, err)

				continue
			}

			if parsed.Unix() < 0 || uint64(parsed.Unix()) != tt {
				t.Errorf("model time %d: %s %q denotes %d", tt, prop, s, parsed.Unix())
			}
		}
	}
}
