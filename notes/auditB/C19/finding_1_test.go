package dochandler

import (
	"strings"
	"testing"

	"github.com/trustbloc/sidetree-core-go/pkg/api/operation"
	"github.com/trustbloc/sidetree-core-go/pkg/api/protocol"
	"github.com/trustbloc/sidetree-core-go/pkg/document"
	"github.com/trustbloc/sidetree-core-go/pkg/mocks"
	"github.com/trustbloc/sidetree-core-go/pkg/versions/1_0/doctransformer/didtransformer"
)

type c19bProcessor struct{ rm *protocol.ResolutionModel }

func (p *c19bProcessor) Resolve(string, ...document.ResolutionOption) (*protocol.ResolutionModel, error) {
	return p.rm, nil
}

// An unpublished (interim) DID resolved through a configured namespace alias.
func TestC19B_AliasUnpublishedDocumentID(t *testing.T) {
	const suffix = "EiDahaOGH-liLLdDtTxEAdc8i-cfCz-WUcQdRJheMVNn3A"

	internalDoc := document.Document{
		document.PublicKeyProperty: []interface{}{
			map[string]interface{}{
				"id": "key1", "type": "JsonWebKey2020", "purposes": []interface{}{"authentication"},
				"publicKeyJwk": map[string]interface{}{"kty": "EC", "crv": "P-256", "x": "x", "y": "y"},
			},
		},
	}

	pc := newMockProtocolClient()
	for _, v := range pc.Versions {
		v.DocumentTransformerReturns(didtransformer.New())
	}

	for _, ns := range []string{namespace, alias} {
		rm := &protocol.ResolutionModel{
			Doc:                   internalDoc,
			UnpublishedOperations: []*operation.AnchoredOperation{{Type: operation.TypeCreate, UniqueSuffix: suffix}},
		}

		dh := New(namespace, []string{alias}, pc, nil, &c19bProcessor{rm: rm}, &mocks.MetricsProvider{})

		did := ns + ":" + suffix

		result, err := dh.ResolveDocument(did)
		if err != nil {
			t.Fatal(err)
		}

		id := result.Document.ID()
		vms := result.Document[document.VerificationMethodProperty].([]document.PublicKey)
		t.Logf("requested %s -> document id %s, verification method id %v, controller %v", did, id, vms[0]["id"], vms[0]["controller"])

		// the id has to be a DID of this method for this suffix: <namespace or alias>:<suffix>
		if id != did && id != namespace+":"+suffix {
			t.Errorf("resolving %s: document id is %q (verification method %v), expected %q", did, id, vms[0]["id"], did)
		}

		if !strings.HasSuffix(id, ":"+suffix) || strings.Count(id, ":") != 2 {
			t.Errorf("resolving %s: document id %q has a segment that was never supplied nor configured", did, id)
		}
	}
}
