package jws_test

// Finding 3 (C09): the library's signing utilities produce a compact JWS for an empty payload
// ("<header>..<signature>"), but ParseJWS / VerifyJWS refuse every JWS whose payload is empty, so
// a genuine signature does not verify under the matching key.

import (
	"crypto/ecdsa"
	"crypto/ed25519"
	"crypto/elliptic"
	"crypto/rand"
	"testing"

	"github.com/btcsuite/btcd/btcec"

	internaljws "github.com/trustbloc/sidetree-core-go/pkg/internal/jws"
	"github.com/trustbloc/sidetree-core-go/pkg/internal/signutil"
	"github.com/trustbloc/sidetree-core-go/pkg/util/ecsigner"
	"github.com/trustbloc/sidetree-core-go/pkg/util/edsigner"
	"github.com/trustbloc/sidetree-core-go/pkg/util/pubkey"
)

func TestFinding3_EmptyPayloadSignedButNeverVerifies(t *testing.T) {
	edPub, edPriv, err := ed25519.GenerateKey(rand.Reader)
	if err != nil {
		t.Fatal(err)
	}

	type keyCase struct {
		name   string
		signer signutil.Signer
		pub    interface{}
	}

	cases := []keyCase{{"Ed25519", edsigner.New(edPriv, "EdDSA", "key-1"), edPub}}

	for name, curve := range map[string]elliptic.Curve{
		"P-256": elliptic.P256(), "P-384": elliptic.P384(), "P-521": elliptic.P521(), "secp256k1": btcec.S256(),
	} {
		k, err := ecdsa.GenerateKey(curve, rand.Reader)
		if err != nil {
			t.Fatal(err)
		}

		cases = append(cases, keyCase{name, ecsigner.New(k, "ES256", "key-1"), &k.PublicKey})
	}

	for _, kc := range cases {
		jwk, err := pubkey.GetPublicKeyJWK(kc.pub)
		if err != nil {
			t.Fatal(err)
		}

		// control: one byte of payload
		compact, err := signutil.SignPayload([]byte("x"), kc.signer)
		if err != nil {
			t.Fatal(err)
		}

		if _, err = internaljws.VerifyJWS(compact, jwk); err != nil {
			t.Fatalf("%s: control does not verify: %v", kc.name, err)
		}

		for _, payload := range [][]byte{{}, nil} {
			compact, err = signutil.SignPayload(payload, kc.signer)
			if err != nil {
				// refusing to sign would be consistent as well
				continue
			}

			if _, err = internaljws.VerifyJWS(compact, jwk); err != nil {
				t.Errorf("%s: genuine JWS %q over the empty payload is rejected under the matching key: %v",
					kc.name, compact, err)
			}
		}
	}
}
