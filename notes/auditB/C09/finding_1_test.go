package jws_test

// Finding 1 (C09): VerifyJWS accepts compact strings whose segments are not base64url:
// embedded CR / LF characters and non-zero padding bits in the last character are silently
// ignored by the decoder, so corrupted spellings of a genuine JWS are accepted.

import (
	"crypto/ecdsa"
	"crypto/ed25519"
	"crypto/elliptic"
	"crypto/rand"
	"strings"
	"testing"

	internaljws "github.com/trustbloc/sidetree-core-go/pkg/internal/jws"
	"github.com/trustbloc/sidetree-core-go/pkg/internal/signutil"
	"github.com/trustbloc/sidetree-core-go/pkg/util/ecsigner"
	"github.com/trustbloc/sidetree-core-go/pkg/util/edsigner"
	"github.com/trustbloc/sidetree-core-go/pkg/util/pubkey"
)

const b64Alphabet = "ABCDEFGHIJKLMNOPQRSTUVWXYZabcdefghijklmnopqrstuvwxyz0123456789-_"

func TestFinding1_MalformedBase64SegmentsAccepted(t *testing.T) {
	edPub, edPriv, err := ed25519.GenerateKey(rand.Reader)
	if err != nil {
		t.Fatal(err)
	}

	ecPriv, err := ecdsa.GenerateKey(elliptic.P256(), rand.Reader)
	if err != nil {
		t.Fatal(err)
	}

	type keyCase struct {
		name   string
		signer signutil.Signer
		pub    interface{}
	}

	for _, kc := range []keyCase{
		{"Ed25519", edsigner.New(edPriv, "EdDSA", "key-1"), edPub},
		{"P-256", ecsigner.New(ecPriv, "ES256", "key-1"), &ecPriv.PublicKey},
	} {
		jwk, err := pubkey.GetPublicKeyJWK(kc.pub)
		if err != nil {
			t.Fatal(err)
		}

		compact, err := signutil.SignPayload([]byte(`{"deltaHash":"abc"}`), kc.signer)
		if err != nil {
			t.Fatal(err)
		}

		if _, err = internaljws.VerifyJWS(compact, jwk); err != nil {
			t.Fatalf("%s: genuine JWS does not verify: %v", kc.name, err)
		}

		p := strings.Split(compact, ".")

		// the signature is 64 bytes = 86 characters: the last character carries 2 data bits and 4 unused bits
		last := p[2][len(p[2])-1]
		idx := strings.IndexByte(b64Alphabet, last)
		corruptedLast := b64Alphabet[idx|0x0f] // same 2 data bits, unused bits set
		if idx&0x0f == 0x0f {
			t.Fatal("unexpected: genuine signature with non-zero padding bits")
		}

		malformed := map[string]string{
			"LF inside the signature segment":   p[0] + "." + p[1] + "." + p[2][:10] + "\n" + p[2][10:],
			"CRLF inside the payload segment":   p[0] + "." + p[1][:4] + "\r\n" + p[1][4:] + "." + p[2],
			"LF appended to the header segment": p[0] + "\n." + p[1] + "." + p[2],
			"LF appended to the compact string": compact + "\n",
			"last signature character altered":  p[0] + "." + p[1] + "." + p[2][:len(p[2])-1] + string(corruptedLast),
		}

		for what, s := range malformed {
			if s == compact {
				t.Fatalf("test error: %s did not change the string", what)
			}

			if _, err := internaljws.VerifyJWS(s, jwk); err == nil {
				t.Errorf("%s: %s: malformed compact string %q ACCEPTED by VerifyJWS", kc.name, what, s)
			}
		}
	}

}
