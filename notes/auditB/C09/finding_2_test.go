package jws_test

// Finding 2 (C09): a protected header without a usable "alg" - {"alg":null}, a number, a boolean,
// an array, an object or the empty string - passes checkJWSHeaders (it only tests that the member
// name is present), so ParseJWS / VerifyJWS accept it.

import (
	"crypto/ed25519"
	"crypto/rand"
	"encoding/base64"
	"strings"
	"testing"

	internaljws "github.com/trustbloc/sidetree-core-go/pkg/internal/jws"
	"github.com/trustbloc/sidetree-core-go/pkg/util/pubkey"
)

func TestFinding2_NullOrNonStringAlgAccepted(t *testing.T) {
	pub, priv, err := ed25519.GenerateKey(rand.Reader)
	if err != nil {
		t.Fatal(err)
	}

	jwk, err := pubkey.GetPublicKeyJWK(pub)
	if err != nil {
		t.Fatal(err)
	}

	// control: the header without the member is refused
	control := compactFor(priv, `{"kid":"key-1"}`)
	if _, err := internaljws.VerifyJWS(control, jwk); err == nil || !strings.Contains(err.Error(), "alg JWS header is not defined") {
		t.Fatalf("control: expected missing alg error, got %v", err)
	}

	for _, header := range []string{
		`{"alg":null}`,
		`{"alg":null,"kid":"key-1"}`,
		`{"alg":""}`,
		`{"alg":0}`,
		`{"alg":false}`,
		`{"alg":[]}`,
		`{"alg":{}}`,
	} {
		compact := compactFor(priv, header)

		if _, err := internaljws.ParseJWS(compact); err == nil {
			t.Errorf("protected header %s: ACCEPTED by ParseJWS", header)
		}

		if _, err := internaljws.VerifyJWS(compact, jwk); err == nil {
			t.Errorf("protected header %s: ACCEPTED by VerifyJWS", header)
		}
	}
}

// compactFor signs BASE64URL(header) "." BASE64URL(payload) exactly as RFC 7515 prescribes.
func compactFor(priv ed25519.PrivateKey, header string) string {
	h := base64.RawURLEncoding.EncodeToString([]byte(header))
	p := base64.RawURLEncoding.EncodeToString([]byte(`{"deltaHash":"abc"}`))
	sig := ed25519.Sign(priv, []byte(h+"."+p))

	return h + "." + p + "." + base64.RawURLEncoding.EncodeToString(sig)
}
