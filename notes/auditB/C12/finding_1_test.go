package processor

// C12 finding 1: during resolution an update that re-commits to the very key it reveals is applied when the next
// commitment is spelled with the other allowed multihash algorithm. Intake refuses the same request (its check
// recomputes the commitment of the revealed key with the algorithm of the NEXT commitment), and the recover path
// refuses it in both modes; only the anchored (batch) update path falls back to a plain string comparison.

import (
	"crypto/ecdsa"
	"crypto/elliptic"
	"crypto/rand"
	"testing"

	"github.com/stretchr/testify/require"

	"github.com/trustbloc/sidetree-core-go/pkg/api/operation"
	"github.com/trustbloc/sidetree-core-go/pkg/api/protocol"
	"github.com/trustbloc/sidetree-core-go/pkg/commitment"
	"github.com/trustbloc/sidetree-core-go/pkg/jws"
	"github.com/trustbloc/sidetree-core-go/pkg/mocks"
	"github.com/trustbloc/sidetree-core-go/pkg/patch"
	"github.com/trustbloc/sidetree-core-go/pkg/util/ecsigner"
	"github.com/trustbloc/sidetree-core-go/pkg/util/pubkey"
	"github.com/trustbloc/sidetree-core-go/pkg/versions/1_0/client"
	"github.com/trustbloc/sidetree-core-go/pkg/versions/1_0/doccomposer"
	"github.com/trustbloc/sidetree-core-go/pkg/versions/1_0/operationapplier"
	"github.com/trustbloc/sidetree-core-go/pkg/versions/1_0/operationparser"
)

const (
	c12f1Sha256 = 18
	c12f1Sha512 = 19
)

const c12f1Doc = `{"publicKey":[{"id":"key1","type":"JsonWebKey2020","publicKeyJwk":{"kty":"EC","crv":"P-256K","x":"PUymIqdtF_qxaAqPABSw-C-owT1KYYQbsMKFM-L9fJA","y":"nM84jDHCMOTGTh_ZdHq4dBBdo4Z5PkEOW9jA8z8IsGc"}}]}`

func c12f1Protocol() (*mocks.MockProtocolClient, *operationparser.Parser) {
	p := protocol.Protocol{
		GenesisTime:                 0,
		MultihashAlgorithms:         []uint{c12f1Sha512, c12f1Sha256}, // same as the library's own two-algorithm test set-up
		MaxOperationCount:           10,
		MaxOperationSize:            20000,
		MaxOperationHashLength:      100,
		MaxDeltaSize:                10000,
		MaxCasURILength:             100,
		CompressionAlgorithm:        "GZIP",
		MaxChunkFileSize:            mocks.MaxBatchFileSize,
		MaxProvisionalIndexFileSize: mocks.MaxBatchFileSize,
		MaxCoreIndexFileSize:        mocks.MaxBatchFileSize,
		SignatureAlgorithms:         []string{"EdDSA", "ES256"},
		KeyAlgorithms:               []string{"Ed25519", "P-256"},
		Patches:                     []string{"add-public-keys", "remove-public-keys", "add-services", "remove-services", "ietf-json-patch", "replace"},
		NonceSize:                   16,
	}

	pc := mocks.NewMockProtocolClient()
	v := mocks.GetProtocolVersion(p)
	pc.Versions = []*mocks.ProtocolVersion{v}
	pc.CurrentVersion = v
	pc.Protocol = p

	parser := operationparser.New(p)
	dc := doccomposer.New()
	v.OperationParserReturns(parser)
	v.OperationApplierReturns(operationapplier.New(p, parser, dc))
	v.DocumentComposerReturns(dc)

	return pc, parser
}

func c12f1Key(t *testing.T) (*ecdsa.PrivateKey, *jws.JWK) {
	k, err := ecdsa.GenerateKey(elliptic.P256(), rand.Reader)
	require.NoError(t, err)

	j, err := pubkey.GetPublicKeyJWK(&k.PublicKey)
	require.NoError(t, err)

	return k, j
}

func c12f1Commit(t *testing.T, j *jws.JWK, code uint) string {
	c, err := commitment.GetCommitment(j, code)
	require.NoError(t, err)

	return c
}

func c12f1Patch(t *testing.T, val string) patch.Patch {
	p, err := patch.NewJSONPatch(`[{"op":"add","path":"/marker","value":"` + val + `"}]`)
	require.NoError(t, err)

	return p
}

func TestC12Finding1_UpdateRecommitsToRevealedKeyUnderOtherAlgorithm(t *testing.T) {
	pc, parser := c12f1Protocol()

	_, recJWK := c12f1Key(t)
	upd0, upd0JWK := c12f1Key(t)
	_, upd1JWK := c12f1Key(t)

	// create: update commitment = sha2-256 commitment of K0
	createReq, err := client.NewCreateRequest(&client.CreateRequestInfo{
		OpaqueDocument:     c12f1Doc,
		RecoveryCommitment: c12f1Commit(t, recJWK, c12f1Sha256),
		UpdateCommitment:   c12f1Commit(t, upd0JWK, c12f1Sha256),
		MultihashCode:      c12f1Sha256,
	})
	require.NoError(t, err)

	createOp, err := parser.Parse(mocks.DefaultNS, createReq)
	require.NoError(t, err)

	suffix := createOp.UniqueSuffix

	// update 1 reveals K0 (sha2-256 reveal value, consumes C256(K0)) and commits to ... K0 again, as C512(K0)
	rv256, err := commitment.GetRevealValue(upd0JWK, c12f1Sha256)
	require.NoError(t, err)

	c512K0 := c12f1Commit(t, upd0JWK, c12f1Sha512)

	upd1Req, err := client.NewUpdateRequest(&client.UpdateRequestInfo{
		DidSuffix:        suffix,
		Patches:          []patch.Patch{c12f1Patch(t, "one")},
		UpdateCommitment: c512K0,
		UpdateKey:        upd0JWK,
		MultihashCode:    c12f1Sha256,
		Signer:           ecsigner.New(upd0, "ES256", ""),
		RevealValue:      rv256,
	})
	require.NoError(t, err)

	// intake refuses this request: it re-commits to the key it reveals
	_, err = parser.Parse(mocks.DefaultNS, upd1Req)
	require.Error(t, err)
	require.Contains(t, err.Error(), "re-using public keys for commitment is not allowed")

	// update 2 reveals K0 a second time (sha2-512 reveal value, consumes C512(K0)); signed with the same private key
	rv512, err := commitment.GetRevealValue(upd0JWK, c12f1Sha512)
	require.NoError(t, err)

	upd2Req, err := client.NewUpdateRequest(&client.UpdateRequestInfo{
		DidSuffix:        suffix,
		Patches:          []patch.Patch{c12f1Patch(t, "two")},
		UpdateCommitment: c12f1Commit(t, upd1JWK, c12f1Sha256),
		UpdateKey:        upd0JWK,
		MultihashCode:    c12f1Sha256,
		Signer:           ecsigner.New(upd0, "ES256", ""),
		RevealValue:      rv512,
	})
	require.NoError(t, err)

	// the history as another node anchored it (anchored operations do not pass through this node's intake)
	store := mocks.NewMockOperationStore(nil)
	require.NoError(t, store.Put(&operation.AnchoredOperation{Type: operation.TypeCreate, UniqueSuffix: suffix,
		OperationRequest: createReq, TransactionTime: 1, TransactionNumber: 0, CanonicalReference: "c1"}))
	require.NoError(t, store.Put(&operation.AnchoredOperation{Type: operation.TypeUpdate, UniqueSuffix: suffix,
		OperationRequest: upd1Req, TransactionTime: 2, TransactionNumber: 0, CanonicalReference: "c2"}))
	require.NoError(t, store.Put(&operation.AnchoredOperation{Type: operation.TypeUpdate, UniqueSuffix: suffix,
		OperationRequest: upd2Req, TransactionTime: 3, TransactionNumber: 0, CanonicalReference: "c3"}))

	rm, err := New("test", store, pc).Resolve(suffix)
	require.NoError(t, err)

	t.Logf("update commitment after resolution: %s, document: %v", rm.UpdateCommitment, rm.Doc)

	// property: an operation whose next commitment is the commitment of the key it reveals is never applied
	require.NotEqual(t, c512K0, rm.UpdateCommitment, "update 1 (re-commits to the key it reveals) was applied")
	require.Nil(t, rm.Doc["marker"], "an update re-committing to the key it reveals changed the document (marker=%v): key K0 was revealed twice in one chain", rm.Doc["marker"])
	require.Equal(t, c12f1Commit(t, upd0JWK, c12f1Sha256), rm.UpdateCommitment)
}
