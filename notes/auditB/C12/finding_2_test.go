package processor

// C12 finding 2: the set of "already consumed" commitments lives only inside one applyOperations call. The update
// commitments consumed before a recover are forgotten, so a recover may hand the DID back to an update commitment that
// was consumed earlier; from then on the old, byte-identical update operations can be re-anchored by anybody (no new
// signature is needed) and are applied again: the update-commitment chain runs U0 -> U1 -> (recover) U0 -> U1.

import (
	"fmt"
	"crypto/ecdsa"
	"crypto/elliptic"
	"crypto/rand"
	"testing"

	"github.com/stretchr/testify/require"

	"github.com/trustbloc/sidetree-core-go/pkg/api/operation"
	"github.com/trustbloc/sidetree-core-go/pkg/api/protocol"
	"github.com/trustbloc/sidetree-core-go/pkg/commitment"
	"github.com/trustbloc/sidetree-core-go/pkg/jws"
	"github.com/trustbloc/sidetree-core-go/pkg/mocks"
	"github.com/trustbloc/sidetree-core-go/pkg/patch"
	"github.com/trustbloc/sidetree-core-go/pkg/util/ecsigner"
	"github.com/trustbloc/sidetree-core-go/pkg/util/pubkey"
	"github.com/trustbloc/sidetree-core-go/pkg/versions/1_0/client"
	"github.com/trustbloc/sidetree-core-go/pkg/versions/1_0/doccomposer"
	"github.com/trustbloc/sidetree-core-go/pkg/versions/1_0/operationapplier"
	"github.com/trustbloc/sidetree-core-go/pkg/versions/1_0/operationparser"
)

const (
	c12f2Sha256 = 18
	c12f2Sha512 = 19
)

const c12f2Doc = `{"publicKey":[{"id":"key1","type":"JsonWebKey2020","publicKeyJwk":{"kty":"EC","crv":"P-256K","x":"PUymIqdtF_qxaAqPABSw-C-owT1KYYQbsMKFM-L9fJA","y":"nM84jDHCMOTGTh_ZdHq4dBBdo4Z5PkEOW9jA8z8IsGc"}}]}`

func c12f2Protocol() (*mocks.MockProtocolClient, *operationparser.Parser) {
	p := protocol.Protocol{
		GenesisTime:                 0,
		MultihashAlgorithms:         []uint{c12f2Sha512, c12f2Sha256}, // same as the library's own two-algorithm test set-up
		MaxOperationCount:           10,
		MaxOperationSize:            20000,
		MaxOperationHashLength:      100,
		MaxDeltaSize:                10000,
		MaxCasURILength:             100,
		CompressionAlgorithm:        "GZIP",
		MaxChunkFileSize:            mocks.MaxBatchFileSize,
		MaxProvisionalIndexFileSize: mocks.MaxBatchFileSize,
		MaxCoreIndexFileSize:        mocks.MaxBatchFileSize,
		SignatureAlgorithms:         []string{"EdDSA", "ES256"},
		KeyAlgorithms:               []string{"Ed25519", "P-256"},
		Patches:                     []string{"add-public-keys", "remove-public-keys", "add-services", "remove-services", "ietf-json-patch", "replace"},
		NonceSize:                   16,
	}

	pc := mocks.NewMockProtocolClient()
	v := mocks.GetProtocolVersion(p)
	pc.Versions = []*mocks.ProtocolVersion{v}
	pc.CurrentVersion = v
	pc.Protocol = p

	parser := operationparser.New(p)
	dc := doccomposer.New()
	v.OperationParserReturns(parser)
	v.OperationApplierReturns(operationapplier.New(p, parser, dc))
	v.DocumentComposerReturns(dc)

	return pc, parser
}

func c12f2Key(t *testing.T) (*ecdsa.PrivateKey, *jws.JWK) {
	k, err := ecdsa.GenerateKey(elliptic.P256(), rand.Reader)
	require.NoError(t, err)

	j, err := pubkey.GetPublicKeyJWK(&k.PublicKey)
	require.NoError(t, err)

	return k, j
}

func c12f2Commit(t *testing.T, j *jws.JWK, code uint) string {
	c, err := commitment.GetCommitment(j, code)
	require.NoError(t, err)

	return c
}

func c12f2Patch(t *testing.T, val string) patch.Patch {
	p, err := patch.NewJSONPatch(`[{"op":"add","path":"/marker","value":"` + val + `"}]`)
	require.NoError(t, err)

	return p
}

func TestC12Finding2_UpdateChainRevisitsCommitmentsAfterRecover(t *testing.T) {
	pc, parser := c12f2Protocol()

	rec0, rec0JWK := c12f2Key(t)
	_, rec1JWK := c12f2Key(t)
	upd0, upd0JWK := c12f2Key(t)
	upd1, upd1JWK := c12f2Key(t)
	_, upd2JWK := c12f2Key(t)

	u0 := c12f2Commit(t, upd0JWK, c12f2Sha256)
	u1 := c12f2Commit(t, upd1JWK, c12f2Sha256)
	u2 := c12f2Commit(t, upd2JWK, c12f2Sha256)

	createReq, err := client.NewCreateRequest(&client.CreateRequestInfo{
		OpaqueDocument:     c12f2Doc,
		RecoveryCommitment: c12f2Commit(t, rec0JWK, c12f2Sha256),
		UpdateCommitment:   u0,
		MultihashCode:      c12f2Sha256,
	})
	require.NoError(t, err)

	createOp, err := parser.Parse(mocks.DefaultNS, createReq)
	require.NoError(t, err)

	suffix := createOp.UniqueSuffix

	newUpdate := func(key *ecdsa.PrivateKey, jwk *jws.JWK, next, marker string) []byte {
		rv, e := commitment.GetRevealValue(jwk, c12f2Sha256)
		require.NoError(t, e)

		req, e := client.NewUpdateRequest(&client.UpdateRequestInfo{
			DidSuffix:        suffix,
			Patches:          []patch.Patch{c12f2Patch(t, marker)},
			UpdateCommitment: next,
			UpdateKey:        jwk,
			MultihashCode:    c12f2Sha256,
			Signer:           ecsigner.New(key, "ES256", ""),
			RevealValue:      rv,
		})
		require.NoError(t, e)

		_, e = parser.Parse(mocks.DefaultNS, req) // accepted by intake
		require.NoError(t, e)

		return req
	}

	upd1Req := newUpdate(upd0, upd0JWK, u1, "one") // consumes U0, commits to U1
	upd2Req := newUpdate(upd1, upd1JWK, u2, "two") // consumes U1, commits to U2

	// recover: consumes R0, commits to R1 - and takes the update commitment back to U0, consumed by update 1
	rvRec, err := commitment.GetRevealValue(rec0JWK, c12f2Sha256)
	require.NoError(t, err)

	recoverReq, err := client.NewRecoverRequest(&client.RecoverRequestInfo{
		DidSuffix:          suffix,
		RecoveryKey:        rec0JWK,
		OpaqueDocument:     c12f2Doc,
		RecoveryCommitment: c12f2Commit(t, rec1JWK, c12f2Sha256),
		UpdateCommitment:   u0,
		MultihashCode:      c12f2Sha256,
		Signer:             ecsigner.New(rec0, "ES256", ""),
		RevealValue:        rvRec,
	})
	require.NoError(t, err)

	_, err = parser.Parse(mocks.DefaultNS, recoverReq) // accepted by intake (intake cannot know the history)
	require.NoError(t, err)

	put := func(store *mocks.MockOperationStore, typ operation.Type, req []byte, tm uint64) {
		require.NoError(t, store.Put(&operation.AnchoredOperation{Type: typ, UniqueSuffix: suffix, OperationRequest: req,
			TransactionTime: tm, TransactionNumber: 0, CanonicalReference: fmt.Sprintf("ref%d", tm)}))
	}

	store := mocks.NewMockOperationStore(nil)
	put(store, operation.TypeCreate, createReq, 1)
	put(store, operation.TypeUpdate, upd1Req, 2)
	put(store, operation.TypeUpdate, upd2Req, 3)
	put(store, operation.TypeRecover, recoverReq, 4)

	rm, err := New("test", store, pc).Resolve(suffix)
	require.NoError(t, err)
	require.Nil(t, rm.Doc["marker"]) // the recover replaced the document
	t.Logf("after the recover: update commitment %s (U0 is %s)", rm.UpdateCommitment, u0)

	// a third party re-anchors the old operations byte for byte - it needs no key for that
	put(store, operation.TypeUpdate, upd1Req, 5)
	put(store, operation.TypeUpdate, upd2Req, 6)

	rm, err = New("test", store, pc).Resolve(suffix)
	require.NoError(t, err)
	t.Logf("after the replay: update commitment %s (U2 is %s), marker %v", rm.UpdateCommitment, u2, rm.Doc["marker"])

	// property: an operation whose next commitment was consumed earlier in the chain is never applied, a chain never
	// revisits a commitment. U0 and U1 were consumed at times 2 and 3; they must not be consumed again at times 5 and 6.
	require.Nil(t, rm.Doc["marker"], "replayed updates were applied after the recover: the chain consumed U0 and U1 a second time")
	require.NotEqual(t, u2, rm.UpdateCommitment)
}
