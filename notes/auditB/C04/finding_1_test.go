package processor

// C04 finding 1: on an anchoring system whose transactions carry no canonical reference (txn.SidetreeTxn.CanonicalReference
// is optional - dochandler.GetTransformationInfoForPublished handles the empty value explicitly, and the library's own
// mock ledger never sets it) every ANCHORED operation is classified as "unpublished" by the processor, because the
// processor recognises unpublished operations by an empty CanonicalReference. Unpublished updates are exempt from the
// "anchored after the last recover" filter, so an update anchored BEFORE a recover is applied on top of it.
//
// run: cp _audit/finding_1_test.go pkg/processor/c04_finding_1_test.go && go test ./pkg/processor/ -run TestC04Finding1 -count=1

import (
	"crypto/ecdsa"
	"crypto/elliptic"
	"crypto/rand"
	"fmt"
	"testing"

	"github.com/trustbloc/sidetree-core-go/pkg/api/operation"
	"github.com/trustbloc/sidetree-core-go/pkg/api/txn"
	"github.com/trustbloc/sidetree-core-go/pkg/commitment"
	"github.com/trustbloc/sidetree-core-go/pkg/hashing"
	"github.com/trustbloc/sidetree-core-go/pkg/internal/signutil"
	"github.com/trustbloc/sidetree-core-go/pkg/jws"
	"github.com/trustbloc/sidetree-core-go/pkg/patch"
	"github.com/trustbloc/sidetree-core-go/pkg/util/ecsigner"
	"github.com/trustbloc/sidetree-core-go/pkg/util/pubkey"
	"github.com/trustbloc/sidetree-core-go/pkg/versions/1_0/model"
	"github.com/trustbloc/sidetree-core-go/pkg/versions/1_0/txnprocessor"
)

type fkey struct {
	priv *ecdsa.PrivateKey
	pub  *jws.JWK
	c    string
	rv   string
}

func newFKey(t *testing.T) *fkey {
	k, err := ecdsa.GenerateKey(elliptic.P256(), rand.Reader)
	if err != nil {
		t.Fatal(err)
	}
	pub, err := pubkey.GetPublicKeyJWK(&k.PublicKey)
	if err != nil {
		t.Fatal(err)
	}
	c, err := commitment.GetCommitment(pub, sha2_256)
	if err != nil {
		t.Fatal(err)
	}
	rv, err := commitment.GetRevealValue(pub, sha2_256)
	if err != nil {
		t.Fatal(err)
	}
	return &fkey{k, pub, c, rv}
}

func markerDelta(t *testing.T, marker string, uc string) *model.DeltaModel {
	p, err := patch.NewJSONPatch(fmt.Sprintf(`[{"op":"add","path":"/%s","value":1}]`, marker))
	if err != nil {
		t.Fatal(err)
	}
	return &model.DeltaModel{UpdateCommitment: uc, Patches: []patch.Patch{p}}
}

type fop struct {
	desc  string
	op    *operation.AnchoredOperation
	typ   operation.Type
	time  uint64
	mark  string
	unpub bool
}

func anchor(t *testing.T, m *model.Operation, tm uint64) *operation.AnchoredOperation {
	a, err := model.GetAnchoredOperation(m)
	if err != nil {
		t.Fatal(err)
	}
	a.TransactionTime = tm
	a.TransactionNumber = 0
	a.ProtocolVersion = 0
	a.CanonicalReference = fmt.Sprintf("ref%d", tm)
	return a
}

func fCreate(t *testing.T, rk, uk *fkey, tm uint64) (*fop, string) {
	delta := markerDelta(t, "c", uk.c)
	dh, err := hashing.CalculateModelMultihash(delta, sha2_256)
	if err != nil {
		t.Fatal(err)
	}
	sd := &model.SuffixDataModel{DeltaHash: dh, RecoveryCommitment: rk.c}
	suffix, err := hashing.CalculateModelMultihash(sd, sha2_256)
	if err != nil {
		t.Fatal(err)
	}
	m := &model.Operation{Type: operation.TypeCreate, UniqueSuffix: suffix, Delta: delta, SuffixData: sd}
	return &fop{desc: fmt.Sprintf("C@%d", tm), op: anchor(t, m, tm), typ: operation.TypeCreate, time: tm, mark: "c"}, suffix
}

func fUpdate(t *testing.T, suffix string, signer, reveal, next *fkey, tm uint64, names map[*fkey]string) *fop {
	mark := fmt.Sprintf("u%d", tm)
	delta := markerDelta(t, mark, next.c)
	dh, _ := hashing.CalculateModelMultihash(delta, sha2_256)
	sd := &model.UpdateSignedDataModel{DeltaHash: dh, UpdateKey: reveal.pub}
	j, err := signutil.SignModel(sd, ecsigner.New(signer.priv, "ES256", ""))
	if err != nil {
		t.Fatal(err)
	}
	m := &model.Operation{Type: operation.TypeUpdate, UniqueSuffix: suffix, Delta: delta, SignedData: j, RevealValue: reveal.rv}
	return &fop{desc: fmt.Sprintf("U@%d(sig=%s key=%s next=%s)", tm, names[signer], names[reveal], names[next]),
		op: anchor(t, m, tm), typ: operation.TypeUpdate, time: tm, mark: mark}
}

func fRecover(t *testing.T, suffix string, signer, reveal, nextR, nextU *fkey, tm uint64, names map[*fkey]string) *fop {
	mark := fmt.Sprintf("r%d", tm)
	delta := markerDelta(t, mark, nextU.c)
	dh, _ := hashing.CalculateModelMultihash(delta, sha2_256)
	sd := &model.RecoverSignedDataModel{DeltaHash: dh, RecoveryKey: reveal.pub, RecoveryCommitment: nextR.c}
	j, err := signutil.SignModel(sd, ecsigner.New(signer.priv, "ES256", ""))
	if err != nil {
		t.Fatal(err)
	}
	m := &model.Operation{Type: operation.TypeRecover, UniqueSuffix: suffix, Delta: delta, SignedData: j, RevealValue: reveal.rv}
	return &fop{desc: fmt.Sprintf("R@%d(sig=%s key=%s nextR=%s nextU=%s)", tm, names[signer], names[reveal], names[nextR], names[nextU]),
		op: anchor(t, m, tm), typ: operation.TypeRecover, time: tm, mark: mark}
}

func fDeactivateUnused(t *testing.T, suffix string, signer, reveal *fkey, tm uint64, names map[*fkey]string) *fop {
	sd := &model.DeactivateSignedDataModel{DidSuffix: suffix, RecoveryKey: reveal.pub}
	j, err := signutil.SignModel(sd, ecsigner.New(signer.priv, "ES256", ""))
	if err != nil {
		t.Fatal(err)
	}
	m := &model.Operation{Type: operation.TypeDeactivate, UniqueSuffix: suffix, SignedData: j, RevealValue: reveal.rv}
	return &fop{desc: fmt.Sprintf("D@%d(sig=%s key=%s)", tm, names[signer], names[reveal]),
		op: anchor(t, m, tm), typ: operation.TypeDeactivate, time: tm}
}

type c04Store struct {
	ops map[string][]*operation.AnchoredOperation
}

func (s *c04Store) Put(ops []*operation.AnchoredOperation) error {
	for _, op := range ops {
		s.ops[op.UniqueSuffix] = append(s.ops[op.UniqueSuffix], op)
	}

	return nil
}

func (s *c04Store) Get(suffix string) ([]*operation.AnchoredOperation, error) {
	return s.ops[suffix], nil
}

type c04Provider struct {
	byAnchor map[string][]*operation.AnchoredOperation
}

func (p *c04Provider) GetTxnOperations(t *txn.SidetreeTxn) ([]*operation.AnchoredOperation, error) {
	return p.byAnchor[t.AnchorString], nil
}

func c04Run(t *testing.T, withCanonicalReference bool) map[string]interface{} {
	names := map[*fkey]string{}
	rk0, rk1, uk, uk1 := newFKey(t), newFKey(t), newFKey(t), newFKey(t)

	// create: recovery key rk0, update key uk
	create, suffix := fCreate(t, rk0, uk, 1)
	// update anchored at time 2: signed with uk, adds member "u2" to the document
	update := fUpdate(t, suffix, uk, uk, uk1, 2, names)
	// recover anchored at time 5: signed with rk0, document {"r5":1}, next update commitment is (again) the one of uk
	recover := fRecover(t, suffix, rk0, rk0, rk1, uk, 5, names)

	store := &c04Store{ops: map[string][]*operation.AnchoredOperation{}}
	provider := &c04Provider{byAnchor: map[string][]*operation.AnchoredOperation{}}
	tp := txnprocessor.New(&txnprocessor.Providers{OpStore: store, OperationProtocolProvider: provider})

	for i, o := range []*fop{create, update, recover} {
		// as delivered by the operation provider: not yet stamped
		o.op.CanonicalReference = ""
		o.op.TransactionTime = 0

		anchorString := []string{"1.create", "1.update", "1.recover"}[i]
		provider.byAnchor[anchorString] = []*operation.AnchoredOperation{o.op}

		sidetreeTxn := txn.SidetreeTxn{
			Namespace:         "did:sidetree",
			AnchorString:      anchorString,
			TransactionTime:   o.time,
			TransactionNumber: uint64(i),
			ProtocolVersion:   0,
		}

		if withCanonicalReference {
			sidetreeTxn.CanonicalReference = "ref-" + anchorString
		}

		// the REAL transaction processor stores (and stamps) the operations of the transaction
		n, err := tp.Process(sidetreeTxn)
		if err != nil || n != 1 {
			t.Fatalf("process txn: n=%d err=%v", n, err)
		}
	}

	rm, err := New("test", store, newMockProtocolClient()).Resolve(suffix)
	if err != nil {
		t.Fatal(err)
	}

	return rm.Doc
}

func TestC04Finding1_UpdateBeforeRecoverReappliedWithoutCanonicalReference(t *testing.T) {
	// control: with canonical references the update anchored at 2 is not applied on top of the recover anchored at 5
	doc := c04Run(t, true)
	if _, ok := doc["u2"]; ok || doc["r5"] == nil || len(doc) != 1 {
		t.Fatalf("control run: unexpected document %v", doc)
	}

	// same history on a ledger whose transactions carry no canonical reference
	doc = c04Run(t, false)
	if doc["r5"] == nil {
		t.Fatalf("recover not applied: %v", doc)
	}

	if _, ok := doc["u2"]; ok {
		t.Fatalf("update anchored at time 2 was applied on top of the recover anchored at time 5: document %v "+
			"(expected the recover's own content {\"r5\":1} only)", doc)
	}
}
