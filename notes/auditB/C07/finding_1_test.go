package audit

// C07 finding 1: the canonicalizer accepts number tokens that are not JSON numbers
// (Go floating-point literal syntax accepted by strconv.ParseFloat) and returns a
// "canonical form" for inputs that are not well-formed JSON and have no I-JSON value.
//
// run from /tmp/wt-C07B:  go test ./_audit/ -run TestFinding1 -count=1

import (
	"encoding/json"
	"testing"

	"github.com/trustbloc/sidetree-core-go/pkg/canonicalizer"
)

func TestFinding1NonJSONNumbersAccepted(t *testing.T) {
	inputs := []string{
		`{"a":0x1p4}`,  // hexadecimal float -> 16
		`{"a":0X1.8P1}`, // -> 3
		`{"a":1_0}`,    // digit separator -> 10
		`{"a":1e1_0}`,  // -> 10000000000
		`{"a":+1}`,     // explicit plus sign
		`{"a":01}`,     // leading zero
		`{"a":-00}`,    // leading zeros
		`{"a":.5}`,     // no integer part
		`{"a":5.}`,     // no fraction digits
		`{"a":1.e5}`,   // no fraction digits before exponent
		`[0x_1p0]`,     // underscore after base prefix -> 1
	}

	for _, in := range inputs {
		if json.Valid([]byte(in)) {
			t.Fatalf("test error: %s is valid JSON", in)
		}

		out, err := canonicalizer.MarshalCanonical([]byte(in))
		if err == nil {
			t.Errorf("malformed JSON %s accepted: canonical form %s (encoding/json and RFC 8259 reject the input)", in, out)
		}
	}
}
