package txnprovider

// C13 finding 1: the batch-file writer (OperationHandler) does not apply the protocol's batch file size limits
// (MaxProofFileSize, MaxChunkFileSize, MaxCoreIndexFileSize, MaxProvisionalIndexFileSize, MaxMemoryDecompressionFactor)
// that the reader (OperationProvider) of the same protocol version enforces. A maximum-size batch of valid operations
// is written and anchored, but cannot be read back.
//
// Parameters: the default parameter set of the Sidetree v1 specification (10000 operations per batch, 2.5 MB proof
// files, ...). Operations: 10000 client-built update requests for distinct suffixes, each within MaxOperationSize,
// signed with a signer whose key id ("kid", allowed in the protected header) is about 1.2 kB long.

import (
	"crypto/ecdsa"
	"crypto/elliptic"
	"crypto/rand"
	"encoding/json"
	"fmt"
	"reflect"
	"testing"

	"github.com/trustbloc/sidetree-core-go/pkg/api/operation"
	"github.com/trustbloc/sidetree-core-go/pkg/api/txn"
	"github.com/trustbloc/sidetree-core-go/pkg/commitment"
	"github.com/trustbloc/sidetree-core-go/pkg/compression"
	"github.com/trustbloc/sidetree-core-go/pkg/encoder"
	"github.com/trustbloc/sidetree-core-go/pkg/mocks"
	"github.com/trustbloc/sidetree-core-go/pkg/util/ecsigner"
	"github.com/trustbloc/sidetree-core-go/pkg/util/pubkey"
	"github.com/trustbloc/sidetree-core-go/pkg/versions/1_0/client"
	"github.com/trustbloc/sidetree-core-go/pkg/versions/1_0/operationparser"
)

func TestC13Finding1_WriterIgnoresFileSizeLimits(t *testing.T) {
	p := mocks.NewMockProtocolClient().Protocol
	// parameter defaults of the Sidetree specification
	p.MaxOperationCount = 10000
	p.MaxCoreIndexFileSize = 1000000
	p.MaxProvisionalIndexFileSize = 1000000
	p.MaxProofFileSize = 2500000
	p.MaxChunkFileSize = 10000000
	p.MaxDeltaSize = 1000
	p.MaxOperationSize = 2500
	p.MaxMemoryDecompressionFactor = 3

	parser := operationparser.New(p)

	kid := make([]byte, 950)

	var ops []*operation.QueuedOperation

	for i := 0; i < int(p.MaxOperationCount); i++ {
		info, err := generateUpdateRequestInfo(i) // distinct suffix "update-<i>"
		if err != nil {
			t.Fatal(err)
		}

		priv, err := ecdsa.GenerateKey(elliptic.P256(), rand.Reader)
		if err != nil {
			t.Fatal(err)
		}

		jwk, err := pubkey.GetPublicKeyJWK(&priv.PublicKey)
		if err != nil {
			t.Fatal(err)
		}

		_, _ = rand.Read(kid)

		info.UpdateKey = jwk
		info.RevealValue, _ = commitment.GetRevealValue(jwk, sha2_256)
		info.Signer = ecsigner.New(priv, "ES256", encoder.EncodeToString(kid))

		req, err := client.NewUpdateRequest(info)
		if err != nil {
			t.Fatal(err)
		}

		// every operation is valid at intake (this includes the MaxOperationSize check)
		if _, err = parser.Parse(defaultNS, req); err != nil {
			t.Fatalf("operation %d is not valid: %v", i, err)
		}

		ops = append(ops, &operation.QueuedOperation{OperationRequest: req, Namespace: defaultNS, UniqueSuffix: info.DidSuffix})
	}

	cas := mocks.NewMockCasClient(nil)
	cp := compression.New(compression.WithDefaultAlgorithms())

	handler := NewOperationHandler(p, cas, cp, parser, &mocks.MetricsProvider{})

	info, err := handler.PrepareTxnFiles(ops)
	if err != nil {
		// refusing / splitting the batch would be fine as long as nothing unreadable is anchored; today this does not happen
		t.Fatalf("PrepareTxnFiles: %v", err)
	}

	if len(info.OperationReferences) != len(ops) || len(info.AdditionalOperations) != 0 || len(info.ExpiredOperations) != 0 {
		t.Fatalf("expected all %d operations to be reported as included", len(ops))
	}

	provider := NewOperationProvider(p, operationparser.New(p), cas, cp)

	got, err := provider.GetTxnOperations(&txn.SidetreeTxn{AnchorString: info.AnchorString, Namespace: defaultNS})
	if err != nil {
		t.Fatalf("anchor string %s written for %d included operations cannot be read back: %v",
			info.AnchorString, len(info.OperationReferences), err)
	}

	if len(got) != len(ops) {
		t.Fatalf("read back %d operations, expected %d", len(got), len(ops))
	}

	for i := range got {
		var a, b interface{}
		_ = json.Unmarshal(got[i].OperationRequest, &a)
		_ = json.Unmarshal(ops[i].OperationRequest, &b)

		if !reflect.DeepEqual(a, b) {
			t.Fatal(fmt.Sprintf("operation %d differs", i))
		}
	}
}
