package txnprovider

// C13 finding 2: MaxDeltaSize is enforced on the canonical (JCS) form of a delta, but the chunk file is written with
// encoding/json's HTML escaping ('<', '>', '&' become \\u003c, \\u003e, \\u0026: 1 byte -> 6 bytes; U+2028/U+2029:
// 3 bytes -> 6 bytes). The reader bounds the decompressed chunk file by MaxChunkFileSize * MaxMemoryDecompressionFactor.
// With the default parameter set of the Sidetree specification - where MaxOperationCount * MaxDeltaSize (10 MB) is three
// times below that bound (30 MB) - a maximum-size batch of valid creates whose documents contain '<' characters
// is written and anchored, but cannot be read back.

import (
	"encoding/json"
	"fmt"
	"reflect"
	"strings"
	"testing"

	"github.com/trustbloc/sidetree-core-go/pkg/api/operation"
	"github.com/trustbloc/sidetree-core-go/pkg/api/txn"
	"github.com/trustbloc/sidetree-core-go/pkg/commitment"
	"github.com/trustbloc/sidetree-core-go/pkg/compression"
	"github.com/trustbloc/sidetree-core-go/pkg/jws"
	"github.com/trustbloc/sidetree-core-go/pkg/mocks"
	"github.com/trustbloc/sidetree-core-go/pkg/versions/1_0/client"
	"github.com/trustbloc/sidetree-core-go/pkg/versions/1_0/operationparser"
)

func TestC13Finding2_ChunkFileEscapingExceedsDecompressionLimit(t *testing.T) {
	p := mocks.NewMockProtocolClient().Protocol
	// parameter defaults of the Sidetree specification
	p.MaxOperationCount = 10000
	p.MaxCoreIndexFileSize = 1000000
	p.MaxProvisionalIndexFileSize = 1000000
	p.MaxProofFileSize = 2500000
	p.MaxChunkFileSize = 10000000
	p.MaxDeltaSize = 1000
	p.MaxOperationSize = 2500
	p.MaxMemoryDecompressionFactor = 3

	parser := operationparser.New(p)

	rc, err := commitment.GetCommitment(&jws.JWK{Crv: "crv", Kty: "kty", X: "x"}, sha2_256)
	if err != nil {
		t.Fatal(err)
	}

	uc, err := commitment.GetCommitment(&jws.JWK{Crv: "crv", Kty: "kty", X: "x", Y: "y"}, sha2_256)
	if err != nil {
		t.Fatal(err)
	}

	var ops []*operation.QueuedOperation

	for i := 0; i < int(p.MaxOperationCount); i++ {
		req, e := client.NewCreateRequest(&client.CreateRequestInfo{
			OpaqueDocument:     fmt.Sprintf(`{"note":"%d %s"}`, i, strings.Repeat("<", 800)),
			RecoveryCommitment: rc,
			UpdateCommitment:   uc,
			MultihashCode:      sha2_256,
		})
		if e != nil {
			t.Fatal(e)
		}

		// every operation is valid at intake (this includes the MaxDeltaSize and MaxOperationSize checks)
		if _, e = parser.Parse(defaultNS, req); e != nil {
			t.Fatalf("operation %d is not valid: %v", i, e)
		}

		ops = append(ops, &operation.QueuedOperation{OperationRequest: req, Namespace: defaultNS})
	}

	cas := mocks.NewMockCasClient(nil)
	cp := compression.New(compression.WithDefaultAlgorithms())

	handler := NewOperationHandler(p, cas, cp, parser, &mocks.MetricsProvider{})

	info, err := handler.PrepareTxnFiles(ops)
	if err != nil {
		t.Fatalf("PrepareTxnFiles: %v", err)
	}

	if len(info.OperationReferences) != len(ops) || len(info.AdditionalOperations) != 0 || len(info.ExpiredOperations) != 0 {
		t.Fatalf("expected all %d operations to be reported as included", len(ops))
	}

	provider := NewOperationProvider(p, operationparser.New(p), cas, cp)

	got, err := provider.GetTxnOperations(&txn.SidetreeTxn{AnchorString: info.AnchorString, Namespace: defaultNS})
	if err != nil {
		t.Fatalf("anchor string %s written for %d included operations cannot be read back: %v",
			info.AnchorString, len(info.OperationReferences), err)
	}

	if len(got) != len(ops) {
		t.Fatalf("read back %d operations, expected %d", len(got), len(ops))
	}

	for i := range got {
		var a, b interface{}
		_ = json.Unmarshal(got[i].OperationRequest, &a)
		_ = json.Unmarshal(ops[i].OperationRequest, &b)

		if got[i].Type != operation.TypeCreate || !reflect.DeepEqual(a, b) {
			t.Fatalf("operation %d differs", i)
		}
	}
}
