package doccomposer

import (
	"encoding/json"
	"testing"

	"github.com/trustbloc/sidetree-core-go/pkg/document"
	"github.com/trustbloc/sidetree-core-go/pkg/patch"
	"github.com/trustbloc/sidetree-core-go/pkg/versions/1_0/operationparser/patchvalidator"
)

// C17 finding 2: removing an id / URI that is not in the document is not ignored when the document has no such
// section: the remove patches create the section with value null. The difference is observable: a following JSON
// patch that removes (or a 'test' that inspects) the member succeeds although it fails without the "ignored" removal.
func TestAuditC17B_Finding2_RemoveAbsentCreatesNullSection(t *testing.T) {
	parse := func(s string) patch.Patch {
		p, err := patch.FromBytes([]byte(s))
		if err != nil {
			t.Fatal(err)
		}

		if err := patchvalidator.Validate(p); err != nil {
			t.Fatalf("validator refuses %s: %v", s, err)
		}

		return p
	}

	removeAbsentURI := parse(`{"action":"remove-also-known-as","uris":["did:example:absent"]}`)
	removeAbsentKey := parse(`{"action":"remove-public-keys","ids":["absent"]}`)
	removeAbsentSvc := parse(`{"action":"remove-services","ids":["absent"]}`)
	jsonRemove := parse(`{"action":"ietf-json-patch","patches":[{"op":"remove","path":"/alsoKnownAs"}]}`)

	doc := document.Document{"name": "value"}
	before, _ := json.Marshal(doc)

	result, err := New().ApplyPatches(doc, []patch.Patch{removeAbsentURI, removeAbsentKey, removeAbsentSvc})
	if err != nil {
		t.Fatal(err)
	}

	after, _ := json.Marshal(result)
	if string(before) != string(after) {
		t.Errorf("removing absent ids / URIs changed the document: %s -> %s", before, after)
	}

	// observable consequence: the same JSON patch is refused on the document, but accepted after the "no-op" removal
	_, errWithout := New().ApplyPatches(doc, []patch.Patch{jsonRemove})
	_, errWith := New().ApplyPatches(doc, []patch.Patch{removeAbsentURI, jsonRemove})

	if (errWithout == nil) != (errWith == nil) {
		t.Errorf("removal of an absent URI is not ignored: [json remove /alsoKnownAs] -> %v, [remove absent URI, json remove /alsoKnownAs] -> %v",
			errWithout, errWith)
	}
}
