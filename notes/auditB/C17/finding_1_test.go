package doccomposer

import (
	"encoding/json"
	"testing"

	"github.com/trustbloc/sidetree-core-go/pkg/document"
	"github.com/trustbloc/sidetree-core-go/pkg/patch"
	"github.com/trustbloc/sidetree-core-go/pkg/versions/1_0/operationparser/patchvalidator"
)

// C17 finding 1: a replace patch copies the raw "publicKeys" / "services" members into the document instead of the
// keys and services they contain. Non-object entries (which the validator and every other patch skip) stay in the
// document, and the next set operation - even the removal of an absent id - silently drops them.
func TestAuditC17B_Finding1_ReplaceKeepsNonKeyEntries(t *testing.T) {
	const key = `{"id":"k1","type":"JsonWebKey2020","purposes":["authentication"],` +
		`"publicKeyJwk":{"kty":"EC","crv":"P-256","x":"PUymIqdtF_qxaAqPABSw-C-owT1KYYQbsMKFM-L9fJA","y":"nM84jDHCMOTGTh_ZdHq4dBBdo4Z5PkEOW9jA8z8IsGc"}}`
	const svc = `{"id":"s1","type":"t","serviceEndpoint":"http://example.com"}`

	replace, err := patch.FromBytes([]byte(`{"action":"replace","document":{"publicKeys":["junk",` + key + `],"services":[7,` + svc + `]}}`))
	if err != nil {
		t.Fatal(err)
	}

	removeAbsent, err := patch.FromBytes([]byte(`{"action":"remove-public-keys","ids":["absent"]}`))
	if err != nil {
		t.Fatal(err)
	}

	removeAbsentSvc, err := patch.FromBytes([]byte(`{"action":"remove-services","ids":["absent"]}`))
	if err != nil {
		t.Fatal(err)
	}

	// the patches are acceptable to the library's own validator
	for _, p := range []patch.Patch{replace, removeAbsent, removeAbsentSvc} {
		if err := patchvalidator.Validate(p); err != nil {
			t.Skipf("validator refuses the patch (%v): nothing to show", err)
		}
	}

	afterReplace, err := New().ApplyPatches(make(document.Document), []patch.Patch{replace})
	if err != nil {
		t.Fatal(err)
	}

	afterRemove, err := New().ApplyPatches(afterReplace, []patch.Patch{removeAbsent, removeAbsentSvc})
	if err != nil {
		t.Fatal(err)
	}

	a, _ := json.Marshal(afterReplace)
	b, _ := json.Marshal(afterRemove)

	// (1) "a replace patch resets the document to exactly the given keys and services"
	var want interface{}
	_ = json.Unmarshal([]byte(`{"publicKey":[`+key+`],"service":[`+svc+`]}`), &want)
	wantBytes, _ := json.Marshal(want)

	if string(a) != string(wantBytes) {
		t.Errorf("replace did not reset the document to exactly the given keys and services:\n got  %s\n want %s", a, wantBytes)
	}

	// (2) "removing deletes and ignores absent ids": removing ids that are not there must not change the document
	if string(a) != string(b) {
		t.Errorf("removing absent ids changed the document:\n before %s\n after  %s", a, b)
	}
}
