package txnprovider

// C14 finding 1: a provisional index file whose chunk entry carries no chunk file URI
// ({"chunks":[{}]}, {"chunks":[null]}, {"chunks":[{"chunkFileUri":""}]}) is not rejected: the reader
// asks CAS (and the alternate sources) for the empty address and accepts whatever is served there.

import (
	"encoding/json"
	"fmt"
	"strings"
	"testing"

	"github.com/trustbloc/sidetree-core-go/pkg/api/txn"
	"github.com/trustbloc/sidetree-core-go/pkg/compression"
	"github.com/trustbloc/sidetree-core-go/pkg/mocks"
	"github.com/trustbloc/sidetree-core-go/pkg/versions/1_0/operationparser"
)

type f1CAS map[string][]byte

func (m f1CAS) Read(key string) ([]byte, error) {
	b, ok := m[key]
	if !ok {
		return nil, fmt.Errorf("content not available for %q", key)
	}

	return b, nil
}

func f1Put(t *testing.T, cas f1CAS, key string, v interface{}) {
	t.Helper()

	b, err := json.Marshal(v)
	if err != nil {
		t.Fatal(err)
	}

	if s, ok := v.(string); ok {
		b = []byte(s)
	}

	c, err := compression.New(compression.WithDefaultAlgorithms()).Compress(compressionAlgorithm, b)
	if err != nil {
		t.Fatal(err)
	}

	cas[key] = c
}

func TestAuditFinding1_MissingChunkReferenceAccepted(t *testing.T) {
	bf, err := generateDefaultBatchFiles() // 1 create, 1 recover, 1 update, 1 deactivate
	if err != nil {
		t.Fatal(err)
	}

	pc := mocks.NewMockProtocolClient()
	cp := compression.New(compression.WithDefaultAlgorithms())

	for _, chunks := range []string{`[{}]`, `[null]`, `[{"chunkFileUri":""}]`, `[{"chunkFileUri":null}]`} {
		pif := fmt.Sprintf(`{"provisionalProofFileUri":"provisionalProofURI","chunks":%s,`+
			`"operations":{"update":[{"didSuffix":%q,"revealValue":%q}]}}`, chunks,
			bf.ProvisionalIndex.Operations.Update[0].DidSuffix, bf.ProvisionalIndex.Operations.Update[0].RevealValue)

		// (a) the CAS itself serves bytes under the empty address
		cas := f1CAS{}
		f1Put(t, cas, "coreIndexURI", bf.CoreIndex)
		f1Put(t, cas, "coreProofURI", bf.CoreProof)
		f1Put(t, cas, "provisionalIndexURI", pif)
		f1Put(t, cas, "provisionalProofURI", bf.ProvisionalProof)
		f1Put(t, cas, "", bf.Chunk)

		provider := NewOperationProvider(pc.Protocol, operationparser.New(pc.Protocol), cas, cp)

		ops, err := provider.GetTxnOperations(&txn.SidetreeTxn{Namespace: defaultNS, AnchorString: "4.coreIndexURI"})
		if err == nil {
			t.Errorf("chunks=%s: provisional index file without a chunk file URI was accepted (%d operations returned); "+
				"the property requires a missing chunk reference to be rejected", chunks, len(ops))
		} else if !strings.Contains(err.Error(), "missing chunk file URI") {
			t.Logf("chunks=%s: rejected only because of the CAS: %v", chunks, err)
		}

		// (b) the CAS fails for the empty address, an alternate source (named by whoever anchored the batch)
		// answers for "<source>/" + ""
		cas2 := f1CAS{}
		f1Put(t, cas2, "coreIndexURI", bf.CoreIndex)
		f1Put(t, cas2, "coreProofURI", bf.CoreProof)
		f1Put(t, cas2, "provisionalIndexURI", pif)
		f1Put(t, cas2, "provisionalProofURI", bf.ProvisionalProof)
		f1Put(t, cas2, "https://peer.example/cas/", bf.Chunk)

		provider = NewOperationProvider(pc.Protocol, operationparser.New(pc.Protocol), cas2, cp,
			WithSourceCASURIFormatter(func(casURI, source string) (string, error) {
				return source + "/" + casURI, nil
			}))

		ops, err = provider.GetTxnOperations(&txn.SidetreeTxn{
			Namespace: defaultNS, AnchorString: "4.coreIndexURI",
			AlternateSources: []string{"https://peer.example/cas"},
		})
		if err == nil {
			t.Errorf("chunks=%s (alternate source): provisional index file without a chunk file URI was accepted "+
				"(%d operations returned)", chunks, len(ops))
		}
	}
}
