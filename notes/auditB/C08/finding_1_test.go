package dochandler

import (
	"sync"
	"testing"

	"github.com/stretchr/testify/require"

	"github.com/trustbloc/sidetree-core-go/pkg/api/operation"
	"github.com/trustbloc/sidetree-core-go/pkg/batch"
	"github.com/trustbloc/sidetree-core-go/pkg/batch/opqueue"
	"github.com/trustbloc/sidetree-core-go/pkg/canonicalizer"
	"github.com/trustbloc/sidetree-core-go/pkg/encoder"
	"github.com/trustbloc/sidetree-core-go/pkg/mocks"
	"github.com/trustbloc/sidetree-core-go/pkg/processor"
	"github.com/trustbloc/sidetree-core-go/pkg/versions/1_0/model"
)

// a faithful in-memory unpublished operation store (keyed by suffix).
type c08UnpublishedStore struct {
	sync.Mutex
	ops map[string][]*operation.AnchoredOperation
}

func (s *c08UnpublishedStore) Put(op *operation.AnchoredOperation) error {
	s.Lock()
	defer s.Unlock()
	s.ops[op.UniqueSuffix] = append(s.ops[op.UniqueSuffix], op)

	return nil
}

func (s *c08UnpublishedStore) Delete(op *operation.AnchoredOperation) error {
	s.Lock()
	defer s.Unlock()
	delete(s.ops, op.UniqueSuffix)

	return nil
}

func (s *c08UnpublishedStore) Get(suffix string) ([]*operation.AnchoredOperation, error) {
	s.Lock()
	defer s.Unlock()

	return s.ops[suffix], nil
}

// C08: "a long-form DID that is not yet anchored resolves only if its initial state is canonically encoded, its
// suffix is the hash of the embedded suffix data and the embedded delta matches the delta hash; any alteration of the
// embedded initial state is rejected."
//
// With the unpublished operation store configured, a create that has been submitted but NOT anchored makes every
// long-form DID with that suffix resolve, whatever initial state is embedded.
func TestC08Finding1_LongFormNotCheckedWhileCreateIsUnpublished(t *testing.T) {
	pc := newMockProtocolClient()
	opStore := mocks.NewMockOperationStore(nil) // the anchored operations: stays EMPTY in this test
	unpublished := &c08UnpublishedStore{ops: map[string][]*operation.AnchoredOperation{}}

	proc := processor.New("test", opStore, pc, processor.WithUnpublishedOperationStore(unpublished))

	writer, err := batch.New("test", &BatchContext{
		ProtocolClient: pc,
		CasClient:      mocks.NewMockCasClient(nil),
		AnchorWriter:   mocks.NewMockAnchorWriter(nil),
		OpQueue:        &opqueue.MemQueue{},
	})
	require.NoError(t, err)
	// the writer is not started: nothing is ever anchored

	dh := New(namespace, []string{alias}, pc, writer, proc, &mocks.MetricsProvider{},
		WithUnpublishedOperationStore(unpublished, []operation.Type{operation.TypeCreate}))

	// DID A (genuine) and DID B (another, self-consistent create request)
	opA := getCreateOperation()

	reqB, err := getCreateRequestWithDoc(`{"publicKey":[{"id":"other","type":"JsonWebKey2020","purposes":["authentication"],
		"publicKeyJwk":{"kty":"EC","crv":"P-256K","x":"PUymIqdtF_qxaAqPABSw-C-owT1KYYQbsMKFM-L9fJA","y":"nM84jDHCMOTGTh_ZdHq4dBBdo4Z5PkEOW9jA8z8IsGc"}}]}`)
	require.NoError(t, err)

	segment := func(v interface{}) string {
		b, e := canonicalizer.MarshalCanonical(v)
		require.NoError(t, e)

		return encoder.EncodeToString(b)
	}

	stateA := segment(model.CreateRequest{Delta: opA.Delta, SuffixData: opA.SuffixData})
	stateB := segment(model.CreateRequest{Delta: reqB.Delta, SuffixData: reqB.SuffixData})
	// suffix data of A kept, delta replaced: the embedded delta does not match the embedded delta hash
	stateMixed := segment(model.CreateRequest{Delta: reqB.Delta, SuffixData: opA.SuffixData})
	stateEmpty := segment(map[string]interface{}{}) // "e30"

	altered := map[string]string{
		"initial state of another DID":             stateB,
		"delta that does not match the delta hash": stateMixed,
		"empty object (no suffix data, no delta)":  stateEmpty,
	}

	// before the create is submitted the checks are in place: only the genuine initial state resolves
	_, err = dh.ResolveDocument(opA.ID + ":" + stateA)
	require.NoError(t, err)

	for name, st := range altered {
		_, err = dh.ResolveDocument(opA.ID + ":" + st)
		require.Error(t, err, "before submission: "+name)
	}

	// submit the create: it is stored as unpublished, nothing is anchored
	_, err = dh.ProcessOperation(opA.OperationRequest, 0)
	require.NoError(t, err)

	anchored, err := opStore.Get(opA.UniqueSuffix)
	require.True(t, err != nil || len(anchored) == 0, "DID must not be anchored")

	for name, st := range altered {
		res, err := dh.ResolveDocument(opA.ID + ":" + st)
		if err == nil {
			t.Errorf("not yet anchored long-form DID with altered initial state (%s) resolved: id=%s", name, res.Document.ID())
		}
	}
}
