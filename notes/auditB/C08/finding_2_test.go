package operationparser

import (
	"encoding/json"
	"testing"

	"github.com/stretchr/testify/require"

	"github.com/trustbloc/sidetree-core-go/pkg/api/protocol"
	"github.com/trustbloc/sidetree-core-go/pkg/hashing"
	"github.com/trustbloc/sidetree-core-go/pkg/internal/signutil"
)

// C08: "reveal values and commitments depend only on the JSON value of the hashed model ... A model is accepted
// against a multihash exactly when the multihash is the hash of the model's canonical form under the algorithm the
// multihash itself names."
//
// The key of an update / recover / deactivate request is hashed after it has been decoded into the five-member
// jws.JWK struct: members the struct does not know ("alg", "use", "kid", "key_ops" - all registered JWK parameters)
// and upper-case spellings are dropped or folded before hashing. So
//
//	(a) the reveal value that IS the hash of the canonical form of the submitted key is refused, and
//	(b) a reveal value that is NOT the hash of the submitted key (the hash of another JSON value) is accepted.
func TestC08Finding2_RevealValueIsNotTheHashOfTheSubmittedKey(t *testing.T) {
	parser := New(protocol.Protocol{
		MaxOperationHashLength: maxHashLength,
		MaxDeltaSize:           maxDeltaSize,
		MultihashAlgorithms:    []uint{sha2_256},
		SignatureAlgorithms:    []string{"alg"},
		KeyAlgorithms:          []string{"crv"},
		Patches:                []string{"add-public-keys", "remove-public-keys", "add-services", "remove-services", "ietf-json-patch"},
	})

	delta, err := getUpdateDelta()
	require.NoError(t, err)

	deltaHash, err := hashing.CalculateModelMultihash(delta, sha2_256)
	require.NoError(t, err)

	// the key as the client holds (and committed to) it: a JWK with the registered "alg" parameter
	submittedKey := map[string]interface{}{"kty": "kty", "crv": "crv", "x": "x", "y": "y", "alg": "ES256K"}
	// another JSON value: the same key without "alg"
	strippedKey := map[string]interface{}{"kty": "kty", "crv": "crv", "x": "x", "y": "y"}

	hashOfSubmitted, err := hashing.CalculateModelMultihash(submittedKey, sha2_256)
	require.NoError(t, err)

	hashOfStripped, err := hashing.CalculateModelMultihash(strippedKey, sha2_256)
	require.NoError(t, err)
	require.NotEqual(t, hashOfSubmitted, hashOfStripped)

	request := func(revealValue string) []byte {
		compactJWS, e := signutil.SignModel(map[string]interface{}{"updateKey": submittedKey, "deltaHash": deltaHash}, NewMockSigner())
		require.NoError(t, e)

		b, e := json.Marshal(map[string]interface{}{
			"type": "update", "didSuffix": "suffix", "revealValue": revealValue, "signedData": compactJWS, "delta": delta,
		})
		require.NoError(t, e)

		return b
	}

	for _, batch := range []bool{false, true} {
		_, errTrue := parser.ParseUpdateOperation(request(hashOfSubmitted), batch)
		_, errOther := parser.ParseUpdateOperation(request(hashOfStripped), batch)

		if errTrue != nil {
			t.Errorf("batch=%v: reveal value that is the hash of the submitted key's canonical form is refused: %v", batch, errTrue)
		}

		if errOther == nil {
			t.Errorf("batch=%v: reveal value that is the hash of a different JSON value (key without \"alg\") is accepted for the submitted key", batch)
		}
	}
}
