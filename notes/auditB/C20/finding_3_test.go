//go:build verif

package auditc20b

// Finding 3 (C20): the batch writer never checks the size of the batch files it writes against the limits of its own
// protocol version (MaxProofFileSize, MaxChunkFileSize, MaxCoreIndexFileSize, MaxProvisionalIndexFileSize), while the
// reader (txnprovider.OperationProvider.readFromCAS) rejects a file that exceeds them. The cutter bounds a batch by
// MaxOperationCount only, and each operation by MaxOperationSize / MaxDeltaSize only - so whenever
// MaxOperationCount x (largest signed data an operation may carry) exceeds MaxProofFileSize (this holds for the default
// parameters of the Sidetree specification and for any "comfortable" batch size), a batch of individually valid,
// accepted operations is written and anchored - and then rejected as a whole by every observer. All operations in it,
// including those of uninvolved DIDs, are lost for good although their submitters got a success response.
//
// run: go test -tags verif ./pkg/auditc20b/ -run TestFinding3 -count=1

import (
	"crypto/rand"
	"testing"

	"github.com/stretchr/testify/require"

	"github.com/trustbloc/sidetree-core-go/pkg/api/protocol"
	"github.com/trustbloc/sidetree-core-go/pkg/encoder"
	"github.com/trustbloc/sidetree-core-go/pkg/mocks"
	"github.com/trustbloc/sidetree-core-go/pkg/patch"
	"github.com/trustbloc/sidetree-core-go/pkg/util/ecsigner"
	"github.com/trustbloc/sidetree-core-go/pkg/versions/1_0/client"
)

func TestFinding3_WriterWritesBatchFilesTheReaderRejects(t *testing.T) {
	// the mock parameters (operation size 2000, batch files 20000 compressed / 60000 uncompressed) with a batch size of 25
	p := mocks.GetDefaultProtocolParameters()
	p.MaxOperationCount = 25

	e := newEnv(t, envOpts{protocols: []protocol.Protocol{p}})

	dids := make([]*did, p.MaxOperationCount)
	for i := range dids {
		dids[i] = newCreate(t, "a")
		_, err := e.submit(dids[i].create)
		require.NoError(t, err)
	}

	e.flush()

	for _, d := range dids {
		_, err := e.resolve(ns + ":" + d.suffix)
		require.NoError(t, err)
	}

	// dids[0] belongs to an ordinary user who adds a service
	_, err := e.submit(dids[0].newUpdate(t, addServicePatch(t, "s1"), 0, 0))
	require.NoError(t, err)

	// the other updates are signed by keys with a long (random) key id: each of them is within the operation size limit
	for _, d := range dids[1:] {
		kid := make([]byte, 600)
		_, err = rand.Read(kid)
		require.NoError(t, err)

		next := newKey(t)

		req, err := client.NewUpdateRequest(&client.UpdateRequestInfo{
			DidSuffix:        d.suffix,
			Patches:          []patch.Patch{addServicePatch(t, "s1")},
			UpdateCommitment: next.commitment(t),
			UpdateKey:        d.update.jwk,
			MultihashCode:    sha2256,
			Signer:           ecsigner.New(d.update.priv, "ES256", encoder.EncodeToString(kid)),
			RevealValue:      d.update.reveal(t),
		})
		require.NoError(t, err)
		require.LessOrEqual(t, len(req), int(p.MaxOperationSize))

		d.update = next

		_, err = e.submit(req)
		require.NoError(t, err)
	}

	before := len(e.ledger.txns)
	e.flush()
	require.Equal(t, before+1, len(e.ledger.txns), "one batch with the 25 updates was written and anchored")
	require.EqualValues(t, 0, e.queue.Len())

	// what every observer gets when it reads that batch
	cur, err := e.pc.Current()
	require.NoError(t, err)
	_, err = cur.OperationProvider().GetTxnOperations(&e.ledger.txns[before])
	t.Logf("reader: %v", err)

	rr, err := e.resolve(ns + ":" + dids[0].suffix)
	require.NoError(t, err)
	require.Equal(t, []string{"svc", "s1"}, serviceIDs(t, rr),
		"the accepted, batched and anchored update of the uninvolved DID is lost: the batch it was written to cannot be read")
}
