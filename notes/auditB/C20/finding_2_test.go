//go:build verif

package auditc20b

// Finding 2 (C20): the maximum operation size is applied to two different serialisations of one operation.
// Intake (Parser.Parse -> ParseOperation) measures the bytes the client submitted. After anchoring, the observer
// rebuilds the request from the batch files (model.GetAnchoredOperation, JCS) and the resolver's
// Parser.GetRevealValue / Parser.GetCommitment run ParseOperation - including the size check - on the REBUILT bytes.
// JCS spells numbers out (1e20 -> 100000000000000000000), so the rebuilt request can be larger than the submitted
// one. An update that is within every limit at intake (operation size, canonical delta size) is accepted, batched,
// anchored and stored - and then silently skipped by every resolution ("operation size[..] exceeds maximum operation
// size[..]"); so is every later operation of the DID that builds on it.
//
// run: go test -tags verif ./pkg/auditc20b/ -run TestFinding2 -count=1

import (
	"bytes"
	"strings"
	"testing"

	"github.com/stretchr/testify/require"

	"github.com/trustbloc/sidetree-core-go/pkg/api/operation"
	"github.com/trustbloc/sidetree-core-go/pkg/mocks"
	"github.com/trustbloc/sidetree-core-go/pkg/patch"
	"github.com/trustbloc/sidetree-core-go/pkg/util/ecsigner"
	"github.com/trustbloc/sidetree-core-go/pkg/versions/1_0/client"
)

func TestFinding2_AnchoredUpdateSkippedBySizeCheckOnRebuiltRequest(t *testing.T) {
	for _, withStore := range []bool{false, true} {
		o := envOpts{}
		if withStore {
			o.unpubTypes = []operation.Type{operation.TypeUpdate}
		}

		e := newEnv(t, o)
		p := mocks.GetDefaultProtocolParameters()

		d := newCreate(t, "a")
		_, err := e.submit(d.create)
		require.NoError(t, err)
		e.flush()

		// an update with two patches: an opaque array of numbers and a new service; signed with a key that has a long key id
		numbers, err := patch.NewJSONPatch(`[{"op":"add","path":"/n","value":[` + strings.TrimSuffix(strings.Repeat("1e20,", 33), ",") + `]}]`)
		require.NoError(t, err)

		next := newKey(t)

		canonical, err := client.NewUpdateRequest(&client.UpdateRequestInfo{
			DidSuffix:        d.suffix,
			Patches:          []patch.Patch{numbers, addServicePatch(t, "s1")},
			UpdateCommitment: next.commitment(t),
			UpdateKey:        d.update.jwk,
			MultihashCode:    sha2256,
			Signer:           ecsigner.New(d.update.priv, "ES256", strings.Repeat("k", 500)),
			RevealValue:      d.update.reveal(t),
		})
		require.NoError(t, err)

		d.update = next

		// the client submits the same JSON value with the numbers in their short spelling
		submitted := bytes.ReplaceAll(canonical, []byte("100000000000000000000"), []byte("1e20"))

		t.Logf("submitted request: %d bytes, request rebuilt after anchoring: %d bytes, maximum operation size: %d",
			len(submitted), len(canonical), p.MaxOperationSize)
		require.LessOrEqual(t, len(submitted), int(p.MaxOperationSize))

		_, err = e.submit(submitted)
		require.NoError(t, err, "the update is accepted")

		e.flush()

		stored, err := e.store.Get(d.suffix)
		require.NoError(t, err)
		require.Len(t, stored, 2, "create and update are anchored and stored")

		// what the resolver gets when it looks at the stored update
		_, rvErr := e.pc.CurrentVersion.OperationParser().GetRevealValue(stored[1].OperationRequest)
		t.Logf("resolver: %v", rvErr)

		rr, err := e.resolve(ns + ":" + d.suffix)
		require.NoError(t, err)
		require.Contains(t, serviceIDs(t, rr), "s1",
			"the accepted and anchored update is not applied (unpublished store: %v)", withStore)
	}
}
