//go:build verif

package auditc20b

// Finding 1 (C20): an operation that is accepted by the document handler but expires before its batch is cut is
// dropped by the batch writer (txnprovider.OperationHandler reports it in AnchoringInfo.ExpiredOperations, which
// batch.Writer ignores) - yet it stays in the unpublished-operation store for ever, because only anchored operations
// are deleted from it. Resolution keeps applying an operation that was never anchored: the same history resolves
// differently with and without an unpublished-operation store, and a dropped deactivate bricks the DID.
//
// run: go test -tags verif ./pkg/auditc20b/ -run TestFinding1 -count=1

import (
	"sync/atomic"
	"testing"
	"time"

	"github.com/stretchr/testify/require"

	"github.com/trustbloc/sidetree-core-go/pkg/api/operation"
	"github.com/trustbloc/sidetree-core-go/pkg/versions/1_0/operationparser"
)

// skewedClock is an anchor time validator (operationparser.TimeValidator) like the one a node configures: the
// reference time is the server time (here: plus an adjustable offset, to let time pass in the test).
type skewedClock struct{ skew int64 }

func (c *skewedClock) now() int64 { return time.Now().Unix() + atomic.LoadInt64(&c.skew) }

func (c *skewedClock) Validate(from, until int64) error {
	if from == 0 && until == 0 {
		return nil
	}

	if from > c.now() {
		return operationparser.ErrOperationEarly
	}

	if until < c.now() {
		return operationparser.ErrOperationExpired
	}

	return nil
}

func TestFinding1_ExpiredUpdateStaysInUnpublishedStore(t *testing.T) {
	resolveAfter := func(withStore bool) []string {
		clock := &skewedClock{}
		o := envOpts{parserOpts: []operationparser.Option{operationparser.WithAnchorTimeValidator(clock)}}

		if withStore {
			o.unpubTypes = []operation.Type{operation.TypeUpdate, operation.TypeDeactivate}
		}

		e := newEnv(t, o)

		d := newCreate(t, "a")
		_, err := e.submit(d.create)
		require.NoError(t, err)
		e.flush()

		// the update may be anchored during the next 60 seconds; it is valid now and is accepted
		now := clock.now()
		_, err = e.submit(d.newUpdate(t, addServicePatch(t, "late"), now-10, now+60))
		require.NoError(t, err)

		// the batch is cut two minutes later (busy writer, anchoring system down, ...): the writer drops the operation
		atomic.StoreInt64(&clock.skew, 120)
		e.flush()

		stored, err := e.store.Get(d.suffix)
		require.NoError(t, err)
		require.Len(t, stored, 1, "the update must not have been anchored: the create is the DID's only stored operation")
		require.EqualValues(t, 0, e.queue.Len(), "nothing is pending")

		rr, err := e.resolve(ns + ":" + d.suffix)
		require.NoError(t, err)

		return serviceIDs(t, rr)
	}

	without := resolveAfter(false)
	with := resolveAfter(true)

	t.Logf("services without unpublished store: %v", without)
	t.Logf("services with unpublished store:    %v", with)

	// the only anchored operation of the DID is its create: both nodes have to resolve the created document
	require.Equal(t, without, with,
		"the update was dropped by the batch writer and never anchored, but is still applied from the unpublished store")
}

func TestFinding1_ExpiredDeactivateBricksDID(t *testing.T) {
	clock := &skewedClock{}
	e := newEnv(t, envOpts{
		parserOpts: []operationparser.Option{operationparser.WithAnchorTimeValidator(clock)},
		unpubTypes: []operation.Type{operation.TypeUpdate, operation.TypeDeactivate},
	})

	d := newCreate(t, "a")
	_, err := e.submit(d.create)
	require.NoError(t, err)
	e.flush()

	now := clock.now()
	_, err = e.submit(d.newDeactivate(t, now-10, now+60))
	require.NoError(t, err)

	atomic.StoreInt64(&clock.skew, 120)
	e.flush()

	stored, err := e.store.Get(d.suffix)
	require.NoError(t, err)
	require.Len(t, stored, 1, "the deactivate must not have been anchored: the create is the DID's only stored operation")
	require.EqualValues(t, 0, e.queue.Len())

	// nothing but the create was anchored: the DID is active and can be updated
	rr, err := e.resolve(ns + ":" + d.suffix)
	require.NoError(t, err)
	require.NotEqual(t, true, rr.DocumentMetadata["deactivated"], "DID resolves as deactivated although no deactivate was anchored")

	_, err = e.submit(d.newUpdate(t, addServicePatch(t, "s1"), 0, 0))
	require.NoError(t, err)
}
