package processor

// C06 finding 3: after a cut, applyResolutionOptions re-classifies the remaining operations by
// "CanonicalReference is empty" instead of by where they came from. Anchored operations of a ledger that supplies no
// canonical reference (SidetreeTxn.CanonicalReference is optional; GetTransformationInfoForPublished caters for an
// empty one) are published when nothing is cut, but become "unpublished" as soon as a version time cuts at least one
// operation off: the historical result says published=false and loses canonicalId / created, while resolving the
// truncated history itself says published=true.

import (
	"crypto/ecdsa"
	"crypto/elliptic"
	"crypto/rand"
	"encoding/json"
	"testing"

	"github.com/stretchr/testify/require"

	corehandler "github.com/trustbloc/sidetree-core-go/pkg/dochandler"
	"github.com/trustbloc/sidetree-core-go/pkg/document"
	"github.com/trustbloc/sidetree-core-go/pkg/mocks"
	"github.com/trustbloc/sidetree-core-go/pkg/versions/1_0/doctransformer/doctransformer"
)

func TestC06Finding3CutTurnsPublishedIntoUnpublished(t *testing.T) {
	recoveryKey, err := ecdsa.GenerateKey(elliptic.P256(), rand.Reader)
	require.NoError(t, err)

	updateKey, err := ecdsa.GenerateKey(elliptic.P256(), rand.Reader)
	require.NoError(t, err)

	pc := newMockProtocolClient()
	for _, v := range pc.Versions {
		v.DocumentTransformerReturns(doctransformer.New())
	}

	// history on a ledger without canonical references: create anchored at 10, update anchored at 20
	create, err := getAnchoredCreateOperation(recoveryKey, updateKey)
	require.NoError(t, err)

	create.TransactionTime = 10
	create.CanonicalReference = ""
	suffix := create.UniqueSuffix

	update, _, err := getAnchoredUpdateOperation(updateKey, suffix, 20)
	require.NoError(t, err)

	update.CanonicalReference = ""

	full := mocks.NewMockOperationStore(nil)
	require.NoError(t, full.Put(create))
	require.NoError(t, full.Put(update))

	truncated := mocks.NewMockOperationStore(nil) // only what was anchored at or before T = 15
	require.NoError(t, truncated.Put(create))

	const between = "1970-01-01T00:00:15Z"

	// processor level
	got, err := New("full", full, pc).Resolve(suffix, document.WithVersionTime(between))
	require.NoError(t, err)

	want, err := New("truncated", truncated, pc).Resolve(suffix)
	require.NoError(t, err)

	if len(got.PublishedOperations) != len(want.PublishedOperations) || len(got.UnpublishedOperations) != len(want.UnpublishedOperations) {
		t.Errorf("processor: at version time %s: %d published / %d unpublished operations; truncated history: %d published / %d unpublished",
			between, len(got.PublishedOperations), len(got.UnpublishedOperations),
			len(want.PublishedOperations), len(want.UnpublishedOperations))
	}

	// document handler level (what a client sees)
	did := mocks.DefaultNS + ":" + suffix

	gotRes, err := corehandler.New(mocks.DefaultNS, nil, pc, nil, New("full", full, pc), &mocks.MetricsProvider{}).
		ResolveDocument(did, document.WithVersionTime(between))
	require.NoError(t, err)

	wantRes, err := corehandler.New(mocks.DefaultNS, nil, pc, nil, New("truncated", truncated, pc), &mocks.MetricsProvider{}).
		ResolveDocument(did)
	require.NoError(t, err)

	gotJSON, err := json.Marshal(gotRes)
	require.NoError(t, err)

	wantJSON, err := json.Marshal(wantRes)
	require.NoError(t, err)

	if string(gotJSON) != string(wantJSON) {
		t.Errorf("handler: at version time %s:\n got  %s\n want %s (resolution of the truncated history)", between, gotJSON, wantJSON)
	}
}
