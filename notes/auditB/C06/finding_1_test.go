package processor

// C06 finding 1: the REST resolve handler reads versionId / versionTime through req.URL.Query(), which silently
// DROPS every query pair it cannot decode (bad percent escape, ';' separator). A request that carries an (unknown,
// undecodable) version id, or a version time before the first operation, is then answered with 200 and the LATEST
// state instead of an error.

import (
	"crypto/ecdsa"
	"crypto/elliptic"
	"crypto/rand"
	"io"
	"net/http"
	"net/http/httptest"
	"strings"
	"testing"

	"github.com/gorilla/mux"
	"github.com/stretchr/testify/require"

	corehandler "github.com/trustbloc/sidetree-core-go/pkg/dochandler"
	"github.com/trustbloc/sidetree-core-go/pkg/mocks"
	resthandler "github.com/trustbloc/sidetree-core-go/pkg/restapi/dochandler"
	"github.com/trustbloc/sidetree-core-go/pkg/versions/1_0/doctransformer/doctransformer"
)

func TestC06Finding1MalformedVersionQueryResolvesLatest(t *testing.T) {
	recoveryKey, err := ecdsa.GenerateKey(elliptic.P256(), rand.Reader)
	require.NoError(t, err)

	updateKey, err := ecdsa.GenerateKey(elliptic.P256(), rand.Reader)
	require.NoError(t, err)

	pc := newMockProtocolClient()
	for _, v := range pc.Versions {
		v.DocumentTransformerReturns(doctransformer.New())
	}

	// history: create anchored at 10 (reference c10), update anchored at 20 (reference u20, sets /test = special20)
	create, err := getAnchoredCreateOperation(recoveryKey, updateKey)
	require.NoError(t, err)

	create.TransactionTime = 10
	create.CanonicalReference = "c10"
	suffix := create.UniqueSuffix

	update, _, err := getAnchoredUpdateOperation(updateKey, suffix, 20)
	require.NoError(t, err)

	update.CanonicalReference = "u20"

	store := mocks.NewMockOperationStore(nil)
	require.NoError(t, store.Put(create))
	require.NoError(t, store.Put(update))

	dh := corehandler.New(mocks.DefaultNS, nil, pc, nil, New("test", store, pc), &mocks.MetricsProvider{})

	router := mux.NewRouter()
	router.HandleFunc("/identifiers/{id}", resthandler.NewResolveHandler(dh, &mocks.MetricsProvider{}).Resolve)

	srv := httptest.NewServer(router)
	defer srv.Close()

	get := func(query string) (int, string) {
		resp, e := http.Get(srv.URL + "/identifiers/" + mocks.DefaultNS + ":" + suffix + query) //nolint:gosec,noctx
		require.NoError(t, e)

		defer resp.Body.Close() //nolint:errcheck

		body, e := io.ReadAll(resp.Body)
		require.NoError(t, e)

		return resp.StatusCode, string(body)
	}

	// sanity: the handler works for well-formed requests
	code, body := get("")
	require.Equal(t, http.StatusOK, code)
	require.Contains(t, body, "special20")

	code, body = get("?versionId=c10")
	require.Equal(t, http.StatusOK, code)
	require.NotContains(t, body, "special20")

	code, _ = get("?versionId=nope")
	require.NotEqual(t, http.StatusOK, code, "unknown version id is an error")

	code, _ = get("?versionTime=1970-01-01T00:00:05Z")
	require.NotEqual(t, http.StatusOK, code, "a time before the first operation is an error")

	// the violations: none of these names a version of the DID, yet every one is answered with 200 and the latest state
	for _, q := range []string{
		"?versionId=%ZZ",                          // undecodable version id
		"?versionId=nope%",                        // unknown version id with a truncated escape
		"?versionId=nope;a=b",                     // unknown version id, ';' in the pair
		"?versionTime=1970-01-01T00:00:05Z%",      // time before the first operation, truncated escape
		"?versionTime=1970-01-01T00:00:05Z;a=b",   // time before the first operation, ';' in the pair
		"?versionTime=1970-01-01T00:00:15Z;a=b",   // time between create and update: must NOT show the update
		"?versionId=c10;a=b",                      // if taken as version c10 it must not show the update either
		"?versionTime=garbage%ZZ&versionId=nope%", // both undecodable
	} {
		code, body = get(q)
		if code == http.StatusOK && strings.Contains(body, "special20") {
			t.Errorf("GET %s: want an error (or the state of the version asked for), got 200 with the LATEST state", q)
		}
	}
}
