package processor

// C06 finding 2: a resolution that is given a version time T together with a version id V silently ignores T.
// The REST handler refuses the combination, but processor.Resolve / DocumentHandler.ResolveDocument (the library API
// used by embedding resolvers) accept it: the result contains operations anchored after T, and a T before the
// first operation is not an error.

import (
	"crypto/ecdsa"
	"crypto/elliptic"
	"crypto/rand"
	"testing"

	"github.com/stretchr/testify/require"

	"github.com/trustbloc/sidetree-core-go/pkg/document"
	"github.com/trustbloc/sidetree-core-go/pkg/mocks"
)

func TestC06Finding2VersionTimeIgnoredWhenVersionIDGiven(t *testing.T) {
	recoveryKey, err := ecdsa.GenerateKey(elliptic.P256(), rand.Reader)
	require.NoError(t, err)

	updateKey, err := ecdsa.GenerateKey(elliptic.P256(), rand.Reader)
	require.NoError(t, err)

	pc := newMockProtocolClient()

	// history: create anchored at 10 (reference c10), update anchored at 20 (reference u20, sets /test = special20)
	create, err := getAnchoredCreateOperation(recoveryKey, updateKey)
	require.NoError(t, err)

	create.TransactionTime = 10
	create.CanonicalReference = "c10"
	suffix := create.UniqueSuffix

	update, _, err := getAnchoredUpdateOperation(updateKey, suffix, 20)
	require.NoError(t, err)

	update.CanonicalReference = "u20"

	store := mocks.NewMockOperationStore(nil)
	require.NoError(t, store.Put(create))
	require.NoError(t, store.Put(update))

	p := New("test", store, pc)

	const (
		beforeFirst = "1970-01-01T00:00:05Z" // before the create
		between     = "1970-01-01T00:00:15Z" // after the create, before the update
	)

	// sanity: each cut on its own behaves as the property says
	_, err = p.Resolve(suffix, document.WithVersionTime(beforeFirst))
	require.Error(t, err)

	rm, err := p.Resolve(suffix, document.WithVersionTime(between))
	require.NoError(t, err)
	require.Nil(t, rm.Doc["test"])
	require.Len(t, rm.PublishedOperations, 1)

	// version time before the first operation: must be an error
	rm, err = p.Resolve(suffix, document.WithVersionTime(beforeFirst), document.WithVersionID("u20"))
	if err == nil {
		t.Errorf("version time %s is before the first operation (anchored at 10) but resolution succeeded: versionId=%s, %d operations, test=%v",
			beforeFirst, rm.VersionID, len(rm.PublishedOperations), rm.Doc["test"])
	}

	// version time between create and update: the update anchored at 20 must not be part of the result
	rm, err = p.Resolve(suffix, document.WithVersionID("u20"), document.WithVersionTime(between))
	if err == nil && (rm.Doc["test"] != nil || len(rm.PublishedOperations) != 1) {
		t.Errorf("version time %s: result contains the update anchored at 20: versionId=%s, %d operations, test=%v",
			between, rm.VersionID, len(rm.PublishedOperations), rm.Doc["test"])
	}
}
