package operationparser

import (
	"math"
	"testing"

	"github.com/trustbloc/sidetree-core-go/pkg/api/protocol"
)

// Property C10: "Every limit is inclusive, enforced exactly at its boundary and governed only by its own protocol
// parameter" - under configurations in which each parameter is varied independently.
//
// The limits are unsigned protocol parameters (uint / uint64) but every comparison converts the LIMIT to int
// (len(x) > int(p.MaxOperationSize), ... int(p.MaxDeltaSize), ... int(p.MaxOperationHashLength)): a limit above
// math.MaxInt64 wraps to a negative number, so RAISING the limit makes intake refuse a request it accepted before.
func TestAuditC10_LimitAboveMaxInt64WrapsNegative(t *testing.T) {
	base := func() protocol.Protocol {
		return protocol.Protocol{
			MaxOperationSize:       2000,
			MaxOperationHashLength: 100,
			MaxDeltaSize:           1000,
			MultihashAlgorithms:    []uint{sha2_256},
			SignatureAlgorithms:    []string{"alg"},
			KeyAlgorithms:          []string{"crv"},
			Patches:                []string{"replace", "add-public-keys", "remove-public-keys", "add-services", "remove-services", "ietf-json-patch"},
		}
	}

	request, err := getCreateRequestBytes() // the valid create request used by the package's own tests
	if err != nil {
		t.Fatal(err)
	}

	_, err = New(base()).Parse("did:sidetree", request)
	if err != nil {
		t.Fatalf("test premise: the request must be acceptable under ordinary limits: %v", err)
	}

	cases := []struct {
		name string
		set  func(p *protocol.Protocol, v uint)
	}{
		{"MaxOperationSize", func(p *protocol.Protocol, v uint) { p.MaxOperationSize = v }},
		{"MaxDeltaSize", func(p *protocol.Protocol, v uint) { p.MaxDeltaSize = v }},
		{"MaxOperationHashLength", func(p *protocol.Protocol, v uint) { p.MaxOperationHashLength = v }},
	}

	for _, c := range cases {
		for _, limit := range []uint{math.MaxInt64, math.MaxInt64 + 1, math.MaxUint64} {
			p := base()
			c.set(&p, limit)

			_, err := New(p).Parse("did:sidetree", request)
			if err != nil {
				t.Errorf("%s=%d: a %d-byte request within every limit is refused: %v", c.name, limit, len(request), err)
			}
		}
	}
}
