package audit

// Finding 1 (C18): entries of "publicKeys" / "services" that are not JSON objects - and, in a replace patch,
// "publicKeys" / "services" values that are not arrays - are silently skipped by delta validation
// (document.ParsePublicKeys / ParseServices drop them before validatePublicKeys / validateServices look at anything),
// so none of the id / type / purpose / key-material / endpoint rules is applied to them. The replace patch then writes
// the unvalidated value verbatim into the document's publicKey / service section.
//
// run: go test ./_audit/ -run TestFinding1 -count=1   (from /tmp/wt-C18B, with GOFLAGS=-mod=mod GOPROXY=off ...)

import (
	"strings"
	"testing"
)

func TestFinding1_NonObjectEntriesBypassKeyAndServiceValidation(t *testing.T) {
	// a key entry / service entry violating EVERY rule: id with blanks and '!', unknown key type, unknown purpose,
	// no key material; service type of 34 characters, endpoint that is no URI
	const badKey = `{"id":"bad id!!","type":"NoSuchType","purposes":["nope"]}`
	const badService = `{"id":"bad id!!","type":"0123456789012345678901234567890123","serviceEndpoint":"not a uri"}`

	// control: as direct array elements both are refused
	if ok, _, _ := acceptAndApply(t, `[{"action":"replace","document":{"publicKeys":[`+badKey+`]}}]`); ok {
		t.Fatal("control: bad key accepted")
	}
	if ok, _, _ := acceptAndApply(t, `[{"action":"replace","document":{"services":[`+badService+`]}}]`); ok {
		t.Fatal("control: bad service accepted")
	}

	cases := []struct{ name, patches string }{
		{"replace: entries wrapped in one more array", `[{"action":"replace","document":{"publicKeys":[[` + badKey + `]],"services":[[` + badService + `]]}}]`},
		{"replace: publicKeys is an object, not an array", `[{"action":"replace","document":{"publicKeys":` + badKey + `}}]`},
		{"replace: services is an object, not an array", `[{"action":"replace","document":{"services":` + badService + `}}]`},
		{"replace: publicKeys is a string", `[{"action":"replace","document":{"publicKeys":"junk"}}]`},
		{"add-public-keys: entry is a string", `[{"action":"add-public-keys","publicKeys":["junk"]}]`},
		{"add-public-keys: number next to a good key", `[{"action":"add-public-keys","publicKeys":[7,` + goodKey + `]}]`},
		{"add-public-keys: bad key wrapped in an array", `[{"action":"add-public-keys","publicKeys":[[` + badKey + `]]}]`},
		{"add-services: entry is a string", `[{"action":"add-services","services":["junk"]}]`},
		{"add-services: bad service wrapped in an array", `[{"action":"add-services","services":[[` + badService + `]]}]`},
	}

	for _, c := range cases {
		ok, doc, err := acceptAndApply(t, c.patches)
		if ok {
			t.Errorf("%s: delta ACCEPTED by ValidateDelta (apply err=%v)\n   delta patches: %s\n   resulting document: %s", c.name, err, c.patches, doc)
		}

		if strings.Contains(doc, "bad id!!") {
			t.Errorf("%s: the document now carries an entry with id 'bad id!!': %s", c.name, doc)
		}
	}
}
