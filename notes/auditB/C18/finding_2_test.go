package audit

// Finding 2 (C18): validateServiceEndpoint only looks at endpoints that are strings or arrays of strings; every other
// JSON type falls through to "return nil". A service whose endpoint is a number, a boolean, or an array holding
// numbers / nested arrays (with arbitrary non-URI strings inside) passes delta validation and is written to the document.
//
// run: go test ./_audit/ -run TestFinding2 -count=1

import "testing"

func TestFinding2_IllTypedServiceEndpointAccepted(t *testing.T) {
	// control: the same non-URI as a plain string or as a direct array element is refused
	for _, ep := range []string{`"not a uri"`, `["https://ok.example","not a uri"]`} {
		if ok, _, _ := acceptAndApply(t, `[{"action":"add-services","services":[{"id":"s1","type":"t","serviceEndpoint":`+ep+`}]}]`); ok {
			t.Fatalf("control: endpoint %s accepted", ep)
		}
	}

	for _, ep := range []string{`42`, `true`, `1.5e300`, `[42]`, `[null]`, `["https://ok.example",false]`, `[["not a uri"]]`, `[[["not a uri"]],"https://ok.example"]`} {
		patches := `[{"action":"add-services","services":[{"id":"s1","type":"t","serviceEndpoint":` + ep + `}]}]`

		ok, doc, err := acceptAndApply(t, patches)
		if ok {
			t.Errorf("serviceEndpoint %s: delta ACCEPTED (apply err=%v); resulting document: %s", ep, err, doc)
		}
	}
}
