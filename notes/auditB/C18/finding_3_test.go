package audit

// Finding 3 (C18): validateURI uses url.ParseRequestURI, which parses an HTTP request target, not a URI: it accepts the
// asterisk form "*", bare absolute paths and network-path references (no scheme), and does not object to characters
// that may not occur in a URI (blank, '<', '>', '"', '{', '}', '|', '\', '^', '`', non-ASCII). None of these is a
// valid URI (RFC 3986, section 3: URI = scheme ":" hier-part ...; Sidetree: "a valid URI string (including a scheme
// segment: i.e. http://, git://)"), yet the services are accepted and written to the document.
//
// run: go test ./_audit/ -run TestFinding3 -count=1

import (
	"encoding/json"
	"testing"
)

func TestFinding3_SchemelessAndMalformedStringsAcceptedAsURI(t *testing.T) {
	// control
	if ok, _, _ := acceptAndApply(t, `[{"action":"add-services","services":[{"id":"s1","type":"t","serviceEndpoint":"not a uri"}]}]`); ok {
		t.Fatal("control: 'not a uri' accepted")
	}

	for _, ep := range []string{"*", "/", "/etc/passwd", "//host-without-scheme/x", "http://x/a b", "http://x/<>\"{}|\\^`", "/é"} {
		q, _ := json.Marshal(ep)

		for _, form := range []string{string(q), `["https://ok.example",` + string(q) + `]`} {
			patches := `[{"action":"add-services","services":[{"id":"s1","type":"t","serviceEndpoint":` + form + `}]}]`

			ok, doc, err := acceptAndApply(t, patches)
			if ok {
				t.Errorf("serviceEndpoint %s: delta ACCEPTED (apply err=%v); resulting document: %s", form, err, doc)
			}
		}
	}
}
