package processor

import (
	"crypto/ecdsa"
	"crypto/elliptic"
	"crypto/rand"
	"encoding/json"
	"fmt"
	"strings"
	"testing"

	"github.com/stretchr/testify/require"

	"github.com/trustbloc/sidetree-core-go/pkg/api/operation"
	"github.com/trustbloc/sidetree-core-go/pkg/api/protocol"
	"github.com/trustbloc/sidetree-core-go/pkg/commitment"
	"github.com/trustbloc/sidetree-core-go/pkg/hashing"
	"github.com/trustbloc/sidetree-core-go/pkg/internal/signutil"
	"github.com/trustbloc/sidetree-core-go/pkg/util/ecsigner"
	"github.com/trustbloc/sidetree-core-go/pkg/util/pubkey"
	"github.com/trustbloc/sidetree-core-go/pkg/versions/1_0/model"
)

type c02bStore struct{ ops []*operation.AnchoredOperation }

func (s *c02bStore) Get(string) ([]*operation.AnchoredOperation, error) {
	return append([]*operation.AnchoredOperation(nil), s.ops...), nil
}

// Two updates signed with the same update key compete for the update commitment of the create operation.
// A is anchored first (time 20), B later (time 30). A was accepted by the intake parser (non-batch mode), it is
// accepted by the operation applier, but the processor drops it: it re-applies MaxOperationSize to the request as
// re-serialized (canonicalized) for the operation store, which is longer than the request that was submitted
// (1e20 -> 100000000000000000000).
func TestC02BFinding1(t *testing.T) {
	pc := newMockProtocolClient()

	pv, err := pc.Get(0)
	require.NoError(t, err)

	p := pv.Protocol()
	parser := pv.OperationParser()

	recoveryKey, updateKey := newC02BKey(t), newC02BKey(t)

	createOp, err := getAnchoredCreateOperation(recoveryKey, updateKey) // anchored at (0, 0)
	require.NoError(t, err)

	suffix := createOp.UniqueSuffix

	// ---- update A: built as raw JSON, the way a client submits it
	_, commitmentA, err := generateKeyAndCommitment(p)
	require.NoError(t, err)

	numbers := strings.TrimSuffix(strings.Repeat("1e20,", 36), ",")
	rawDelta := fmt.Sprintf(`{"patches":[{"action":"ietf-json-patch","patches":[{"op":"add","path":"/test","value":[%s]}]}],`+
		`"updateCommitment":"%s"}`, numbers, commitmentA)

	delta := &model.DeltaModel{}
	require.NoError(t, json.Unmarshal([]byte(rawDelta), delta))

	deltaHash, err := hashing.CalculateModelMultihash(delta, sha2_256)
	require.NoError(t, err)

	updatePubKey, err := pubkey.GetPublicKeyJWK(&updateKey.PublicKey)
	require.NoError(t, err)

	rv, err := commitment.GetRevealValue(updatePubKey, sha2_256)
	require.NoError(t, err)

	build := func(kidLen int) []byte {
		jws, e := signutil.SignModel(&model.UpdateSignedDataModel{DeltaHash: deltaHash, UpdateKey: updatePubKey},
			ecsigner.New(updateKey, "ES256", strings.Repeat("k", kidLen)))
		require.NoError(t, e)

		return []byte(fmt.Sprintf(`{"type":"update","didSuffix":"%s","revealValue":"%s","delta":%s,"signedData":"%s"}`,
			suffix, rv, rawDelta, jws))
	}

	// pad the (optional, unrestricted) kid header so that the submitted request is just within MaxOperationSize
	kidLen := 0
	for len(build(kidLen+3)) <= int(p.MaxOperationSize) {
		kidLen += 3
	}

	rawA := build(kidLen)
	require.LessOrEqual(t, len(rawA), int(p.MaxOperationSize))

	// intake accepts A (non-batch mode: all checks, including operation size and delta size)
	_, err = parser.Parse("did:sidetree", rawA)
	require.NoError(t, err, "intake accepts update A")

	// the way the operation gets into the operation store: parsed model -> model.GetAnchoredOperation
	// (txnprovider.createAnchoredOperations) -> stamped by the txn processor
	type modelParser interface {
		ParseOperation(namespace string, operationBuffer []byte, batch bool) (*model.Operation, error)
	}

	opA, err := parser.(modelParser).ParseOperation("did:sidetree", rawA, false)
	require.NoError(t, err)

	anchoredA, err := model.GetAnchoredOperation(opA)
	require.NoError(t, err)

	anchoredA.TransactionTime, anchoredA.TransactionNumber = 20, 0
	anchoredA.CanonicalReference = "refA"
	anchoredA.ProtocolVersion = 0

	t.Logf("submitted request: %d bytes, stored request: %d bytes, MaxOperationSize: %d",
		len(rawA), len(anchoredA.OperationRequest), p.MaxOperationSize)

	// the operation applier accepts A on top of the create operation
	afterCreate, err := pv.OperationApplier().Apply(createOp, &protocol.ResolutionModel{})
	require.NoError(t, err)

	afterA, err := pv.OperationApplier().Apply(anchoredA, afterCreate)
	require.NoError(t, err, "applier accepts update A")
	require.Equal(t, commitmentA, afterA.UpdateCommitment)

	// ---- update B: same update key, anchored later
	anchoredB, _, err := getAnchoredUpdateOperation(updateKey, suffix, 30)
	require.NoError(t, err)

	anchoredB.TransactionTime, anchoredB.TransactionNumber = 30, 0
	anchoredB.CanonicalReference = "refB"
	anchoredB.ProtocolVersion = 0

	for _, order := range [][]*operation.AnchoredOperation{
		{createOp, anchoredA, anchoredB}, {anchoredB, anchoredA, createOp},
	} {
		rm, err := New("test", &c02bStore{ops: order}, pc).Resolve(suffix)
		require.NoError(t, err)

		require.Equal(t, commitmentA, rm.UpdateCommitment,
			"update A (anchored at 20) must win over update B (anchored at 30); last applied operation was anchored at %d",
			rm.LastOperationTransactionTime)
	}
}

func newC02BKey(t *testing.T) *ecdsa.PrivateKey {
	k, err := ecdsa.GenerateKey(elliptic.P256(), rand.Reader)
	require.NoError(t, err)

	return k
}
