package client_test

// Finding 1 (C11): NewCreateRequest / NewRecoverRequest return a request (no error) for an opaque document whose
// "publicKey" / "service" section is empty or null - e.g. the very document the library's own resolution returns after
// the last key has been removed - and the operation parser refuses that request at intake.
//
// run from the repository root:
//   cp _audit/finding_1_test.go pkg/versions/1_0/client/zz_finding_1_test.go && \
//   go test ./pkg/versions/1_0/client/ -run TestFinding1 -count=1

import (
	"crypto/ecdsa"
	"crypto/elliptic"
	"crypto/rand"
	"encoding/json"
	"testing"

	"github.com/trustbloc/sidetree-core-go/pkg/api/operation"
	"github.com/trustbloc/sidetree-core-go/pkg/commitment"
	"github.com/trustbloc/sidetree-core-go/pkg/jws"
	"github.com/trustbloc/sidetree-core-go/pkg/mocks"
	"github.com/trustbloc/sidetree-core-go/pkg/patch"
	"github.com/trustbloc/sidetree-core-go/pkg/processor"
	"github.com/trustbloc/sidetree-core-go/pkg/util/ecsigner"
	"github.com/trustbloc/sidetree-core-go/pkg/util/pubkey"
	"github.com/trustbloc/sidetree-core-go/pkg/versions/1_0/client"
	"github.com/trustbloc/sidetree-core-go/pkg/versions/1_0/doccomposer"
	"github.com/trustbloc/sidetree-core-go/pkg/versions/1_0/operationapplier"
	"github.com/trustbloc/sidetree-core-go/pkg/versions/1_0/operationparser"
)

const f1Code = 18 // sha2-256

const f1Doc = `{"publicKey":[{"id":"k1","type":"JsonWebKey2020","purposes":["authentication"],"publicKeyJwk":{"kty":"EC","crv":"P-256","x":"PUymIqdtF_qxaAqPABSw-C-owT1KYYQbsMKFM-L9fJA","y":"nM84jDHCMOTGTh_ZdHq4dBBdo4Z5PkEOW9jA8z8IsGc"}}],"service":[{"id":"s1","type":"T","serviceEndpoint":"https://example.com"}]}`

type f1Key struct {
	jwk    *jws.JWK
	signer *ecsigner.Signer
	commit string
	reveal string
}

func f1NewKey(t *testing.T) *f1Key {
	t.Helper()

	priv, err := ecdsa.GenerateKey(elliptic.P256(), rand.Reader)
	if err != nil {
		t.Fatal(err)
	}

	jwk, err := pubkey.GetPublicKeyJWK(&priv.PublicKey)
	if err != nil {
		t.Fatal(err)
	}

	c, err := commitment.GetCommitment(jwk, f1Code)
	if err != nil {
		t.Fatal(err)
	}

	r, err := commitment.GetRevealValue(jwk, f1Code)
	if err != nil {
		t.Fatal(err)
	}

	return &f1Key{jwk: jwk, signer: ecsigner.New(priv, "ES256", ""), commit: c, reveal: r}
}

type f1Env struct {
	parser *operationparser.Parser
	store  *mocks.MockOperationStore
	proc   *processor.OperationProcessor
	txn    uint64
}

func f1NewEnv() *f1Env {
	p := mocks.GetDefaultProtocolParameters() // ES256 / P-256, sha2-256, add/remove keys and services, JSON patch

	pc := mocks.NewMockProtocolClient()
	v := mocks.GetProtocolVersion(p)
	pc.Versions = []*mocks.ProtocolVersion{v}
	pc.CurrentVersion = v

	parser := operationparser.New(p)
	dc := doccomposer.New()
	v.OperationParserReturns(parser)
	v.OperationApplierReturns(operationapplier.New(p, parser, dc))
	v.DocumentComposerReturns(dc)

	store := mocks.NewMockOperationStore(nil)

	return &f1Env{parser: parser, store: store, proc: processor.New("f1", store, pc)}
}

// submit = intake parse (what the REST endpoint does) + anchoring.
func (e *f1Env) submit(req []byte, time uint64) (string, error) {
	op, err := e.parser.Parse("did:sidetree", req)
	if err != nil {
		return "", err
	}

	e.txn++

	return op.UniqueSuffix, e.store.Put(&operation.AnchoredOperation{
		Type: op.Type, UniqueSuffix: op.UniqueSuffix, OperationRequest: op.OperationRequest,
		TransactionTime: time, TransactionNumber: e.txn, CanonicalReference: "ref",
	})
}

// A DID is created, its only key is removed by an update, and the controller then recovers the DID to the document
// resolution reports (all requests are built by the client library).
func TestFinding1RecoverToResolvedDocument(t *testing.T) {
	env := f1NewEnv()
	rec1, upd1, upd2, rec2, upd3 := f1NewKey(t), f1NewKey(t), f1NewKey(t), f1NewKey(t), f1NewKey(t)

	req, err := client.NewCreateRequest(&client.CreateRequestInfo{
		OpaqueDocument: f1Doc, RecoveryCommitment: rec1.commit, UpdateCommitment: upd1.commit, MultihashCode: f1Code,
	})
	if err != nil {
		t.Fatal(err)
	}

	suffix, err := env.submit(req, 10)
	if err != nil {
		t.Fatal(err)
	}

	rm, err := env.proc.Resolve(suffix)
	if err != nil {
		t.Fatal(err)
	}

	p, err := patch.NewRemovePublicKeysPatch(`["k1"]`)
	if err != nil {
		t.Fatal(err)
	}

	req, err = client.NewUpdateRequest(&client.UpdateRequestInfo{
		DidSuffix: suffix, Patches: []patch.Patch{p}, UpdateCommitment: upd2.commit, UpdateKey: upd1.jwk,
		MultihashCode: f1Code, Signer: upd1.signer, RevealValue: upd1.reveal,
	})
	if err != nil {
		t.Fatal(err)
	}

	if _, err = env.submit(req, 20); err != nil {
		t.Fatal(err)
	}

	rm, err = env.proc.Resolve(suffix)
	if err != nil {
		t.Fatal(err)
	}

	resolved, err := json.Marshal(rm.Doc)
	if err != nil {
		t.Fatal(err)
	}

	t.Logf("document after the update (as resolved): %s", resolved)

	req, err = client.NewRecoverRequest(&client.RecoverRequestInfo{
		DidSuffix: suffix, RecoveryKey: rec1.jwk, OpaqueDocument: string(resolved),
		RecoveryCommitment: rec2.commit, UpdateCommitment: upd3.commit, MultihashCode: f1Code,
		Signer: rec1.signer, RevealValue: rec1.reveal,
	})
	if err != nil {
		t.Fatalf("the builder refused the document (that would be acceptable): %v", err)
	}

	if _, err = env.submit(req, 30); err != nil {
		t.Fatalf("the builder produced a recover request without error, the parser refuses it: %v", err)
	}

	rm, err = env.proc.Resolve(suffix)
	if err != nil {
		t.Fatal(err)
	}

	if rm.RecoveryCommitment != rec2.commit || rm.UpdateCommitment != upd3.commit {
		t.Fatal("recover did not take effect")
	}
}

// The same with hand-written documents, for create and for recover.
func TestFinding1EmptySections(t *testing.T) {
	docs := []string{
		`{"publicKey":[],"service":[{"id":"s1","type":"T","serviceEndpoint":"https://example.com"}]}`,
		`{"service":[],"publicKey":[{"id":"k1","type":"JsonWebKey2020","purposes":["authentication"],"publicKeyJwk":{"kty":"EC","crv":"P-256","x":"PUymIqdtF_qxaAqPABSw-C-owT1KYYQbsMKFM-L9fJA","y":"nM84jDHCMOTGTh_ZdHq4dBBdo4Z5PkEOW9jA8z8IsGc"}}]}`,
		`{"publicKey":null,"created":"2020-01-01"}`,
		`{}`,
	}

	for _, doc := range docs {
		env := f1NewEnv()
		rec1, upd1, rec2, upd2 := f1NewKey(t), f1NewKey(t), f1NewKey(t), f1NewKey(t)

		req, err := client.NewCreateRequest(&client.CreateRequestInfo{
			OpaqueDocument: doc, RecoveryCommitment: rec1.commit, UpdateCommitment: upd1.commit, MultihashCode: f1Code,
		})
		if err != nil {
			t.Logf("create %s: refused by the builder: %v", doc, err)
		} else if _, err = env.parser.Parse("did:sidetree", req); err != nil {
			t.Errorf("create %s: built without error, refused by the parser: %v", doc, err)
		}

		req, err = client.NewRecoverRequest(&client.RecoverRequestInfo{
			DidSuffix: "EiDahaOGH-liLLdDtTxEAdc8i-cfCz-WUcQdRJheMVNn3A", RecoveryKey: rec1.jwk, OpaqueDocument: doc,
			RecoveryCommitment: rec2.commit, UpdateCommitment: upd2.commit, MultihashCode: f1Code,
			Signer: rec1.signer, RevealValue: rec1.reveal,
		})
		if err != nil {
			t.Logf("recover %s: refused by the builder: %v", doc, err)
		} else if _, err = env.parser.Parse("did:sidetree", req); err != nil {
			t.Errorf("recover %s: built without error, refused by the parser: %v", doc, err)
		}
	}
}
