package processor

import (
	"crypto/ecdsa"
	"crypto/elliptic"
	"crypto/rand"
	"encoding/json"
	"fmt"
	"testing"

	"github.com/trustbloc/sidetree-core-go/pkg/api/operation"
	"github.com/trustbloc/sidetree-core-go/pkg/api/protocol"
	"github.com/trustbloc/sidetree-core-go/pkg/commitment"
	"github.com/trustbloc/sidetree-core-go/pkg/hashing"
	"github.com/trustbloc/sidetree-core-go/pkg/internal/signutil"
	"github.com/trustbloc/sidetree-core-go/pkg/jws"
	"github.com/trustbloc/sidetree-core-go/pkg/mocks"
	"github.com/trustbloc/sidetree-core-go/pkg/patch"
	"github.com/trustbloc/sidetree-core-go/pkg/util/ecsigner"
	"github.com/trustbloc/sidetree-core-go/pkg/util/pubkey"
	"github.com/trustbloc/sidetree-core-go/pkg/versions/1_0/doccomposer"
	"github.com/trustbloc/sidetree-core-go/pkg/versions/1_0/model"
	"github.com/trustbloc/sidetree-core-go/pkg/versions/1_0/operationapplier"
	"github.com/trustbloc/sidetree-core-go/pkg/versions/1_0/operationparser"
)

const f3xAlg = 18

type f3xKey struct {
	priv *ecdsa.PrivateKey
	jwk  *jws.JWK
	c    string // commitment
	rv   string // reveal value
}

func f3xNewKey(t *testing.T) *f3xKey {
	t.Helper()

	priv, err := ecdsa.GenerateKey(elliptic.P256(), rand.Reader)
	if err != nil {
		t.Fatal(err)
	}

	jwk, err := pubkey.GetPublicKeyJWK(&priv.PublicKey)
	if err != nil {
		t.Fatal(err)
	}

	c, err := commitment.GetCommitment(jwk, f3xAlg)
	if err != nil {
		t.Fatal(err)
	}

	rv, err := commitment.GetRevealValue(jwk, f3xAlg)
	if err != nil {
		t.Fatal(err)
	}

	return &f3xKey{priv: priv, jwk: jwk, c: c, rv: rv}
}

func f3xProtocolClient() *mocks.MockProtocolClient {
	pc := mocks.NewMockProtocolClient()
	pc.Versions = nil

	p := protocol.Protocol{
		GenesisTime:                 0,
		MultihashAlgorithms:         []uint{f3xAlg},
		MaxOperationCount:           10,
		MaxOperationSize:            mocks.MaxOperationByteSize,
		MaxOperationHashLength:      100,
		MaxDeltaSize:                mocks.MaxDeltaByteSize,
		MaxCasURILength:             100,
		CompressionAlgorithm:        "GZIP",
		MaxChunkFileSize:            mocks.MaxBatchFileSize,
		MaxProvisionalIndexFileSize: mocks.MaxBatchFileSize,
		MaxCoreIndexFileSize:        mocks.MaxBatchFileSize,
		SignatureAlgorithms:         []string{"EdDSA", "ES256"},
		KeyAlgorithms:               []string{"Ed25519", "P-256"},
		Patches:                     []string{"replace", "add-public-keys", "remove-public-keys", "add-services", "remove-services", "ietf-json-patch"},
		MaxOperationTimeDelta:       100,
	}

	v := mocks.GetProtocolVersion(p)
	parser := operationparser.New(v.Protocol())
	dc := doccomposer.New()
	oa := operationapplier.New(v.Protocol(), parser, dc)
	v.OperationParserReturns(parser)
	v.OperationApplierReturns(oa)
	v.DocumentComposerReturns(dc)

	pc.Versions = append(pc.Versions, v)
	pc.CurrentVersion = v

	return pc
}

// f3xJSONPatch returns an ietf-json-patch that adds member name=value at top level.
func f3xJSONPatch(t *testing.T, name, value string) patch.Patch {
	t.Helper()

	p, err := patch.NewJSONPatch(fmt.Sprintf(`[{"op":"add","path":"/%s","value":"%s"}]`, name, value))
	if err != nil {
		t.Fatal(err)
	}

	return p
}

// f3xFailingPatch is a valid patch that fails to apply (removes a missing member).
func f3xFailingPatch(t *testing.T) patch.Patch {
	t.Helper()

	p, err := patch.NewJSONPatch(`[{"op":"remove","path":"/doesNotExist"}]`)
	if err != nil {
		t.Fatal(err)
	}

	return p
}

func f3xHash(t *testing.T, v interface{}) string {
	t.Helper()

	h, err := hashing.CalculateModelMultihash(v, f3xAlg)
	if err != nil {
		t.Fatal(err)
	}

	return h
}

func f3xAnchor(t *testing.T, typ operation.Type, suffix string, req interface{}, time, num uint64) *operation.AnchoredOperation {
	t.Helper()

	var b []byte

	if raw, ok := req.([]byte); ok {
		b = raw
	} else {
		var err error

		b, err = json.Marshal(req)
		if err != nil {
			t.Fatal(err)
		}
	}

	return &operation.AnchoredOperation{
		Type:               typ,
		UniqueSuffix:       suffix,
		OperationRequest:   b,
		TransactionTime:    time,
		TransactionNumber:  num,
		ProtocolVersion:    0,
		CanonicalReference: fmt.Sprintf("ref-%d-%d", time, num),
	}
}

func f3xCreate(t *testing.T, recovery, update *f3xKey, patches []patch.Patch, time uint64) (*operation.AnchoredOperation, string) {
	t.Helper()

	delta := &model.DeltaModel{UpdateCommitment: update.c, Patches: patches}
	sd := &model.SuffixDataModel{DeltaHash: f3xHash(t, delta), RecoveryCommitment: recovery.c}
	suffix := f3xHash(t, sd)

	req := &model.CreateRequest{Operation: operation.TypeCreate, SuffixData: sd, Delta: delta}

	return f3xAnchor(t, operation.TypeCreate, suffix, req, time, 0), suffix
}

func f3xUpdateReq(t *testing.T, suffix string, signer, next *f3xKey, patches []patch.Patch, from, until int64) *model.UpdateRequest {
	t.Helper()

	delta := &model.DeltaModel{UpdateCommitment: next.c, Patches: patches}
	signed := &model.UpdateSignedDataModel{DeltaHash: f3xHash(t, delta), UpdateKey: signer.jwk, AnchorFrom: from, AnchorUntil: until}

	compact, err := signutil.SignModel(signed, ecsigner.New(signer.priv, "ES256", ""))
	if err != nil {
		t.Fatal(err)
	}

	return &model.UpdateRequest{Operation: operation.TypeUpdate, DidSuffix: suffix, RevealValue: signer.rv, SignedData: compact, Delta: delta}
}

func f3xUpdate(t *testing.T, suffix string, signer, next *f3xKey, patches []patch.Patch, time uint64) *operation.AnchoredOperation {
	t.Helper()

	return f3xAnchor(t, operation.TypeUpdate, suffix, f3xUpdateReq(t, suffix, signer, next, patches, 0, 0), time, 0)
}

func f3xRecoverReq(t *testing.T, suffix string, signer, nextRecovery, nextUpdate *f3xKey, patches []patch.Patch, from, until int64) *model.RecoverRequest {
	t.Helper()

	delta := &model.DeltaModel{UpdateCommitment: nextUpdate.c, Patches: patches}
	signed := &model.RecoverSignedDataModel{
		DeltaHash: f3xHash(t, delta), RecoveryKey: signer.jwk, RecoveryCommitment: nextRecovery.c,
		AnchorFrom: from, AnchorUntil: until,
	}

	compact, err := signutil.SignModel(signed, ecsigner.New(signer.priv, "ES256", ""))
	if err != nil {
		t.Fatal(err)
	}

	return &model.RecoverRequest{Operation: operation.TypeRecover, DidSuffix: suffix, RevealValue: signer.rv, SignedData: compact, Delta: delta}
}

func f3xRecover(t *testing.T, suffix string, signer, nextRecovery, nextUpdate *f3xKey, patches []patch.Patch, time uint64) *operation.AnchoredOperation {
	t.Helper()

	return f3xAnchor(t, operation.TypeRecover, suffix, f3xRecoverReq(t, suffix, signer, nextRecovery, nextUpdate, patches, 0, 0), time, 0)
}

func f3xDeactivate(t *testing.T, suffix string, signer *f3xKey, from, until int64, time uint64) *operation.AnchoredOperation {
	t.Helper()

	signed := &model.DeactivateSignedDataModel{DidSuffix: suffix, RecoveryKey: signer.jwk, AnchorFrom: from, AnchorUntil: until}

	compact, err := signutil.SignModel(signed, ecsigner.New(signer.priv, "ES256", ""))
	if err != nil {
		t.Fatal(err)
	}

	req := &model.DeactivateRequest{Operation: operation.TypeDeactivate, DidSuffix: suffix, RevealValue: signer.rv, SignedData: compact}

	return f3xAnchor(t, operation.TypeDeactivate, suffix, req, time, 0)
}

func f3xResolve(t *testing.T, suffix string, ops ...*operation.AnchoredOperation) (*protocol.ResolutionModel, error) {
	t.Helper()

	store := mocks.NewMockOperationStore(nil)

	for _, op := range ops {
		if err := store.Put(op); err != nil {
			t.Fatal(err)
		}
	}

	return New("test", store, f3xProtocolClient()).Resolve(suffix)
}

// Finding 3: update operations are chained by commitment without regard to anchoring time: an update anchored BEFORE
// the update that makes its commitment current is applied after it (the resolved "last operation" time runs backwards).
func TestFinding3UpdateAnchoredBeforeItsPredecessor(t *testing.T) {
	r1, u1, u2, u3 := f3xNewKey(t), f3xNewKey(t), f3xNewKey(t), f3xNewKey(t)

	create, suffix := f3xCreate(t, r1, u1, []patch.Patch{f3xJSONPatch(t, "a", "created")}, 1)
	upd2 := f3xUpdate(t, suffix, u2, u3, []patch.Patch{f3xJSONPatch(t, "second", "x")}, 5) // reveals U2: not current at time 5
	upd1 := f3xUpdate(t, suffix, u1, u2, []patch.Patch{f3xJSONPatch(t, "first", "x")}, 10) // reveals U1: current

	rm, err := f3xResolve(t, suffix, create, upd2, upd1)
	if err != nil {
		t.Fatal(err)
	}

	// state machine: at time 5 the update commitment is U1, the update revealing U2 is not authorised and is ignored;
	// at time 10 the update revealing U1 is applied: update commitment U2, document {a, first}
	if rm.UpdateCommitment != u2.c || rm.Doc["second"] != nil || rm.LastOperationTransactionTime != 10 {
		t.Errorf("update anchored at 5 was applied after the update anchored at 10: update commitment is U3=%v (want U2), document=%v, last operation time=%d",
			rm.UpdateCommitment == u3.c, rm.Doc, rm.LastOperationTransactionTime)
	}
}

// the same with a fork: the first (invalid) candidate for U1 is skipped, the valid one is anchored at 10, the update
// revealing U2 was anchored at 5.
func TestFinding3UpdateAnchoredBeforeItsPredecessorFork(t *testing.T) {
	r1, u1, u2, u3, other := f3xNewKey(t), f3xNewKey(t), f3xNewKey(t), f3xNewKey(t), f3xNewKey(t)

	create, suffix := f3xCreate(t, r1, u1, []patch.Patch{f3xJSONPatch(t, "a", "created")}, 1)

	// unauthorised candidate for U1 at time 2: signed by another key
	badReq := f3xUpdateReq(t, suffix, other, u2, []patch.Patch{f3xJSONPatch(t, "bad", "x")}, 0, 0)
	badReq.RevealValue = u1.rv
	bad := f3xAnchor(t, operation.TypeUpdate, suffix, badReq, 2, 0)

	upd2 := f3xUpdate(t, suffix, u2, u3, []patch.Patch{f3xJSONPatch(t, "second", "x")}, 5)
	upd1 := f3xUpdate(t, suffix, u1, u2, []patch.Patch{f3xJSONPatch(t, "first", "x")}, 10)

	rm, err := f3xResolve(t, suffix, create, bad, upd2, upd1)
	if err != nil {
		t.Fatal(err)
	}

	if rm.UpdateCommitment != u2.c || rm.Doc["second"] != nil {
		t.Errorf("update anchored at 5 was applied after the update anchored at 10: update commitment is U3=%v (want U2), document=%v",
			rm.UpdateCommitment == u3.c, rm.Doc)
	}
}
