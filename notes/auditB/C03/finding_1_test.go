package processor

import (
	"crypto/ecdsa"
	"crypto/elliptic"
	"crypto/rand"
	"encoding/json"
	"fmt"
	"testing"

	"github.com/trustbloc/sidetree-core-go/pkg/api/operation"
	"github.com/trustbloc/sidetree-core-go/pkg/api/protocol"
	"github.com/trustbloc/sidetree-core-go/pkg/commitment"
	"github.com/trustbloc/sidetree-core-go/pkg/hashing"
	"github.com/trustbloc/sidetree-core-go/pkg/internal/signutil"
	"github.com/trustbloc/sidetree-core-go/pkg/jws"
	"github.com/trustbloc/sidetree-core-go/pkg/mocks"
	"github.com/trustbloc/sidetree-core-go/pkg/patch"
	"github.com/trustbloc/sidetree-core-go/pkg/util/ecsigner"
	"github.com/trustbloc/sidetree-core-go/pkg/util/pubkey"
	"github.com/trustbloc/sidetree-core-go/pkg/versions/1_0/doccomposer"
	"github.com/trustbloc/sidetree-core-go/pkg/versions/1_0/model"
	"github.com/trustbloc/sidetree-core-go/pkg/versions/1_0/operationapplier"
	"github.com/trustbloc/sidetree-core-go/pkg/versions/1_0/operationparser"
)

const f1xAlg = 18

type f1xKey struct {
	priv *ecdsa.PrivateKey
	jwk  *jws.JWK
	c    string // commitment
	rv   string // reveal value
}

func f1xNewKey(t *testing.T) *f1xKey {
	t.Helper()

	priv, err := ecdsa.GenerateKey(elliptic.P256(), rand.Reader)
	if err != nil {
		t.Fatal(err)
	}

	jwk, err := pubkey.GetPublicKeyJWK(&priv.PublicKey)
	if err != nil {
		t.Fatal(err)
	}

	c, err := commitment.GetCommitment(jwk, f1xAlg)
	if err != nil {
		t.Fatal(err)
	}

	rv, err := commitment.GetRevealValue(jwk, f1xAlg)
	if err != nil {
		t.Fatal(err)
	}

	return &f1xKey{priv: priv, jwk: jwk, c: c, rv: rv}
}

func f1xProtocolClient() *mocks.MockProtocolClient {
	pc := mocks.NewMockProtocolClient()
	pc.Versions = nil

	p := protocol.Protocol{
		GenesisTime:                 0,
		MultihashAlgorithms:         []uint{f1xAlg},
		MaxOperationCount:           10,
		MaxOperationSize:            mocks.MaxOperationByteSize,
		MaxOperationHashLength:      100,
		MaxDeltaSize:                mocks.MaxDeltaByteSize,
		MaxCasURILength:             100,
		CompressionAlgorithm:        "GZIP",
		MaxChunkFileSize:            mocks.MaxBatchFileSize,
		MaxProvisionalIndexFileSize: mocks.MaxBatchFileSize,
		MaxCoreIndexFileSize:        mocks.MaxBatchFileSize,
		SignatureAlgorithms:         []string{"EdDSA", "ES256"},
		KeyAlgorithms:               []string{"Ed25519", "P-256"},
		Patches:                     []string{"replace", "add-public-keys", "remove-public-keys", "add-services", "remove-services", "ietf-json-patch"},
		MaxOperationTimeDelta:       100,
	}

	v := mocks.GetProtocolVersion(p)
	parser := operationparser.New(v.Protocol())
	dc := doccomposer.New()
	oa := operationapplier.New(v.Protocol(), parser, dc)
	v.OperationParserReturns(parser)
	v.OperationApplierReturns(oa)
	v.DocumentComposerReturns(dc)

	pc.Versions = append(pc.Versions, v)
	pc.CurrentVersion = v

	return pc
}

// f1xJSONPatch returns an ietf-json-patch that adds member name=value at top level.
func f1xJSONPatch(t *testing.T, name, value string) patch.Patch {
	t.Helper()

	p, err := patch.NewJSONPatch(fmt.Sprintf(`[{"op":"add","path":"/%s","value":"%s"}]`, name, value))
	if err != nil {
		t.Fatal(err)
	}

	return p
}

// f1xFailingPatch is a valid patch that fails to apply (removes a missing member).
func f1xFailingPatch(t *testing.T) patch.Patch {
	t.Helper()

	p, err := patch.NewJSONPatch(`[{"op":"remove","path":"/doesNotExist"}]`)
	if err != nil {
		t.Fatal(err)
	}

	return p
}

func f1xHash(t *testing.T, v interface{}) string {
	t.Helper()

	h, err := hashing.CalculateModelMultihash(v, f1xAlg)
	if err != nil {
		t.Fatal(err)
	}

	return h
}

func f1xAnchor(t *testing.T, typ operation.Type, suffix string, req interface{}, time, num uint64) *operation.AnchoredOperation {
	t.Helper()

	var b []byte

	if raw, ok := req.([]byte); ok {
		b = raw
	} else {
		var err error

		b, err = json.Marshal(req)
		if err != nil {
			t.Fatal(err)
		}
	}

	return &operation.AnchoredOperation{
		Type:               typ,
		UniqueSuffix:       suffix,
		OperationRequest:   b,
		TransactionTime:    time,
		TransactionNumber:  num,
		ProtocolVersion:    0,
		CanonicalReference: fmt.Sprintf("ref-%d-%d", time, num),
	}
}

func f1xCreate(t *testing.T, recovery, update *f1xKey, patches []patch.Patch, time uint64) (*operation.AnchoredOperation, string) {
	t.Helper()

	delta := &model.DeltaModel{UpdateCommitment: update.c, Patches: patches}
	sd := &model.SuffixDataModel{DeltaHash: f1xHash(t, delta), RecoveryCommitment: recovery.c}
	suffix := f1xHash(t, sd)

	req := &model.CreateRequest{Operation: operation.TypeCreate, SuffixData: sd, Delta: delta}

	return f1xAnchor(t, operation.TypeCreate, suffix, req, time, 0), suffix
}

func f1xUpdateReq(t *testing.T, suffix string, signer, next *f1xKey, patches []patch.Patch, from, until int64) *model.UpdateRequest {
	t.Helper()

	delta := &model.DeltaModel{UpdateCommitment: next.c, Patches: patches}
	signed := &model.UpdateSignedDataModel{DeltaHash: f1xHash(t, delta), UpdateKey: signer.jwk, AnchorFrom: from, AnchorUntil: until}

	compact, err := signutil.SignModel(signed, ecsigner.New(signer.priv, "ES256", ""))
	if err != nil {
		t.Fatal(err)
	}

	return &model.UpdateRequest{Operation: operation.TypeUpdate, DidSuffix: suffix, RevealValue: signer.rv, SignedData: compact, Delta: delta}
}

func f1xUpdate(t *testing.T, suffix string, signer, next *f1xKey, patches []patch.Patch, time uint64) *operation.AnchoredOperation {
	t.Helper()

	return f1xAnchor(t, operation.TypeUpdate, suffix, f1xUpdateReq(t, suffix, signer, next, patches, 0, 0), time, 0)
}

func f1xRecoverReq(t *testing.T, suffix string, signer, nextRecovery, nextUpdate *f1xKey, patches []patch.Patch, from, until int64) *model.RecoverRequest {
	t.Helper()

	delta := &model.DeltaModel{UpdateCommitment: nextUpdate.c, Patches: patches}
	signed := &model.RecoverSignedDataModel{
		DeltaHash: f1xHash(t, delta), RecoveryKey: signer.jwk, RecoveryCommitment: nextRecovery.c,
		AnchorFrom: from, AnchorUntil: until,
	}

	compact, err := signutil.SignModel(signed, ecsigner.New(signer.priv, "ES256", ""))
	if err != nil {
		t.Fatal(err)
	}

	return &model.RecoverRequest{Operation: operation.TypeRecover, DidSuffix: suffix, RevealValue: signer.rv, SignedData: compact, Delta: delta}
}

func f1xRecover(t *testing.T, suffix string, signer, nextRecovery, nextUpdate *f1xKey, patches []patch.Patch, time uint64) *operation.AnchoredOperation {
	t.Helper()

	return f1xAnchor(t, operation.TypeRecover, suffix, f1xRecoverReq(t, suffix, signer, nextRecovery, nextUpdate, patches, 0, 0), time, 0)
}

func f1xDeactivate(t *testing.T, suffix string, signer *f1xKey, from, until int64, time uint64) *operation.AnchoredOperation {
	t.Helper()

	signed := &model.DeactivateSignedDataModel{DidSuffix: suffix, RecoveryKey: signer.jwk, AnchorFrom: from, AnchorUntil: until}

	compact, err := signutil.SignModel(signed, ecsigner.New(signer.priv, "ES256", ""))
	if err != nil {
		t.Fatal(err)
	}

	req := &model.DeactivateRequest{Operation: operation.TypeDeactivate, DidSuffix: suffix, RevealValue: signer.rv, SignedData: compact}

	return f1xAnchor(t, operation.TypeDeactivate, suffix, req, time, 0)
}

func f1xResolve(t *testing.T, suffix string, ops ...*operation.AnchoredOperation) (*protocol.ResolutionModel, error) {
	t.Helper()

	store := mocks.NewMockOperationStore(nil)

	for _, op := range ops {
		if err := store.Put(op); err != nil {
			t.Fatal(err)
		}
	}

	return New("test", store, f1xProtocolClient()).Resolve(suffix)
}

// Finding 1: a commitment is consumed twice when a recover re-commits to an update commitment that was consumed
// before it: the processor only remembers the commitments consumed in the current applyOperations call, the update
// operations anchored before the last recover are dropped by anchoring time without being looked at, so the update
// operation that consumed U1 at time 2 is accepted again (replayed by anybody) at time 4.
func TestFinding1CommitmentConsumedTwiceAcrossRecover(t *testing.T) {
	r1, u1, u2, r2 := f1xNewKey(t), f1xNewKey(t), f1xNewKey(t), f1xNewKey(t)

	create, suffix := f1xCreate(t, r1, u1, []patch.Patch{f1xJSONPatch(t, "a", "created")}, 1)
	upd1 := f1xUpdate(t, suffix, u1, u2, []patch.Patch{f1xJSONPatch(t, "first", "x")}, 2)

	// sanity: update consumed U1 at time 2
	rm, err := f1xResolve(t, suffix, create, upd1)
	if err != nil || rm.UpdateCommitment != u2.c || rm.Doc["first"] != "x" {
		t.Fatalf("sanity: %v %+v", err, rm)
	}

	// the recover (authorised by r1) replaces the document and sets the update commitment to U1 again
	rec := f1xRecover(t, suffix, r1, r2, u1, []patch.Patch{f1xJSONPatch(t, "c", "recovered")}, 3)

	rm, err = f1xResolve(t, suffix, create, upd1, rec)
	if err != nil || rm.UpdateCommitment != u1.c || rm.RecoveryCommitment != r2.c || rm.Doc["c"] != "recovered" || rm.Doc["first"] != nil {
		t.Fatalf("sanity recover: %v %+v", err, rm)
	}

	// the very same update request (same bytes, same signature) anchored once more, after the recover
	replay := *upd1
	replay.TransactionTime = 4
	replay.CanonicalReference = "ref-4-0"

	rm, err = f1xResolve(t, suffix, create, upd1, rec, &replay)
	if err != nil {
		t.Fatal(err)
	}

	if rm.UpdateCommitment != u1.c || rm.Doc["first"] != nil {
		t.Errorf("commitment U1 was consumed a second time by the replayed update: update commitment is U2=%v (want U1), document=%v (want only the recovered document)",
			rm.UpdateCommitment == u2.c, rm.Doc)
	}
}
