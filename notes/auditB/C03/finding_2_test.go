package processor

import (
	"crypto/ecdsa"
	"crypto/elliptic"
	"crypto/rand"
	"encoding/json"
	"fmt"
	"testing"

	"github.com/trustbloc/sidetree-core-go/pkg/api/operation"
	"github.com/trustbloc/sidetree-core-go/pkg/api/protocol"
	"github.com/trustbloc/sidetree-core-go/pkg/commitment"
	"github.com/trustbloc/sidetree-core-go/pkg/hashing"
	"github.com/trustbloc/sidetree-core-go/pkg/internal/signutil"
	"github.com/trustbloc/sidetree-core-go/pkg/jws"
	"github.com/trustbloc/sidetree-core-go/pkg/mocks"
	"github.com/trustbloc/sidetree-core-go/pkg/patch"
	"github.com/trustbloc/sidetree-core-go/pkg/util/ecsigner"
	"github.com/trustbloc/sidetree-core-go/pkg/util/pubkey"
	"github.com/trustbloc/sidetree-core-go/pkg/versions/1_0/doccomposer"
	"github.com/trustbloc/sidetree-core-go/pkg/versions/1_0/model"
	"github.com/trustbloc/sidetree-core-go/pkg/versions/1_0/operationapplier"
	"github.com/trustbloc/sidetree-core-go/pkg/versions/1_0/operationparser"
)

const f2xAlg = 18

type f2xKey struct {
	priv *ecdsa.PrivateKey
	jwk  *jws.JWK
	c    string // commitment
	rv   string // reveal value
}

func f2xNewKey(t *testing.T) *f2xKey {
	t.Helper()

	priv, err := ecdsa.GenerateKey(elliptic.P256(), rand.Reader)
	if err != nil {
		t.Fatal(err)
	}

	jwk, err := pubkey.GetPublicKeyJWK(&priv.PublicKey)
	if err != nil {
		t.Fatal(err)
	}

	c, err := commitment.GetCommitment(jwk, f2xAlg)
	if err != nil {
		t.Fatal(err)
	}

	rv, err := commitment.GetRevealValue(jwk, f2xAlg)
	if err != nil {
		t.Fatal(err)
	}

	return &f2xKey{priv: priv, jwk: jwk, c: c, rv: rv}
}

func f2xProtocolClient() *mocks.MockProtocolClient {
	pc := mocks.NewMockProtocolClient()
	pc.Versions = nil

	p := protocol.Protocol{
		GenesisTime:                 0,
		MultihashAlgorithms:         []uint{f2xAlg},
		MaxOperationCount:           10,
		MaxOperationSize:            mocks.MaxOperationByteSize,
		MaxOperationHashLength:      100,
		MaxDeltaSize:                mocks.MaxDeltaByteSize,
		MaxCasURILength:             100,
		CompressionAlgorithm:        "GZIP",
		MaxChunkFileSize:            mocks.MaxBatchFileSize,
		MaxProvisionalIndexFileSize: mocks.MaxBatchFileSize,
		MaxCoreIndexFileSize:        mocks.MaxBatchFileSize,
		SignatureAlgorithms:         []string{"EdDSA", "ES256"},
		KeyAlgorithms:               []string{"Ed25519", "P-256"},
		Patches:                     []string{"replace", "add-public-keys", "remove-public-keys", "add-services", "remove-services", "ietf-json-patch"},
		MaxOperationTimeDelta:       100,
	}

	v := mocks.GetProtocolVersion(p)
	parser := operationparser.New(v.Protocol())
	dc := doccomposer.New()
	oa := operationapplier.New(v.Protocol(), parser, dc)
	v.OperationParserReturns(parser)
	v.OperationApplierReturns(oa)
	v.DocumentComposerReturns(dc)

	pc.Versions = append(pc.Versions, v)
	pc.CurrentVersion = v

	return pc
}

// f2xJSONPatch returns an ietf-json-patch that adds member name=value at top level.
func f2xJSONPatch(t *testing.T, name, value string) patch.Patch {
	t.Helper()

	p, err := patch.NewJSONPatch(fmt.Sprintf(`[{"op":"add","path":"/%s","value":"%s"}]`, name, value))
	if err != nil {
		t.Fatal(err)
	}

	return p
}

// f2xFailingPatch is a valid patch that fails to apply (removes a missing member).
func f2xFailingPatch(t *testing.T) patch.Patch {
	t.Helper()

	p, err := patch.NewJSONPatch(`[{"op":"remove","path":"/doesNotExist"}]`)
	if err != nil {
		t.Fatal(err)
	}

	return p
}

func f2xHash(t *testing.T, v interface{}) string {
	t.Helper()

	h, err := hashing.CalculateModelMultihash(v, f2xAlg)
	if err != nil {
		t.Fatal(err)
	}

	return h
}

func f2xAnchor(t *testing.T, typ operation.Type, suffix string, req interface{}, time, num uint64) *operation.AnchoredOperation {
	t.Helper()

	var b []byte

	if raw, ok := req.([]byte); ok {
		b = raw
	} else {
		var err error

		b, err = json.Marshal(req)
		if err != nil {
			t.Fatal(err)
		}
	}

	return &operation.AnchoredOperation{
		Type:               typ,
		UniqueSuffix:       suffix,
		OperationRequest:   b,
		TransactionTime:    time,
		TransactionNumber:  num,
		ProtocolVersion:    0,
		CanonicalReference: fmt.Sprintf("ref-%d-%d", time, num),
	}
}

func f2xCreate(t *testing.T, recovery, update *f2xKey, patches []patch.Patch, time uint64) (*operation.AnchoredOperation, string) {
	t.Helper()

	delta := &model.DeltaModel{UpdateCommitment: update.c, Patches: patches}
	sd := &model.SuffixDataModel{DeltaHash: f2xHash(t, delta), RecoveryCommitment: recovery.c}
	suffix := f2xHash(t, sd)

	req := &model.CreateRequest{Operation: operation.TypeCreate, SuffixData: sd, Delta: delta}

	return f2xAnchor(t, operation.TypeCreate, suffix, req, time, 0), suffix
}

func f2xUpdateReq(t *testing.T, suffix string, signer, next *f2xKey, patches []patch.Patch, from, until int64) *model.UpdateRequest {
	t.Helper()

	delta := &model.DeltaModel{UpdateCommitment: next.c, Patches: patches}
	signed := &model.UpdateSignedDataModel{DeltaHash: f2xHash(t, delta), UpdateKey: signer.jwk, AnchorFrom: from, AnchorUntil: until}

	compact, err := signutil.SignModel(signed, ecsigner.New(signer.priv, "ES256", ""))
	if err != nil {
		t.Fatal(err)
	}

	return &model.UpdateRequest{Operation: operation.TypeUpdate, DidSuffix: suffix, RevealValue: signer.rv, SignedData: compact, Delta: delta}
}

func f2xUpdate(t *testing.T, suffix string, signer, next *f2xKey, patches []patch.Patch, time uint64) *operation.AnchoredOperation {
	t.Helper()

	return f2xAnchor(t, operation.TypeUpdate, suffix, f2xUpdateReq(t, suffix, signer, next, patches, 0, 0), time, 0)
}

func f2xRecoverReq(t *testing.T, suffix string, signer, nextRecovery, nextUpdate *f2xKey, patches []patch.Patch, from, until int64) *model.RecoverRequest {
	t.Helper()

	delta := &model.DeltaModel{UpdateCommitment: nextUpdate.c, Patches: patches}
	signed := &model.RecoverSignedDataModel{
		DeltaHash: f2xHash(t, delta), RecoveryKey: signer.jwk, RecoveryCommitment: nextRecovery.c,
		AnchorFrom: from, AnchorUntil: until,
	}

	compact, err := signutil.SignModel(signed, ecsigner.New(signer.priv, "ES256", ""))
	if err != nil {
		t.Fatal(err)
	}

	return &model.RecoverRequest{Operation: operation.TypeRecover, DidSuffix: suffix, RevealValue: signer.rv, SignedData: compact, Delta: delta}
}

func f2xRecover(t *testing.T, suffix string, signer, nextRecovery, nextUpdate *f2xKey, patches []patch.Patch, time uint64) *operation.AnchoredOperation {
	t.Helper()

	return f2xAnchor(t, operation.TypeRecover, suffix, f2xRecoverReq(t, suffix, signer, nextRecovery, nextUpdate, patches, 0, 0), time, 0)
}

func f2xDeactivate(t *testing.T, suffix string, signer *f2xKey, from, until int64, time uint64) *operation.AnchoredOperation {
	t.Helper()

	signed := &model.DeactivateSignedDataModel{DidSuffix: suffix, RecoveryKey: signer.jwk, AnchorFrom: from, AnchorUntil: until}

	compact, err := signutil.SignModel(signed, ecsigner.New(signer.priv, "ES256", ""))
	if err != nil {
		t.Fatal(err)
	}

	req := &model.DeactivateRequest{Operation: operation.TypeDeactivate, DidSuffix: suffix, RevealValue: signer.rv, SignedData: compact}

	return f2xAnchor(t, operation.TypeDeactivate, suffix, req, time, 0)
}

func f2xResolve(t *testing.T, suffix string, ops ...*operation.AnchoredOperation) (*protocol.ResolutionModel, error) {
	t.Helper()

	store := mocks.NewMockOperationStore(nil)

	for _, op := range ops {
		if err := store.Put(op); err != nil {
			t.Fatal(err)
		}
	}

	return New("test", store, f2xProtocolClient()).Resolve(suffix)
}

// Finding 2: an authorised recover / a create whose (unsigned) delta has the wrong JSON shape is ignored as a whole
// instead of taking effect with an empty document and no update commitment, unlike every other kind of bad delta
// (absent, null, {}, no patches, bad patch, mismatched hash).
func TestFinding2RecoverWithMalformedDelta(t *testing.T) {
	r1, u1, u2, r2 := f2xNewKey(t), f2xNewKey(t), f2xNewKey(t), f2xNewKey(t)

	create, suffix := f2xCreate(t, r1, u1, []patch.Patch{f2xJSONPatch(t, "a", "created")}, 1)

	// control deltas (take effect) followed by the failing ones
	for _, delta := range []string{`null`, `{}`, `{"patches":[]}`, `{"patches":[null]}`, `{"patches":[{"action":5}]}`,
		`{"patches":{}}`, `"x"`, `[]`, `{"patches":[5]}`, `{"updateCommitment":5}`} {
		req := f2xRecoverReq(t, suffix, r1, r2, u2, []patch.Patch{f2xJSONPatch(t, "c", "recovered")}, 0, 0)

		b, err := json.Marshal(req)
		if err != nil {
			t.Fatal(err)
		}

		var m map[string]json.RawMessage
		if err = json.Unmarshal(b, &m); err != nil {
			t.Fatal(err)
		}

		m["delta"] = json.RawMessage(delta) // signed data (recovery key, next recovery commitment, delta hash) untouched

		if b, err = json.Marshal(m); err != nil {
			t.Fatal(err)
		}

		rm, err := f2xResolve(t, suffix, create, f2xAnchor(t, operation.TypeRecover, suffix, b, 2, 0))
		if err != nil {
			t.Fatal(err)
		}

		if rm.RecoveryCommitment != r2.c || rm.UpdateCommitment != "" || len(rm.Doc) != 0 {
			t.Errorf("recover with delta %s: ignored (recovery commitment advanced=%v, update commitment=%q, document=%v); "+
				"want recovery commitment advanced, no update commitment, empty document",
				delta, rm.RecoveryCommitment == r2.c, rm.UpdateCommitment, rm.Doc)
		}
	}
}

func TestFinding2CreateWithMalformedDelta(t *testing.T) {
	r1, u1 := f2xNewKey(t), f2xNewKey(t)

	for _, delta := range []string{`null`, `{"patches":[]}`, `{"patches":{}}`, `"x"`, `{"updateCommitment":5}`} {
		create, suffix := f2xCreate(t, r1, u1, []patch.Patch{f2xJSONPatch(t, "a", "created")}, 1)

		var m map[string]json.RawMessage
		if err := json.Unmarshal(create.OperationRequest, &m); err != nil {
			t.Fatal(err)
		}

		m["delta"] = json.RawMessage(delta) // suffix data (hence the DID suffix) untouched

		create.OperationRequest, _ = json.Marshal(m)

		rm, err := f2xResolve(t, suffix, create)
		if err != nil {
			t.Errorf("create with delta %s: %v; want empty document, recovery commitment fixed, no update commitment", delta, err)

			continue
		}

		if rm.RecoveryCommitment != r1.c || rm.UpdateCommitment != "" || len(rm.Doc) != 0 {
			t.Errorf("create with delta %s: %+v", delta, rm)
		}
	}
}
