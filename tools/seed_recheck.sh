#!/bin/bash
# tools/seed_recheck.sh [name...]: re-run our quick checks against the kept seeded mutants (default: all) and record the
# outcome in meta.json under "recheck".  Applies each patch to /repo and restores it; run it only when nothing else uses /repo.
set -u
cd /verif
[ -z "$(git -C /repo status --porcelain)" ] || { echo "/repo is not clean"; exit 2; }
names=${@:-$(ls seeded)}
for name in $names; do
  d=/verif/seeded/$name
  [ -f $d/patch.diff ] || continue
  checks=$(python3 -c "import json;m=json.load(open('$d/meta.json'));print(' '.join(sorted(set(list(m.get('our_checks',{}).keys())+[m['property']]))))")
  git -C /repo apply $d/patch.diff || { echo "$name: patch does not apply"; continue; }
  res=""
  for chk in $checks; do
    out=$(bin/check $chk --tier quick 2>&1); rc=$?
    cls=$(echo "$out" | grep "violation class" | head -2 | sed 's/violation class //' | tr '\n' ' ' | cut -c1-160)
    echo "$name $chk exit=$rc $cls"
    res="$res $chk:$rc"
  done
  git -C /repo checkout -- .
  rm -rf /verif/replay
  python3 - "$name" "$res" <<'PY'
import json,sys
name,res=sys.argv[1:3]
p=f'/verif/seeded/{name}/meta.json'; m=json.load(open(p))
m['recheck']={x.split(':')[0]:('DETECTED' if x.split(':')[1]=='1' else 'MISSED' if x.split(':')[1]=='0' else 'BROKEN') for x in res.split()}
json.dump(m,open(p,'w'),indent=1)
PY
done
