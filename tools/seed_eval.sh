#!/bin/bash
# tools/seed_eval.sh <name> <worktree> <check...>: confirm a sub-agent's seeded mutant and run our checks against it.
# 1. in the worktree: demo fails with the change, passes without; baseline tests (selected packages) pass with it
# 2. copy patch/demo/meta to /verif/seeded/<name>/
# 3. apply patch to /repo, run the named checks (quick), undo
set -u
export GOFLAGS=-mod=mod GOPROXY=off GOSUMDB=off GOTOOLCHAIN=local
name=$1; wt=$2; shift 2
S=$wt/_seeded
[ -f $S/patch.diff ] || { echo "no patch in $S"; exit 2; }
democmd=$(python3 -c "import json;print(json.load(open('$S/meta.json'))['demo_cmd'])")
echo "== demo with change: $democmd"
(cd $wt && eval "$democmd" > /tmp/seed_demo_with.log 2>&1); with=$?
(cd $wt && git apply -R $S/patch.diff) || { echo "cannot reverse patch"; exit 2; }
(cd $wt && eval "$democmd" > /tmp/seed_demo_without.log 2>&1); without=$?
(cd $wt && git apply $S/patch.diff)
echo "demo exit with change: $with ; without: $without"
mkdir -p /verif/seeded/$name
cp $S/patch.diff $S/meta.json /verif/seeded/$name/
for f in $S/*; do case "$f" in *patch.diff|*meta.json) ;; *) cp "$f" /verif/seeded/$name/;; esac; done
# baseline tests with the change (demo moved aside)
demofiles=$(cd $wt && git status --porcelain | grep '^??' | awk '{print $2}' | grep -v '^_seeded' )
mkdir -p /tmp/seed_aside; for f in $demofiles; do mkdir -p /tmp/seed_aside/$(dirname $f); mv $wt/$f /tmp/seed_aside/$f; done
(cd $wt && go build ./... && go test -mod=mod -vet=off -count=1 ./... 2>&1 | grep -v "^ok\|no test files" | grep -v docutil | head -5) > /tmp/seed_base.log 2>&1
for f in $demofiles; do mv /tmp/seed_aside/$f $wt/$f; done
echo "baseline (non-ok lines, docutil excluded):"; cat /tmp/seed_base.log
# our checks
git -C /repo apply $S/patch.diff || { echo "patch does not apply to /repo"; exit 2; }
res=""
for chk in "$@"; do
  out=$(/verif/bin/check $chk --tier quick 2>&1); rc=$?
  cls=$(echo "$out" | grep "violation class" | head -3 | tr '\n' ' ')
  echo "check $chk: exit $rc $cls"
  res="$res $chk:$rc"
done
git -C /repo checkout -- .
rm -rf /verif/replay
python3 - "$name" "$with" "$without" "$res" <<'PY'
import json,sys
name,w,wo,res=sys.argv[1:5]
p=f'/verif/seeded/{name}/meta.json'; m=json.load(open(p))
m['confirmed']={'demo_exit_with_change':int(w),'demo_exit_without_change':int(wo),'baseline_nonok':open('/tmp/seed_base.log').read().strip()}
m['our_checks']={x.split(':')[0]:('DETECTED' if x.split(':')[1]=='1' else 'MISSED' if x.split(':')[1]=='0' else 'BROKEN') for x in res.split()}
json.dump(m,open(p,'w'),indent=1)
print(m['our_checks'])
PY
