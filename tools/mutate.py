#!/usr/bin/env python3
"""Self-test of the machinery: apply a small source mutation to /repo, run the named checks (quick tier), restore.
usage: tools/mutate.py <name> ... (names from MUTANTS) | all"""
import subprocess, sys, os, json
M = json.load(open('/verif/tools/mutants.json'))
RES_PATH = '/verif/tools/mutants_result.json'
RES = json.load(open(RES_PATH)) if os.path.exists(RES_PATH) else {}
def run(name):
    m = M[name]
    path = '/repo/' + m['file']
    src = open(path).read()
    if m['old'] not in src:
        print(name, 'PATTERN NOT FOUND'); return
    open(path, 'w').write(src.replace(m['old'], m['new'], 1))
    try:
        b = subprocess.run('cd /repo && GOFLAGS=-mod=mod GOPROXY=off go build ./... 2>&1 | tail -3', shell=True, capture_output=True, text=True)
        if b.stdout.strip():
            print(name, 'DOES NOT COMPILE', b.stdout); return
        for chk in m['checks']:
            r = subprocess.run(['/verif/bin/check', chk, '--tier', 'quick'], capture_output=True, text=True, cwd='/verif')
            lines = [l for l in r.stdout.splitlines() if l.startswith('violation class')][:3]
            RES.setdefault(name, {})[chk] = {'verdict': 'DETECTED' if r.returncode == 1 else 'MISSED' if r.returncode == 0 else 'BROKEN',
                                             'classes': [l.split('"')[1] for l in lines if '"' in l][:2]}
            print(f"{name:28s} {chk}: exit {r.returncode} {'DETECTED' if r.returncode == 1 else 'MISSED' if r.returncode == 0 else 'BROKEN'} {lines if r.returncode==1 else r.stderr[-300:] if r.returncode==2 else ''}")
    finally:
        subprocess.run(['git', '-C', '/repo', 'checkout', '--', '.'])
        subprocess.run('rm -rf /verif/replay', shell=True)
names = sys.argv[1:]
if names == ['all']: names = list(M)
if subprocess.run(['git', '-C', '/repo', 'status', '--porcelain'], capture_output=True, text=True).stdout.strip():
    print('/repo is not clean'); sys.exit(2)
for n in names:
    run(n)
    json.dump(RES, open(RES_PATH, 'w'), indent=1, sort_keys=True)
