#!/usr/bin/env python3
"""Self-test of the machinery: apply a small source mutation to /repo, run the named checks (quick tier), restore.
usage: tools/mutate.py <name> ... (names from MUTANTS) | all"""
import subprocess, sys, os, json
M = json.load(open('/verif/tools/mutants.json'))
def run(name):
    m = M[name]
    path = '/repo/' + m['file']
    src = open(path).read()
    if m['old'] not in src:
        print(name, 'PATTERN NOT FOUND'); return
    open(path, 'w').write(src.replace(m['old'], m['new'], 1))
    try:
        b = subprocess.run('cd /repo && GOFLAGS=-mod=mod GOPROXY=off go build ./... 2>&1 | tail -3', shell=True, capture_output=True, text=True)
        if b.stdout.strip():
            print(name, 'DOES NOT COMPILE', b.stdout); return
        for chk in m['checks']:
            r = subprocess.run(['/verif/bin/check', chk, '--tier', 'quick'], capture_output=True, text=True, cwd='/verif')
            lines = [l for l in r.stdout.splitlines() if l.startswith('violation class')][:3]
            print(f"{name:28s} {chk}: exit {r.returncode} {'DETECTED' if r.returncode == 1 else 'MISSED' if r.returncode == 0 else 'BROKEN'} {lines if r.returncode==1 else r.stderr[-300:] if r.returncode==2 else ''}")
    finally:
        subprocess.run(['git', '-C', '/repo', 'checkout', '--', '.'])
        subprocess.run('rm -rf /verif/replay', shell=True)
names = sys.argv[1:]
if names == ['all']: names = list(M)
for n in names: run(n)
