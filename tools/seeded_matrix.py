#!/usr/bin/env python3
"""tools/seeded_matrix.py: print the markdown table of the kept seeded changes (seeded/*/meta.json)."""
import json, os, glob
rows = []
for d in sorted(glob.glob('/verif/seeded/*/')):
    m = json.load(open(d + 'meta.json'))
    name = os.path.basename(d.rstrip('/'))
    first = m.get('our_checks', {})
    now = m.get('recheck', first)
    def short(t, n=150):
        t = ' '.join(t.split())
        return t if len(t) <= n else t[:n] + '...'
    res = []
    for k in sorted(now):
        v = now[k]
        if v == 'DETECTED' and first.get(k) in ('MISSED', 'BROKEN'):
            v = 'detected after strengthening (first run: %s)' % first[k].lower()
        elif v == 'DETECTED' and m.get('strengthening') and k not in first:
            v = 'detected after strengthening'
        res.append('%s: %s' % (k, v.lower()))
    rows.append('| `%s` | %s | %s | %s |' % (name, short(m['summary']), ', '.join(res), short(m.get('strengthening', ''), 220)))
print('| seeded change (`seeded/<name>/`) | what it does | quick checks (own property first listed in the name) | strengthening it led to |')
print('|---|---|---|---|')
print('\n'.join(rows))
