#!/usr/bin/env python3
"""Regenerates /verif/MANIFEST.json from the table below (run after adding a check)."""
import json, os
ROOT = os.path.dirname(os.path.dirname(os.path.abspath(__file__)))
props = [json.loads(l) for l in open(os.path.join(ROOT, 'properties.jsonl'))]

TB = ("Trusted base: TLC 1.8; the concretiser (abstract keys/shapes -> real keys, JWS, request bytes) with its self-checks; "
      "the abstraction alpha (table lookups). Verdicts come only from real-code behaviour; bounds as stated in the cfg headers.")

CLAIMED = {
 "C01": dict(engine="Resolution", design="4/C01", technique="TLA+ Resolution model (TLC exhaustive, NoForgeryEffect) + replay of every enumerated store through the real processor; metamorphic verdict real(store)=real(Legit(store))",
   text="TLC enumerates every store of <=4 (thorough <=5) anchored operations over a legitimate chain plus unauthorised shapes and checks NoForgeryEffect on the specification; every distinct state is replayed through the real OperationProcessor/applier/parser with real keys and JWS (quick: one key type rotated by seed; thorough: all five, both hash algorithms) and the real result with forgeries is compared with the real result without them. Exhaustive within the bound, which is what a universally quantified history property needs and the unit tests cannot give."),
 "C02": dict(engine="Resolution", design="4/C02", technique="TLA+ Resolution model with explicit store return order (ImplMatchesRefAllOrders) + replay of every store under every permutation through the real processor",
   text="TLC checks that the implementation-shaped algorithm (sort, split, scan) equals the declarative earliest-valid-wins definition for every return order of the store, over stores with competing operations, duplicate creates, published+unpublished operations and non-monotone transaction numbers; every store x every permutation is replayed on the real processor; verdict: identical views and operation lists for all orders, equal to the specification."),
 "C03": dict(engine="Resolution", design="4/C03", technique="TLA+ reference state machine (SidetreeCore!ResolveRef) as oracle; TLC-enumerated histories replayed through the real processor and compared field by field",
   text="Every history of <=4 operations over an 18-shape (thorough 28-shape) alphabet with all partial-failure branches, forks, replays and commitment cycles is resolved by the specification (TLC also checks ConsumeOnce/NoRevisit/ImplMatchesRef) and by the real code; document projection, both commitments and the deactivated flag must agree. A per-case watchdog turns non-termination into a violation."),
 "C04": dict(engine="Resolution", design="4/C04", technique="TLA+ Resolution model with monotone anchoring (action property DeactivationTerminal, invariant RecoverSupersedes) + replay of every (store, later extension) pair through the real processor",
   text="TLC explores every store built by anchoring operations in increasing order (plus unpublished ones) over an alphabet with old-key operations and recovers re-committing to already revealed update keys, and checks the action property that a published deactivation is never undone and the invariant that no update at or before the last recover is applied. The harness replays every store, pairs each with its one-operation-shorter predecessor and evaluates the property on the real results (deactivated stays deactivated/empty/no commitments; document = recover's content + only later/unpublished updates)."),
 "C06": dict(engine="Resolution", design="4/C06", technique="TLA+ Resolution model (HistoricalIsTruncation, PastIsImmutable) + replay: real(store, versionTime/versionId) vs real(truncated store) for every store and every cut",
   text="For every enumerated store, every version time 0..max+1 and every version id (each stored reference, plus an unknown one) the real processor is run with the resolution option and, separately, on the truncated history; both must agree with each other and with the specification's result for the truncated store; unknown ids and times before the first operation must be errors."),
 "C12": dict(engine="Resolution", design="4/C12", technique="TLA+ Resolution model over cyclic-commitment alphabets (ConsumeOnce, NoRevisit) + replay with non-termination watchdog; Intake table rows for re-commitment replayed on the real parser for all key types",
   text="Self-loops, 2-cycles and 3-cycles in the update and recovery chains at every chain position are enumerated; TLC checks on the specification that no chain consumes a commitment twice or revisits one; every store is replayed on the real processor (must terminate and equal the specification's chain prefix)."),
 "C05": dict(engine="Window", design="4/C05", technique="TLA+ Window model with the protocol configuration as a variable (WindowEffect, OnlyDelta) + replay of the full product on the real processor and on the real parser with a recording time validator",
   text="The full product of operation type x anchorFrom x anchorUntil x anchoring time x time delta x decoy parameter settings is enumerated by TLC, which derives the expected state from the SidetreeCore state machine and the expected time-validator arguments; each case is executed on real code. Varying unrelated parameters independently is what exposes a window computed from the wrong parameter."),
 "C16": dict(engine="BatchWriter", design="4/C16", technique="TLA+ property spec WriterProp + implementation-shaped BatchWriter model (TLC: invariants, refinement, liveness); TLC-generated schedules single-step the real batch.Writer through gates; traces of driven and truly concurrent real runs validated by TLC against WriterProp",
   text="WriterProp.tla states C16 itself (FIFO prefix cuts, batch bounds, short cut only when forced or at a version boundary, partition into included/expired/deferred, nack to the head, conservation, exactly-once at rest). BatchWriter.tla models the code's steps (Len/Peek/Remove/CAS writes/anchor write/re-add/ack/nack with client adds between any two of them); TLC checks its invariants, that every step refines WriterProp, and liveness under fairness. Every complete behaviour of the bounded model becomes a schedule that drives the REAL writer + cutter + MemQueue + operation handler step by step (client adds injected inside critical windows, k-th CAS write or the anchor write failing); in addition the real writer is Start()ed with real tickers and 2-5 concurrently adding goroutines under random faults. All recorded NDJSON traces are validated by TLC against WriterProp with every invariant at every step."),
 "C15": dict(engine="Pipeline", design="4/C15", technique="TLA+ Pipeline model (TLC: bounded exhaustive check of OnePerSuffixPerTxn, Stamped, AllOrNothing, FailedTxnIsolated, NoTrace) + TLC-simulated behaviours executed on the fully wired real pipeline, traces validated by TLC (PipelineTrace)",
   text="Pipeline.tla models intake, queue, writer round, ledger, observer and store with faults as actions (queue add fails, batch write fails, garbage / duplicate-carrying ledger entries, unreadable or unstorable transactions). TLC checks the C15 invariants exhaustively on a bounded instance (268k states) and generates behaviours; the harness runs each on the real DocumentHandler, batch.Writer, OperationHandler, Observer (consecutive transactions delivered as one notification), TxnProcessor and stores, logging after every action the reply, queue, unpublished store, each stored operation with all its stamps and the number of Put calls; TLC accepts the trace only if every logged value equals the specification's."),
 "C20": dict(engine="Pipeline", design="4/C20", technique="TLA+ Pipeline model with SidetreeCore as reference state machine; fault-free TLC-simulated behaviours executed on the real pipeline with trace validation of every ResolveDocument view; create-view agreement evaluated on real outputs",
   text="Fault-free behaviours (2 DIDs, up to 8 submissions, every flush/observe placement, protocol upgrade at any point with version-specific operations, with/without unpublished store) are executed on the real pipeline; after each step the real ResolveDocument view of every DID must equal ResolveRef over the stored + unpublished operations. The create response, long-form resolution before anchoring and short-form resolution after anchoring are compared modulo the DID string."),
 "C10": dict(engine="Intake", design="4/C10", technique="TLA+ Intake decision table (TLC enumerates baseline + all combinations of <= 2 (thorough 3) rule deviations) replayed on the real Parser.Parse with per-case protocol configuration; postcondition channel for parser entry points",
   text="Intake.tla states the acceptance predicate rule by rule with every limit expressed relative to its own protocol parameter; TLC enumerates the valid baseline of each operation type and every combination of up to MaxDev deviations; the concretiser builds real bytes and a real protocol configuration in which exactly the named classes hold (each parameter set independently, limits hit exactly at and one past their boundary) and the real parser's verdict must equal Accept. In addition ~3000 structurally mutated / truncated / random inputs go through Parse, ParseOperation(batch), GetRevealValue, GetCommitment, ParseDID and must yield a value or an error, never a panic."),
 "C11": dict(engine="ClientReq", design="4/C11", technique="TLA+ ClientReq product space + SidetreeCore effect as oracle; real client builders -> real parser (parse-back equality) -> real processor",
   text="The full product of builder inputs (type, five key types / signature algorithms, two hash algorithms, window forms, patch-list classes, anchor-origin forms, nonce) is enumerated; each request is built by the real client library, must be accepted by a parser enabling exactly that algorithm, must parse back to the inputs field by field, and - anchored inside its window - must produce the state change SidetreeCore computes."),
 "C13": dict(engine="BatchFiles", design="4/C13", technique="TLA+ BatchFiles model (Write/Read; TLC: RoundTrip, Accounting, CountAgrees, OrderCRUD over all batch compositions) + replay of every batch through the real OperationHandler and OperationProvider",
   text="BatchFiles.tla specifies the handler's file layout and the provider's positional read; TLC checks Read(Write(b)) = Expected(b) for every batch of <= 3 (thorough 4) queued operations over 3 suffixes x 4 types x expired flag and emits each; the harness builds the batch from client-style requests, lets the real handler write the files and the real provider read them back, and compares position by position (type, suffix, JSON-equal request, anchor origin), the anchor count and the included/deferred/expired accounting."),
 "C14": dict(engine="BatchFiles", design="4/C14", technique="TLA+ BatchFiles model with a Mutate action over file sets (TLC: ReadSafe; verdict per mutated file set) + the same mutations applied to the real files and read by the real provider under panic capture; opaque fault classes and byte-level channel against the spec'd postcondition",
   text="For every enumerated batch, every structural mutation of its file set (entries dropped / duplicated / retargeted, deltas swapped, references removed or added, anchor count changed; thorough: pairs) and every opaque fault class per file (oversize against its own limit, decompression bomb, over-long URI, null / type-confused members, CAS failure with and without alternate source, garbage anchors) is applied to the REAL files written by the real handler; the real provider must never panic, must reject every case the specification's Read / MustReject rejects, and any successful read must satisfy the postcondition. Seeded truncations, bit flips and byte substitutions of compressed and decompressed files go through the same postcondition channel."),
}

def check(pid, m):
    return {
     "property_id": pid,
     "quick_cmd": f"bin/check {pid} --tier quick",
     "thorough_cmd": f"bin/check {pid} --tier thorough",
     "evidence_file": f"/verif/evidence/{pid}.json",
     "replay_cmd_template": f"bin/check {pid} --replay {{path}}",
     "engine": m["engine"],
     "level_claimed": {"category": "model_checking", "text": m["text"], "design_ref": "DESIGN.md section " + m["design"]},
     "level_note": m.get("note", TB),
     "technique": m["technique"],
    }

engines = {}
for pid, m in CLAIMED.items():
    engines.setdefault(m["engine"], []).append(pid)

manifest = {
 "version": 1,
 "setup_cmd": "bin/setup",
 "hooks": {"guard": "verif", "enable": "go build -tags verif (the harness module replaces the library module with /repo, so every check rebuilds from /repo's working tree)",
           "baseline_off_cmd": "cd /repo && go test -mod=mod -json -vet=off -count=1 -timeout 25m ./...",
           "source_commits": json.load(open(os.path.join(ROOT, 'tools', 'hook_commits.json'))) if os.path.exists(os.path.join(ROOT, 'tools', 'hook_commits.json')) else [],
           "add_only": True},
 "engines": [{"name": n, "path": f"/verif/spec/{n}.tla", "serves_properties": sorted(ps), "kind_free_text": "TLA+ module checked with TLC; bound to the code by the Go harness under /verif/harness (replay of TLC-emitted cases / validation of recorded traces)"} for n, ps in sorted(engines.items())],
 "checks": [check(pid, CLAIMED[pid]) for pid in sorted(CLAIMED)],
 "notes": "All checks: bin/check <id> --tier quick|thorough; exit 0 ok, 1 VIOLATION (replay file under /verif/replay), 2 machinery failure. known_findings.json lists repaired defects (status fixed: suppresses nothing).",
 "not_applicable": [{"property_id": p["id"], "reason": "check not built yet (framework under construction; planned in DESIGN.md section 4)"} for p in props if p["id"] not in CLAIMED],
}
json.dump(manifest, open(os.path.join(ROOT, 'MANIFEST.json'), 'w'), indent=1)
print("claimed:", sorted(CLAIMED), "not_applicable:", len(manifest["not_applicable"]))
