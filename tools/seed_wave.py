#!/usr/bin/env python3
"""tools/seed_wave.py <suffix> : create worktrees /tmp/wt-<id><suffix> of /repo HEAD and write PROMPT.txt into each
(property text + the list of earlier seeded changes to avoid).  The sub-agents see only their worktree."""
import json, sys, glob, os, subprocess
suffix = sys.argv[1]
only = sys.argv[2:]
props = {json.loads(l)['id']: json.loads(l) for l in open('/verif/properties.jsonl')}
tmpl = open('/verif/tools/seed_prompt.tmpl').read()
earlier = {}
for d in glob.glob('/verif/seeded/*/meta.json'):
    m = json.load(open(d))
    earlier.setdefault(m['property'], []).append(' '.join(m['summary'].split())[:260])
for pid, p in props.items():
    if only and pid not in only:
        continue
    wt = f'/tmp/wt-{pid}{suffix}'
    subprocess.run(['git', '-C', '/repo', 'worktree', 'add', '-q', wt, 'HEAD'], check=True)
    extra = ('earlier changes of other testers are listed below - do NOT repeat any of them and do NOT touch the same lines; choose a DIFFERENT aspect, '
             'code path or file among the relevant files (a different operation type, a different branch, a different component of the property statement):\n'
             + '\n'.join('  - ' + e for e in earlier.get(pid, [])))
    t = tmpl.format(wt=wt, title=p['title'], statement=p['statement'], qtext=p['quantifier']['text'], files=', '.join(p['anchors']['files']), extra=extra, pid=pid)
    open(wt + '/PROMPT.txt', 'w').write(t)
    print(wt)
