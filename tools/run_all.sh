#!/bin/bash
# tools/run_all.sh [tier] [seed]: run every claimed check on the current tree (regenerates all evidence files).
tier=${1:-quick}; seed=${2:-0}
cd /verif
ids=$(python3 -c "import json;print(' '.join(c['property_id'] for c in json.load(open('MANIFEST.json'))['checks']))")
fail=0
for p in $ids; do
  s=$(date +%s)
  out=$(VERIF_SEED=$seed bin/check $p --tier $tier 2>&1); rc=$?
  e=$(( $(date +%s) - s ))
  echo "$p rc=$rc ${e}s $(echo "$out" | tail -1 | cut -c1-160)"
  [ $rc -ne 0 ] && fail=1
done
exit $fail
