#!/usr/bin/env python3
"""tools/audit_wave.py <suffix> [ids...]: worktrees /tmp/wt-<id><suffix> with an AUDIT prompt (find genuine defects of the unchanged tree)."""
import json, sys, subprocess
suffix = sys.argv[1]; only = sys.argv[2:]
props = {json.loads(l)['id']: json.loads(l) for l in open('/verif/properties.jsonl')}
tmpl = open('/verif/tools/audit_prompt.tmpl').read()
for pid, p in props.items():
    if only and pid not in only: continue
    wt = f'/tmp/wt-{pid}{suffix}'
    subprocess.run(['git', '-C', '/repo', 'worktree', 'add', '-q', '--detach', wt, 'd22568d'], check=True)
    open(wt + '/PROMPT.txt', 'w').write(tmpl.format(wt=wt, title=p['title'], statement=p['statement'], qtext=p['quantifier']['text'], files=', '.join(p['anchors']['files']), pid=pid))
    print(wt)
