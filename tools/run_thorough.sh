#!/bin/bash
# tools/run_thorough.sh <ids...>: run thorough tiers one after another, log to .work/thorough.log
cd /verif; mkdir -p .work
for p in "$@"; do
  s=$(date +%s)
  out=$(timeout 3600 bin/check $p --tier thorough 2>&1); rc=$?
  echo "$(date +%H:%M:%S) $p rc=$rc $(( $(date +%s) - s ))s $(echo "$out" | tail -2 | tr '\n' ' ' | cut -c1-300)" >> .work/thorough.log
done
